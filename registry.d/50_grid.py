# jxl-grid: AllocTracker accounting (C13) and the raw-pointer subgrids (C02)
GR_AT = "crates/jxl-grid/src/alloc_tracker.rs"; GR_ATM = "kani/jxl-grid/alloc_tracker.rs"
GR_MS = "crates/jxl-grid/src/mutable_subgrid.rs"; GR_MSM = "kani/jxl-grid/mutable_subgrid.rs"
GR_SS = "crates/jxl-grid/src/shared_subgrid.rs"; GR_SSM = "kani/jxl-grid/shared_subgrid.rs"
GR_LIB = "crates/jxl-grid/src/lib.rs"; GR_LIBM = "kani/jxl-grid/lib.rs"

_LEFT = "self.inner.bytes_left.load(Ordering::Relaxed)"
_alloc_attrs = [
    dict(file=GR_AT, before="pub fn alloc<T>(&self, count: usize) -> Result<AllocHandle, crate::OutOfMemory> {", attrs=[
        "kani::requires(count.checked_mul(std::mem::size_of::<T>()).is_some())",
        # Arc::clone(&self.inner) bumps the strong count, which lives 16 bytes before the payload (repr(C) ArcInner);
        # the modifies clause is checked, so a wrong layout guess fails the proof instead of hiding a write
        "kani::modifies(self.inner.bytes_left.as_ptr(), (Arc::as_ptr(&self.inner) as *const usize).wrapping_sub(2))",
        "kani::ensures(|r: &Result<AllocHandle, crate::OutOfMemory>| { let bytes = count * std::mem::size_of::<T>(); "
        "let was = old(%s); let now = %s; match r { "
        "Ok(h) => was >= bytes && now == was - bytes && h.bytes == bytes && Arc::ptr_eq(&h.inner, &self.inner), "
        "Err(e) => was < bytes && now == was && e.bytes == bytes } })" % (_LEFT, _LEFT)]),
    dict(file=GR_AT, before="pub fn expand_limit(&self, by_bytes: usize) {", attrs=[
        "kani::requires(%s.checked_add(by_bytes).is_some())" % _LEFT,
        "kani::modifies(self.inner.bytes_left.as_ptr())",
        "kani::ensures(|_r| %s == old(%s) + by_bytes)" % (_LEFT, _LEFT)]),
    dict(file=GR_AT, before="pub fn shrink_limit(&self, by_bytes: usize) -> Result<(), crate::OutOfMemory> {", attrs=[
        "kani::modifies(self.inner.bytes_left.as_ptr())",
        "kani::ensures(|r: &Result<(), crate::OutOfMemory>| { let was = old(%s); let now = %s; match r { "
        "Ok(()) => was >= by_bytes && now == was - by_bytes, "
        "Err(e) => was < by_bytes && now == was && e.bytes == by_bytes } })" % (_LEFT, _LEFT)]),
    dict(file=GR_AT, before="fn drop(&mut self) {", attrs=[
        "kani::requires(%s.checked_add(self.bytes).is_some())" % _LEFT,
        "kani::modifies(self.inner.bytes_left.as_ptr(), &self.bytes)",
        "kani::ensures(|_r| %s == old(%s) + old(self.bytes) && self.bytes == 0)" % (_LEFT, _LEFT)]),
]
# the canary lives in the alloc_tracker module, whose proof_for_contract harnesses need the attributes
CANARIES["jxl-grid"] = dict(anchor=GR_AT, module=GR_ATM, harness="canary", kind="complete", fns=[], timeout=60, attrs=_alloc_attrs)
_ALLOC_C = ("requires count*size_of::<T>() representable; ensures Ok(h) => bytes_left' == bytes_left - bytes && h.bytes == bytes && h belongs to self; "
            "Err(e) => bytes_left < bytes && bytes_left' == bytes_left && e.bytes == bytes; G' == G; no panic "
            "(kani::requires/ensures/modifies on the real fn, proof_for_contract)")
K("gr.alloc_u8", ["C13", "C01"], "jxl-grid", GR_AT, GR_ATM, "alloc_contract_u8", "complete", ["AllocTracker::alloc", "AllocTracker::with_limit"],
  _ALLOC_C + " [T = u8]", attrs=_alloc_attrs)
K("gr.alloc_f32", ["C13", "C01"], "jxl-grid", GR_AT, GR_ATM, "alloc_contract_f32", "complete", ["AllocTracker::alloc"],
  _ALLOC_C + " [T = f32]", attrs=_alloc_attrs)
K("gr.alloc_16b", ["C13", "C01"], "jxl-grid", GR_AT, GR_ATM, "alloc_contract_16b", "complete", ["AllocTracker::alloc"],
  _ALLOC_C + " [size_of::<T>() = 16]", attrs=_alloc_attrs)
K("gr.handle_drop", ["C13", "C01"], "jxl-grid", GR_AT, GR_ATM, "drop_contract", "complete", ["AllocHandle::drop"],
  "requires bytes_left + h.bytes <= usize::MAX (ghost invariant); ensures bytes_left' == bytes_left + h.bytes, h.bytes' == 0", attrs=_alloc_attrs)
K("gr.shrink_limit", ["C13", "C01"], "jxl-grid", GR_AT, GR_ATM, "shrink_contract", "complete", ["AllocTracker::shrink_limit"],
  "Ok => bytes_left' == bytes_left - by; Err => bytes_left < by, unchanged, error carries by; never panics", attrs=_alloc_attrs)
K("gr.expand_limit", ["C13", "C01"], "jxl-grid", GR_AT, GR_ATM, "expand_contract", "complete", ["AllocTracker::expand_limit"],
  "requires bytes_left + by <= usize::MAX; ensures bytes_left' == bytes_left + by (no wrap)", attrs=_alloc_attrs)
K("gr.tracker_sequence", ["C13", "C01"], "jxl-grid", GR_AT, GR_ATM, "sequence_contract",
  "bounded:sequence length <= 4 operations (complete over budget, sizes, element types u8/f32/16-byte, two clones of the tracker)",
  ["AllocTracker::alloc", "AllocHandle::drop", "AllocTracker::shrink_limit", "AllocTracker::expand_limit", "AllocTracker::clone"],
  "after every operation bytes_left + sum(outstanding handle.bytes) == limit and outstanding <= limit; exhaustion is Err and takes nothing; "
  "after dropping every handle bytes_left == initial + expands - successful shrinks and shrink_limit(all) succeeds",
  tier="thorough", timeout=1200, attrs=_alloc_attrs)
K("gr.tracker_sequence3", ["C13", "C01"], "jxl-grid", GR_AT, GR_ATM, "sequence3_contract",
  "bounded:sequence length <= 3 operations (complete over budget, sizes, element types u8/f32/16-byte)",
  ["AllocTracker::alloc", "AllocHandle::drop", "AllocTracker::shrink_limit", "AllocTracker::expand_limit", "AllocTracker::clone"],
  "same contract as gr.tracker_sequence, 3 operations", attrs=_alloc_attrs)

# ---- MutableSubgrid (C02) ----
_SG_BOUND = ("bounded:backing buffer <= 48 elements, every dimension/coordinate/offset/stride a 6-bit value (one-row grids with any usize stride: gr.ms.from_buf_*); "
             "complete over element values and all geometries/arguments within the bound; every operation starts from an arbitrary well-formed grid, so contracts compose over nestings")
_IN_ALLOC = " [harness precondition: pointers formed for EMPTY edge parts stay <= one-past-the-end, see DESIGN 2.2 / obs_ptr_add_leaves_allocation]"
_MS_ACC = ["MutableSubgrid::try_get_ref", "MutableSubgrid::get_ref", "MutableSubgrid::get", "MutableSubgrid::try_get_row",
           "MutableSubgrid::try_get_mut", "MutableSubgrid::try_get_row_mut", "MutableSubgrid::get_ptr_unchecked"]
_ACC_C = ("; the result has exactly the specified (ptr, width, height, stride); its accessors (try_get_ref/get/try_get_row/try_get_mut/try_get_row_mut) at a symbolic (x, y): "
          "Some iff inside, address == base + off + y*stride + x < len, CBMC pointer checks on the dereference, a write changes exactly that buffer element (observed at a symbolic index)")
def _ms(id, harness, fns, contract, kind=None, **kw):
    K("gr.ms." + id, ["C02"], "jxl-grid", GR_MS, GR_MSM, harness, kind or _SG_BOUND, fns, contract, **kw)
_LEM = "bounded:6-bit values (0..=63) for every dimension, coordinate, offset and stride, buffer <= 48 -- pure arithmetic lemma over the abstract geometry, stride enumerated concretely"
_ms("lemma_sub", "lemma_sub", [], "sub-rectangle (x0, y0, w, h) of a well-formed grid: well-formed if non-empty; element (x, y) == parent element (x0+x, y0+y), inside the parent and the buffer", kind=_LEM)
_ms("lemma_injective", "lemma_injective", [], "distinct coordinates of a well-formed grid are distinct buffer elements (=> coordinate-disjoint parts are memory-disjoint)", kind=_LEM)
_ms("lemma_split_partition", "lemma_split_partition", [], "the two split rectangles are sub-rectangles of the parent and every parent coordinate is in exactly one", kind=_LEM)
_ms("lemma_groups_partition", "lemma_groups_partition", [], "group rectangles are sub-rectangles, pairwise coordinate-disjoint; (px, py) lies in group (px/gw, py/gh); ceil(w/gw) x ceil(h/gh) groups cover", kind=_LEM)
_ms("lemma_merge", "lemma_merge", [], "adjacent well-formed grids (merge's accepted condition) give a well-formed grid that is exactly their union", kind=_LEM)
_ms("lemma_vectored", "lemma_vectored", [], "aligned origin, width and stride multiples of 4 => vector grid well-formed; vector (x, y) == f32 elements (4x..4x+3, y), all inside the buffer", kind=_LEM)
for _t, _tier in [("i16", "quick"), ("f32", "thorough")]:
    _ms("from_buf_" + _t, "ms_from_buf_" + _t, ["MutableSubgrid::from_buf", "MutableSubgrid::new", "MutableSubgrid::empty"] + _MS_ACC,
        "requires width <= stride, (w == 0 || h == 0) ? len == 0 : stride*(h-1)+w <= len (stride: all of usize for one-row grids); ensures geometry (0, w, h, stride) inside the buffer, split_base None" + _ACC_C, tier=_tier)
    _ms("subgrid_" + _t, "ms_subgrid_" + _t, ["MutableSubgrid::subgrid"] + _MS_ACC,
        "requires left <= right <= width, top <= bottom <= height for all 9 Bound combinations per axis; ensures result == sub-rectangle (left, top, right-left, bottom-top) of lemma_sub"
        + _ACC_C + _IN_ALLOC, tier=_tier)
    for _d, _D in [("h", "horizontal"), ("v", "vertical")]:
        _ms("split_%s_%s" % (_d, _t), "ms_split_%s_%s" % (_d, _t), ["MutableSubgrid::split_" + _D] + _MS_ACC,
            "requires at <= width/height; ensures the two parts are exactly the rectangles of lemma_split_partition (inside the parent, disjoint, covering), share the split base"
            + _ACC_C + _IN_ALLOC, tier=_tier)
        _ms("split_%s_in_place_%s" % (_d, _t), "ms_split_%s_in_place_%s" % (_d, _t), ["MutableSubgrid::split_%s_in_place" % _D] + _MS_ACC,
            "same contract; self becomes the first part" + _ACC_C + _IN_ALLOC, tier=_tier)
        _ms("merge_%s_%s" % (_d, _t), "ms_merge_%s_%s" % (_d, _t), ["MutableSubgrid::merge_%s_in_place" % _D, "MutableSubgrid::split_%s_in_place" % _D] + _MS_ACC,
            "merge(split_in_place(g, at)) == g for every at (merge never rejects a genuine split)" + _ACC_C + _IN_ALLOC, tier=_tier)
    _ms("groups_" + _t, "ms_groups_" + _t, ["MutableSubgrid::into_groups", "MutableSubgrid::into_groups_with_fixed_count"] + _MS_ACC,
        "requires gw, gh >= 1; ensures ceil(w/gw)*ceil(h/gh) groups row-first, group (gx, gy) is exactly rectangle (gx*gw, gy*gh, min(gw, rest), min(gh, rest)) of lemma_groups_partition "
        "(inside the parent, pairwise disjoint, covering)" + _ACC_C + _IN_ALLOC, kind=_SG_BOUND + "; <= 12 groups", tier=_tier)
    _ms("groups_fixed_" + _t, "ms_groups_fixed_" + _t, ["MutableSubgrid::into_groups_with_fixed_count"] + _MS_ACC,
        "any num_cols x num_rows: exactly that many groups; group (gx, gy) is the rectangle clamped to the parent (out-of-range groups empty)"
        + _ACC_C + _IN_ALLOC, kind=_SG_BOUND + "; <= 12 groups", tier=_tier)
    _ms("swap_" + _t, "ms_swap_" + _t, ["MutableSubgrid::swap", "MutableSubgrid::get_ptr"],
        "requires both coordinates inside; ensures exactly the two mapped buffer elements are exchanged (same cell: no-op), nothing else changes", tier=_tier)
    _ms("reborrow_" + _t, "ms_reborrow_" + _t, ["MutableSubgrid::borrow_mut", "MutableSubgrid::as_shared", "SharedSubgrid::new"] + _MS_ACC,
        "borrow_mut / as_shared view exactly the same elements (geometry preserved)" + _ACC_C, tier=_tier)
_GUARD = ("bounded:backing buffer <= 48 elements, 6-bit geometry and arguments -- guard proof: the documented assertion in the real code is expected to fail for bad arguments "
          "(not attributable to C02), the tagged postcondition 'returned => arguments were in range' must hold")
_ms("from_buf_rejects", "ms_from_buf_rejects", ["MutableSubgrid::from_buf"],
    "from_buf returns only if width <= stride and the area lies inside the buffer", kind=_GUARD)
_ms("subgrid_rejects", "ms_subgrid_rejects", ["MutableSubgrid::subgrid"], "subgrid returns only for ranges inside the grid", kind=_GUARD)
_ms("split_rejects", "ms_split_rejects", ["MutableSubgrid::split_horizontal", "MutableSubgrid::split_horizontal_in_place",
    "MutableSubgrid::split_vertical", "MutableSubgrid::split_vertical_in_place"], "split_* return only for at <= width/height", kind=_GUARD)
_ms("groups_rejects", "ms_groups_rejects", ["MutableSubgrid::into_groups"], "into_groups never returns for a zero group size (no division by zero)", kind=_GUARD)
_ms("swap_rejects", "ms_swap_rejects", ["MutableSubgrid::swap"], "swap returns only for coordinates inside the grid", kind=_GUARD)
_ms("merge_h_guard", "ms_merge_h_guard", ["MutableSubgrid::merge_horizontal_in_place"] + _MS_ACC,
    "for ANY two well-formed grids and split bases: merge returns only if same stride, same height, right.ptr == self(width, 0), widths fit the stride; "
    "then the merged grid is exactly the union of lemma_merge" + _ACC_C, kind=_GUARD)
_ms("merge_v_guard", "ms_merge_v_guard", ["MutableSubgrid::merge_vertical_in_place"] + _MS_ACC,
    "for ANY two well-formed grids: merge returns only if same stride, same width, bottom.ptr == self(0, height); then the merged grid is exactly the union of lemma_merge" + _ACC_C,
    kind=_GUARD)
_ms("into_i32", "ms_into_i32", ["MutableSubgrid::into_i32"] + _MS_ACC, "same geometry, same elements reinterpreted bit for bit" + _ACC_C)
_ms("as_vectored", "ms_as_vectored", ["MutableSubgrid::as_vectored", "SimdVector::available (__m128)"] + _MS_ACC,
    "Some iff origin 16-byte aligned and width, stride multiples of 4; vector (x, y) starts at f32 element (4x, y), all 4 lanes inside the buffer (lemma_vectored); "
    "16-byte reads/writes of __m128 elements under CBMC pointer checks (plain pointer cast, no intrinsics)")
