# jxl-grid: AllocTracker accounting (C13) and the raw-pointer subgrids (C02)
GR_AT = "crates/jxl-grid/src/alloc_tracker.rs"; GR_ATM = "kani/jxl-grid/alloc_tracker.rs"
GR_MS = "crates/jxl-grid/src/mutable_subgrid.rs"; GR_MSM = "kani/jxl-grid/mutable_subgrid.rs"
GR_SS = "crates/jxl-grid/src/shared_subgrid.rs"; GR_SSM = "kani/jxl-grid/shared_subgrid.rs"
GR_LIB = "crates/jxl-grid/src/lib.rs"; GR_LIBM = "kani/jxl-grid/lib.rs"
CANARIES["jxl-grid"] = dict(anchor=GR_AT, module=GR_ATM, harness="canary", kind="complete", fns=[], timeout=60)

_LEFT = "self.inner.bytes_left.load(Ordering::Relaxed)"
_alloc_attrs = [
    dict(file=GR_AT, before="pub fn alloc<T>(&self, count: usize) -> Result<AllocHandle, crate::OutOfMemory> {", attrs=[
        "kani::requires(count.checked_mul(std::mem::size_of::<T>()).is_some())",
        "kani::modifies(self.inner.bytes_left.as_ptr())",
        "kani::ensures(|r: &Result<AllocHandle, crate::OutOfMemory>| { let bytes = count * std::mem::size_of::<T>(); "
        "let was = old(%s); let now = %s; match r { "
        "Ok(h) => was >= bytes && now == was - bytes && h.bytes == bytes && Arc::ptr_eq(&h.inner, &self.inner), "
        "Err(e) => was < bytes && now == was && e.bytes == bytes } })" % (_LEFT, _LEFT)]),
    dict(file=GR_AT, before="pub fn expand_limit(&self, by_bytes: usize) {", attrs=[
        "kani::requires(%s.checked_add(by_bytes).is_some())" % _LEFT,
        "kani::modifies(self.inner.bytes_left.as_ptr())",
        "kani::ensures(|_r| %s == old(%s) + by_bytes)" % (_LEFT, _LEFT)]),
    dict(file=GR_AT, before="pub fn shrink_limit(&self, by_bytes: usize) -> Result<(), crate::OutOfMemory> {", attrs=[
        "kani::modifies(self.inner.bytes_left.as_ptr())",
        "kani::ensures(|r: &Result<(), crate::OutOfMemory>| { let was = old(%s); let now = %s; match r { "
        "Ok(()) => was >= by_bytes && now == was - by_bytes, "
        "Err(e) => was < by_bytes && now == was && e.bytes == by_bytes } })" % (_LEFT, _LEFT)]),
    dict(file=GR_AT, before="fn drop(&mut self) {", attrs=[
        "kani::requires(%s.checked_add(self.bytes).is_some())" % _LEFT,
        "kani::modifies(self.inner.bytes_left.as_ptr(), &self.bytes)",
        "kani::ensures(|_r| %s == old(%s) + old(self.bytes) && self.bytes == 0)" % (_LEFT, _LEFT)]),
]
_ALLOC_C = ("requires count*size_of::<T>() representable; ensures Ok(h) => bytes_left' == bytes_left - bytes && h.bytes == bytes && h belongs to self; "
            "Err(e) => bytes_left < bytes && bytes_left' == bytes_left && e.bytes == bytes; G' == G; no panic "
            "(kani::requires/ensures/modifies on the real fn, proof_for_contract)")
K("gr.alloc_u8", ["C13", "C01"], "jxl-grid", GR_AT, GR_ATM, "alloc_contract_u8", "complete", ["AllocTracker::alloc", "AllocTracker::with_limit"],
  _ALLOC_C + " [T = u8]", attrs=_alloc_attrs)
K("gr.alloc_f32", ["C13", "C01"], "jxl-grid", GR_AT, GR_ATM, "alloc_contract_f32", "complete", ["AllocTracker::alloc"],
  _ALLOC_C + " [T = f32]", attrs=_alloc_attrs)
K("gr.alloc_16b", ["C13", "C01"], "jxl-grid", GR_AT, GR_ATM, "alloc_contract_16b", "complete", ["AllocTracker::alloc"],
  _ALLOC_C + " [size_of::<T>() = 16]", attrs=_alloc_attrs)
K("gr.handle_drop", ["C13", "C01"], "jxl-grid", GR_AT, GR_ATM, "drop_contract", "complete", ["AllocHandle::drop"],
  "requires bytes_left + h.bytes <= usize::MAX (ghost invariant); ensures bytes_left' == bytes_left + h.bytes, h.bytes' == 0", attrs=_alloc_attrs)
K("gr.shrink_limit", ["C13", "C01"], "jxl-grid", GR_AT, GR_ATM, "shrink_contract", "complete", ["AllocTracker::shrink_limit"],
  "Ok => bytes_left' == bytes_left - by; Err => bytes_left < by, unchanged, error carries by; never panics", attrs=_alloc_attrs)
K("gr.expand_limit", ["C13", "C01"], "jxl-grid", GR_AT, GR_ATM, "expand_contract", "complete", ["AllocTracker::expand_limit"],
  "requires bytes_left + by <= usize::MAX; ensures bytes_left' == bytes_left + by (no wrap)", attrs=_alloc_attrs)
K("gr.tracker_sequence", ["C13", "C01"], "jxl-grid", GR_AT, GR_ATM, "sequence_contract",
  "bounded:sequence length <= 4 operations (complete over budget, sizes, element types u8/f32/16-byte, two clones of the tracker)",
  ["AllocTracker::alloc", "AllocHandle::drop", "AllocTracker::shrink_limit", "AllocTracker::expand_limit", "AllocTracker::clone"],
  "after every operation bytes_left + sum(outstanding handle.bytes) == limit and outstanding <= limit; exhaustion is Err and takes nothing; "
  "after dropping every handle bytes_left == initial + expands - successful shrinks and shrink_limit(all) succeeds", attrs=_alloc_attrs)
