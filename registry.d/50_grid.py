# jxl-grid: AllocTracker accounting (C13) and the raw-pointer subgrids (C02)
GR_AT = "crates/jxl-grid/src/alloc_tracker.rs"; GR_ATM = "kani/jxl-grid/alloc_tracker.rs"
GR_MS = "crates/jxl-grid/src/mutable_subgrid.rs"; GR_MSM = "kani/jxl-grid/mutable_subgrid.rs"
GR_SS = "crates/jxl-grid/src/shared_subgrid.rs"; GR_SSM = "kani/jxl-grid/shared_subgrid.rs"
GR_LIB = "crates/jxl-grid/src/lib.rs"; GR_LIBM = "kani/jxl-grid/lib.rs"

_LEFT = "self.inner.bytes_left.load(Ordering::Relaxed)"
_alloc_attrs = [
    dict(file=GR_AT, before="pub fn alloc<T>(&self, count: usize) -> Result<AllocHandle, crate::OutOfMemory> {", attrs=[
        "kani::requires(count.checked_mul(std::mem::size_of::<T>()).is_some())",
        # Arc::clone(&self.inner) bumps the strong count, which lives 16 bytes before the payload (repr(C) ArcInner);
        # the modifies clause is checked, so a wrong layout guess fails the proof instead of hiding a write
        "kani::modifies(self.inner.bytes_left.as_ptr(), (Arc::as_ptr(&self.inner) as *const usize).wrapping_sub(2))",
        "kani::ensures(|r: &Result<AllocHandle, crate::OutOfMemory>| { let bytes = count * std::mem::size_of::<T>(); "
        "let was = old(%s); let now = %s; match r { "
        "Ok(h) => was >= bytes && now == was - bytes && h.bytes == bytes && Arc::ptr_eq(&h.inner, &self.inner), "
        "Err(e) => was < bytes && now == was && e.bytes == bytes } })" % (_LEFT, _LEFT)]),
    dict(file=GR_AT, before="pub fn expand_limit(&self, by_bytes: usize) {", attrs=[
        "kani::requires(%s.checked_add(by_bytes).is_some())" % _LEFT,
        "kani::modifies(self.inner.bytes_left.as_ptr())",
        "kani::ensures(|_r| %s == old(%s) + by_bytes)" % (_LEFT, _LEFT)]),
    dict(file=GR_AT, before="pub fn shrink_limit(&self, by_bytes: usize) -> Result<(), crate::OutOfMemory> {", attrs=[
        "kani::modifies(self.inner.bytes_left.as_ptr())",
        "kani::ensures(|r: &Result<(), crate::OutOfMemory>| { let was = old(%s); let now = %s; match r { "
        "Ok(()) => was >= by_bytes && now == was - by_bytes, "
        "Err(e) => was < by_bytes && now == was && e.bytes == by_bytes } })" % (_LEFT, _LEFT)]),
    dict(file=GR_AT, before="fn drop(&mut self) {", attrs=[
        "kani::requires(%s.checked_add(self.bytes).is_some())" % _LEFT,
        "kani::modifies(self.inner.bytes_left.as_ptr(), &self.bytes)",
        "kani::ensures(|_r| %s == old(%s) + old(self.bytes) && self.bytes == 0)" % (_LEFT, _LEFT)]),
]
# the canary lives in the alloc_tracker module, whose proof_for_contract harnesses need the attributes
CANARIES["jxl-grid"] = dict(anchor=GR_AT, module=GR_ATM, harness="canary", kind="complete", fns=[], timeout=60, attrs=_alloc_attrs)
_ALLOC_C = ("requires count*size_of::<T>() representable; ensures Ok(h) => bytes_left' == bytes_left - bytes && h.bytes == bytes && h belongs to self; "
            "Err(e) => bytes_left < bytes && bytes_left' == bytes_left && e.bytes == bytes; G' == G; no panic "
            "(kani::requires/ensures/modifies on the real fn, proof_for_contract)")
K("gr.alloc_u8", ["C13", "C01"], "jxl-grid", GR_AT, GR_ATM, "alloc_contract_u8", "complete", ["AllocTracker::alloc", "AllocTracker::with_limit"],
  _ALLOC_C + " [T = u8]", attrs=_alloc_attrs)
K("gr.alloc_f32", ["C13", "C01"], "jxl-grid", GR_AT, GR_ATM, "alloc_contract_f32", "complete", ["AllocTracker::alloc"],
  _ALLOC_C + " [T = f32]", attrs=_alloc_attrs)
K("gr.alloc_16b", ["C13", "C01"], "jxl-grid", GR_AT, GR_ATM, "alloc_contract_16b", "complete", ["AllocTracker::alloc"],
  _ALLOC_C + " [size_of::<T>() = 16]", attrs=_alloc_attrs)
K("gr.handle_drop", ["C13", "C01"], "jxl-grid", GR_AT, GR_ATM, "drop_contract", "complete", ["AllocHandle::drop"],
  "requires bytes_left + h.bytes <= usize::MAX (ghost invariant); ensures bytes_left' == bytes_left + h.bytes, h.bytes' == 0", attrs=_alloc_attrs)
K("gr.shrink_limit", ["C13", "C01"], "jxl-grid", GR_AT, GR_ATM, "shrink_contract", "complete", ["AllocTracker::shrink_limit"],
  "Ok => bytes_left' == bytes_left - by; Err => bytes_left < by, unchanged, error carries by; never panics", attrs=_alloc_attrs)
K("gr.expand_limit", ["C13", "C01"], "jxl-grid", GR_AT, GR_ATM, "expand_contract", "complete", ["AllocTracker::expand_limit"],
  "requires bytes_left + by <= usize::MAX; ensures bytes_left' == bytes_left + by (no wrap)", attrs=_alloc_attrs)
K("gr.tracker_sequence", ["C13", "C01"], "jxl-grid", GR_AT, GR_ATM, "sequence_contract",
  "bounded:sequence length <= 4 operations (complete over budget, sizes, element types u8/f32/16-byte, two clones of the tracker)",
  ["AllocTracker::alloc", "AllocHandle::drop", "AllocTracker::shrink_limit", "AllocTracker::expand_limit", "AllocTracker::clone"],
  "after every operation bytes_left + sum(outstanding handle.bytes) == limit and outstanding <= limit; exhaustion is Err and takes nothing; "
  "after dropping every handle bytes_left == initial + expands - successful shrinks and shrink_limit(all) succeeds",
  tier="thorough", timeout=1200, attrs=_alloc_attrs)
K("gr.tracker_sequence3", ["C13", "C01"], "jxl-grid", GR_AT, GR_ATM, "sequence3_contract",
  "bounded:sequence length <= 3 operations (complete over budget, sizes, element types u8/f32/16-byte)",
  ["AllocTracker::alloc", "AllocHandle::drop", "AllocTracker::shrink_limit", "AllocTracker::expand_limit", "AllocTracker::clone"],
  "same contract as gr.tracker_sequence, 3 operations", attrs=_alloc_attrs)

# ---- MutableSubgrid (C02) ----
_QB = "backing buffer <= 24 elements, every dimension/coordinate/offset/stride a 5-bit value"
_TB = "backing buffer <= 48 elements, every dimension/coordinate/offset/stride a 6-bit value"
def _sg_bound(b, extra=""):
    return ("bounded:" + b + " (one-row grids with any usize stride: from_buf harness)" + extra + "; complete over element values and all geometries/arguments within the bound; "
            "every operation starts from an arbitrary well-formed grid, so contracts compose over nestings")
_IN_ALLOC = " [harness precondition: pointers formed for EMPTY edge parts / zero-width rows stay <= one-past-the-end, see DESIGN 2.2 / obs_ptr_add_leaves_allocation]"
_MS_ACC = ["MutableSubgrid::try_get_ref", "MutableSubgrid::get_ref", "MutableSubgrid::get", "MutableSubgrid::try_get_row",
           "MutableSubgrid::try_get_mut", "MutableSubgrid::try_get_row_mut", "MutableSubgrid::get_ptr_unchecked"]
_ACC_C = ("; the result has exactly the specified (ptr, width, height, stride); its accessors (try_get_ref/get/try_get_row/try_get_mut/try_get_row_mut) at a symbolic (x, y): "
          "Some iff inside, address == base + off + y*stride + x < len, CBMC pointer checks on the dereference, a write changes exactly that buffer element (observed at a symbolic index)")
def _ms(id, harness, fns, contract, kind, **kw):
    K("gr.ms." + id, ["C02"], "jxl-grid", GR_MS, GR_MSM, harness, kind, fns, contract, **kw)
_GUARD = (" -- guard proof: the documented assertion in the real code is expected to fail for bad arguments (not attributable to C02), "
          "the tagged postcondition 'returned => arguments were in range' must hold")
# (suffix, tier, bound, timeout)
# the thorough-tier instantiations (48 elements / 6-bit values, i16 and f32: ms_*_i16 / ms_*_f32 / *_t in the harness modules) exist but were NOT measured
# in the time available, so they are not registered (lemma_sub / lemma_merge at that size took 593 s / 325 s when measured alone)
_MS_VARIANTS = [("q", "quick", _QB, 300)]
for _sfx, _tier, _b, _to in _MS_VARIANTS:
    _k = _sg_bound(_b); _kw = dict(tier=_tier, timeout=_to)
    _ms("from_buf_" + _sfx, "ms_from_buf_" + _sfx, ["MutableSubgrid::from_buf", "MutableSubgrid::new", "MutableSubgrid::empty"] + _MS_ACC,
        "requires width <= stride, (w == 0 || h == 0) ? len == 0 : stride*(h-1)+w <= len (stride: all of usize for one-row grids); ensures geometry (0, w, h, stride) inside the buffer, split_base None"
        + _ACC_C + _IN_ALLOC, _k, **_kw)
    _ms("subgrid_" + _sfx, "ms_subgrid_" + _sfx, ["MutableSubgrid::subgrid"] + _MS_ACC,
        "requires left <= right <= width, top <= bottom <= height for all 9 Bound combinations per axis; ensures result == sub-rectangle (left, top, right-left, bottom-top) of lemma_sub"
        + _ACC_C + _IN_ALLOC, _k, **_kw)
    for _d, _D in [("h", "horizontal"), ("v", "vertical")]:
        _ms("split_%s_%s" % (_d, _sfx), "ms_split_%s_%s" % (_d, _sfx), ["MutableSubgrid::split_" + _D] + _MS_ACC,
            "requires at <= width/height; ensures the two parts are exactly the rectangles of lemma_split_partition (inside the parent, disjoint, covering), share the split base"
            + _ACC_C + _IN_ALLOC, _k, **_kw)
        _ms("split_%s_in_place_%s" % (_d, _sfx), "ms_split_%s_in_place_%s" % (_d, _sfx), ["MutableSubgrid::split_%s_in_place" % _D] + _MS_ACC,
            "same contract; self becomes the first part" + _ACC_C + _IN_ALLOC, _k, **_kw)
        _ms("merge_%s_%s" % (_d, _sfx), "ms_merge_%s_%s" % (_d, _sfx), ["MutableSubgrid::merge_%s_in_place" % _D, "MutableSubgrid::split_%s_in_place" % _D] + _MS_ACC,
            "merge(split_in_place(g, at)) == g for every at (merge never rejects a genuine split)" + _ACC_C + _IN_ALLOC, _k, **_kw)
    _ms("swap_" + _sfx, "ms_swap_" + _sfx, ["MutableSubgrid::swap", "MutableSubgrid::get_ptr"],
        "requires both coordinates inside; ensures exactly the two mapped buffer elements are exchanged (same cell: no-op), nothing else changes", _k, **_kw)
    _ms("reborrow_" + _sfx, "ms_reborrow_" + _sfx, ["MutableSubgrid::borrow_mut", "MutableSubgrid::as_shared", "SharedSubgrid::new"] + _MS_ACC,
        "borrow_mut / as_shared view exactly the same elements (geometry preserved)" + _ACC_C, _k, **_kw)
for _sfx, _tier, _b, _to in [("q", "quick", _QB, 300)]:
    _kw = dict(tier=_tier, timeout=_to)
    _ms("into_i32_" + _sfx, "ms_into_i32_" + _sfx, ["MutableSubgrid::into_i32"] + _MS_ACC, "same geometry, same elements reinterpreted bit for bit" + _ACC_C, _sg_bound(_b), **_kw)
    _ms("as_vectored_" + _sfx, "ms_as_vectored_" + _sfx, ["MutableSubgrid::as_vectored", "SimdVector::available (__m128)"] + _MS_ACC,
        "Some iff origin 16-byte aligned and width, stride multiples of 4; vector (x, y) starts at f32 element (4x, y), all 4 lanes inside the buffer (lemma_vectored); "
        "16-byte reads/writes of __m128 elements under CBMC pointer checks (plain pointer cast, no intrinsics)", _sg_bound(_b), **_kw)
    _lem = "bounded:" + _b + " -- pure arithmetic lemma over the abstract geometry (no code under test), stride enumerated concretely"
    _ms("lemma_sub_" + _sfx, "lemma_sub_" + _sfx, [], "sub-rectangle (x0, y0, w, h) of a well-formed grid: well-formed if non-empty; element (x, y) == parent element (x0+x, y0+y), inside the parent and the buffer", _lem, **_kw)
    _ms("lemma_injective_" + _sfx, "lemma_injective_" + _sfx, [], "distinct coordinates of a well-formed grid are distinct buffer elements (=> coordinate-disjoint parts are memory-disjoint)", _lem, **_kw)
    _ms("lemma_merge_" + _sfx, "lemma_merge_" + _sfx, [], "adjacent well-formed grids (merge's accepted condition) give a well-formed grid that is exactly their union", _lem, **_kw)
    _ms("lemma_vectored_" + _sfx, "lemma_vectored_" + _sfx, [], "aligned origin, width and stride multiples of 4 => vector grid well-formed; vector (x, y) == f32 elements (4x..4x+3, y), all inside the buffer", _lem, **_kw)
    _ms("lemma_split_partition_" + _sfx, "lemma_split_partition_" + _sfx, [], "the two split rectangles are sub-rectangles of the parent and every parent coordinate is in exactly one", _lem)
    _ms("lemma_groups_partition_" + _sfx, "lemma_groups_partition_" + _sfx, [], "group rectangles are sub-rectangles, pairwise coordinate-disjoint; (px, py) lies in group (px/gw, py/gh); ceil(w/gw) x ceil(h/gh) groups cover", _lem)
_gk = "bounded:" + _QB + _GUARD
_ms("from_buf_rejects", "ms_from_buf_rejects", ["MutableSubgrid::from_buf"], "from_buf returns only if width <= stride and the area lies inside the buffer", _gk)
_ms("subgrid_rejects", "ms_subgrid_rejects", ["MutableSubgrid::subgrid"], "subgrid returns only for ranges inside the grid", _gk)
_ms("split_rejects", "ms_split_rejects", ["MutableSubgrid::split_horizontal", "MutableSubgrid::split_horizontal_in_place",
    "MutableSubgrid::split_vertical", "MutableSubgrid::split_vertical_in_place"], "split_* return only for at <= width/height", _gk)
_ms("groups_rejects_w", "ms_groups_rejects_w", ["MutableSubgrid::into_groups"], "into_groups(0, 3) never returns (no division by zero)", _gk)
_ms("groups_rejects_h", "ms_groups_rejects_h", ["MutableSubgrid::into_groups"], "into_groups(2, 0) never returns (no division by zero)", _gk)
_GF_C = ("any symbolic group size (incl. 0 and larger than the grid): exactly COLS*ROWS groups row-first; group (gx, gy) is exactly the rectangle "
         "(min(gx*gw, w), min(gy*gh, h), min(gw, rest), min(gh, rest)) of lemma_groups_partition: inside the parent, pairwise disjoint; out-of-range groups empty; all share the split base")
for _h, _tier, _b in [("2x2_q", "quick", _QB), ("3x2_q", "quick", _QB), ("1x3_q", "quick", _QB)]:
    _ms("groups_fixed_" + _h, "ms_groups_fixed_" + _h, ["MutableSubgrid::into_groups_with_fixed_count"] + _MS_ACC, _GF_C + _ACC_C + _IN_ALLOC,
        _sg_bound(_b, "; CONCRETE group count " + _h.split("_")[0] + " (cols x rows): a symbolic count exhausts CBMC's memory in Vec"), tier=_tier, timeout=300 if _tier == "quick" else 1200)
for _h, _tier, _b in [("5x3_by_2x2_q", "quick", _QB), ("3x2_by_8x8_q", "quick", _QB), ("4x3_by_1x2_q", "quick", _QB), ("0x3_by_2x2_q", "quick", _QB)]:
    _ms("groups_" + _h, "ms_groups_" + _h, ["MutableSubgrid::into_groups", "MutableSubgrid::into_groups_with_fixed_count"] + _MS_ACC,
        "ceil(w/gw) x ceil(h/gh) groups row-first, group (gx, gy) is exactly the rectangle (gx*gw, gy*gh, min(gw, rest), min(gh, rest)): inside the parent, disjoint, covering (lemma_groups_partition)"
        + _ACC_C, _sg_bound(_b, "; CONCRETE width x height and group size " + _h.rsplit("_", 1)[0] + " (into_groups divides by the group size: a symbolic 64-bit divisor does not close); symbolic origin, stride, buffer length, contents"),
        tier=_tier, timeout=300 if _tier == "quick" else 1200)
_ms("swap_rejects", "ms_swap_rejects", ["MutableSubgrid::swap"], "swap returns only for coordinates inside the grid", _gk)
for _d, _D, _c in [("h", "horizontal", "same stride, same height, right.ptr == self(width, 0), widths fit the stride"), ("v", "vertical", "same stride, same width, bottom.ptr == self(0, height)")]:
    _ms("merge_%s_guard" % _d, "ms_merge_%s_guard" % _d, ["MutableSubgrid::merge_%s_in_place" % _D] + _MS_ACC,
        "for ANY two well-formed grids and split bases: merge returns only if " + _c + "; then the merged grid is exactly the union of lemma_merge" + _ACC_C, _gk)

# ---- SharedSubgrid (C02) ----
_SS_ACC = ["SharedSubgrid::try_get_ref", "SharedSubgrid::get_ref", "SharedSubgrid::get", "SharedSubgrid::try_get_row", "SharedSubgrid::get_row", "SharedSubgrid::get_ptr_unchecked"]
_SS_ACC_C = ("; the result has exactly the specified (ptr, width, height, stride); its accessors (try_get_ref/get_ref/get/try_get_row/get_row) at a symbolic (x, y): Some iff inside, "
             "address == base + off + y*stride + x < len, value == that buffer element, CBMC pointer checks on the dereference")
def _ss(id, harness, fns, contract, kind, **kw):
    K("gr.ss." + id, ["C02"], "jxl-grid", GR_SS, GR_SSM, harness, kind, fns, contract, **kw)
for _sfx, _tier, _b, _to in _MS_VARIANTS:
    _k = _sg_bound(_b); _kw = dict(tier=_tier, timeout=_to)
    _ss("from_buf_" + _sfx, "ss_from_buf_" + _sfx, ["SharedSubgrid::from_buf", "SharedSubgrid::new"] + _SS_ACC,
        "requires width, height > 0, width <= stride, stride*(h-1)+w <= len (stride: all of usize for one-row grids); ensures geometry (0, w, h, stride) inside the buffer" + _SS_ACC_C, _k, **_kw)
    _ss("subgrid_" + _sfx, "ss_subgrid_" + _sfx, ["SharedSubgrid::subgrid"] + _SS_ACC,
        "requires left <= right <= width, top <= bottom <= height, all Bound combinations; ensures result == sub-rectangle (left, top, right-left, bottom-top) (gr.ms.lemma_sub: inside the parent)"
        + _SS_ACC_C + _IN_ALLOC, _k, **_kw)
    for _d, _D in [("h", "horizontal"), ("v", "vertical")]:
        _ss("split_%s_%s" % (_d, _sfx), "ss_split_%s_%s" % (_d, _sfx), ["SharedSubgrid::split_" + _D] + _SS_ACC,
            "requires at <= width/height; ensures the two parts are exactly the rectangles of gr.ms.lemma_split_partition (inside the parent, covering it)" + _SS_ACC_C + _IN_ALLOC, _k, **_kw)
for _sfx, _tier, _b, _to in [("q", "quick", _QB, 300)]:
    _kw = dict(tier=_tier, timeout=_to)
    _ss("as_i32_" + _sfx, "ss_as_i32_" + _sfx, ["SharedSubgrid::as_i32"] + _SS_ACC, "same geometry, same elements reinterpreted bit for bit", _sg_bound(_b), **_kw)
    _ss("as_vectored_" + _sfx, "ss_as_vectored_" + _sfx, ["SharedSubgrid::as_vectored", "SimdVector::available (__m128)"] + _SS_ACC,
        "Some iff origin 16-byte aligned and width, stride multiples of 4; vector (x, y) starts at f32 element (4x, y), all 4 lanes inside the buffer (gr.ms.lemma_vectored); "
        "16-byte reads of __m128 elements under CBMC pointer checks (plain pointer cast, no intrinsics)", _sg_bound(_b), **_kw)
_ss("from_buf_rejects", "ss_from_buf_rejects", ["SharedSubgrid::from_buf"], "from_buf returns only for width, height > 0, width <= stride and an area inside the buffer", _gk)
_ss("subgrid_rejects", "ss_subgrid_rejects", ["SharedSubgrid::subgrid"], "subgrid returns only for ranges inside the grid", _gk)
_ss("split_rejects", "ss_split_rejects", ["SharedSubgrid::split_horizontal", "SharedSubgrid::split_vertical"], "split_* return only for at <= width/height", _gk)

# ---- AlignedGrid: owner of tracked memory (C13) and index arithmetic (C02) ----
def _ag_b(d):
    return ("bounded:" + ("width, height <= 3 symbolic" if d == "sym" else "CONCRETE dimensions " + d + " (a Vec of symbolic length exhausts CBMC's memory in try_clone / the accessors)")
            + "; the buffer is really allocated; complete over the budget (all of usize), coordinates and sample values")
_AG_C = ("bytes = (width*height + 31/size_of::<S>()) * size_of::<S>() (= the Vec's capacity in bytes); Ok => exactly bytes taken from the tracker by one handle held by the grid, "
         "given back exactly when the grid is dropped; Err(e) => budget unchanged, budget < bytes, e.bytes() == bytes; budget observed through shrink_limit probes (public API)")
for _t, _d, _tier in [("i16", "2x3", "quick"), ("i32", "3x1", "quick"), ("i32", "0x2", "quick"), ("i16", "sym", "thorough"), ("i32", "sym", "thorough")]:
    K("gr.ag.with_tracker_%s_%s" % (_t, _d), ["C13", "C01"], "jxl-grid", GR_LIB, GR_LIBM, "ag_with_tracker_%s_%s" % (_t, _d), _ag_b(_d),
      ["AlignedGrid::with_alloc_tracker", "AllocTracker::alloc", "AllocHandle::drop"], _AG_C + " [S = %s]" % _t, tier=_tier, timeout=300 if _tier == "quick" else 1200)
for _t, _d in [("i16", "2x2"), ("i32", "0x2")]:  # 3x1 (i32) did not close in 300 s -> not registered
    K("gr.ag.try_clone_%s_%s" % (_t, _d), ["C13", "C01"], "jxl-grid", GR_LIB, GR_LIBM, "ag_try_clone_%s_%s" % (_t, _d), _ag_b(_d),
      ["AlignedGrid::try_clone", "AlignedGrid::empty_aligned", "AlignedGrid::clone_untracked", "AlignedGrid::tracker", "AllocHandle::tracker"],
      "clone of a tracked grid: " + _AG_C + "; same samples; clone_untracked records nothing; a failed clone leaves the source's accounting intact [S = %s]" % _t)
for _t, _d in [("i16", "3x2"), ("i32", "2x2"), ("i32", "0x2")]:
    K("gr.ag.accessors_%s_%s" % (_t, _d), ["C02"], "jxl-grid", GR_LIB, GR_LIBM, "ag_accessors_%s_%s" % (_t, _d), _ag_b(_d),
      ["AlignedGrid::try_get_ref", "AlignedGrid::try_get_mut", "AlignedGrid::get", "AlignedGrid::get_ref", "AlignedGrid::get_mut", "AlignedGrid::try_get_row",
       "AlignedGrid::try_get_row_mut", "AlignedGrid::get_row", "AlignedGrid::get_row_mut", "AlignedGrid::buf", "AlignedGrid::buf_mut", "AlignedGrid::as_subgrid", "AlignedGrid::as_subgrid_mut",
       "MutableSubgrid::from(&mut AlignedGrid)", "SharedSubgrid::from(&AlignedGrid)"],
      "Some iff inside; sample (x, y) is buf()[y*width + x] (offset-adjusted, 32-byte aligned origin); rows are buf()[y*width..][..width]; as_subgrid(_mut) view the same samples with stride == width "
      "(as_subgrid only for non-zero dimensions: SharedSubgrid::from_buf refuses them)")
# clone_untracked of a tracked grid (harness ag_clone_untracked_i16_2x2) exhausts CBMC memory (> 14 GB): not registered; covered only for untracked sources in gr.ag.without_tracker_*
for _d, _tier in [("2x2", "quick"), ("sym", "thorough")]:
    K("gr.ag.without_tracker_" + _d, ["C13", "C01"], "jxl-grid", GR_LIB, GR_LIBM, "ag_without_tracker_i16_" + _d, _ag_b(_d),
      ["AlignedGrid::with_alloc_tracker", "AlignedGrid::try_clone", "AlignedGrid::empty"], "no tracker: never refused, no handle; clones of untracked grids are untracked and cannot fail",
      tier=_tier, timeout=300 if _tier == "quick" else 1200)

# arithmetic overflow inside the raw-pointer subgrid geometry counts as a C02 failure (it wraps in optimised builds and the
# wrapped sizes/offsets feed pointer arithmetic); the documented API asserts (`assert!(x <= self.width)` ...) still do not
for _o in OBLIGATIONS:
    if _o["id"].startswith(("gr.ms.", "gr.ss.", "gr.ag.accessors")):
        _o["c02_overflow"] = True
