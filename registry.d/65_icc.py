# ICC decompression kernels (orchestrator-written)
_D = "crates/jxl-color/src/icc/decode.rs"; _DM = "kani/jxl-color/decode.rs"
CANARIES["jxl-color"] = dict(anchor=_D, module=_DM, harness="canary", kind="complete", fns=[], timeout=60)
K("icc.ctx", ["C18", "C01"], "jxl-color", _D, _DM, "icc_ctx_contract", "complete", ["get_icc_ctx"],
  "for all (idx, b1, b2): result == IccContext of the standard, < 41")
K("icc.predict_header", ["C18", "C01"], "jxl-color", _D, _DM, "icc_predict_header_contract", "complete", ["predict_header"],
  "for all idx < len <= 128, all sizes and header bytes: result == the standard's header prediction table; no out-of-bounds read")
K("icc.varint", ["C18", "C01"], "jxl-color", _D, _DM, "icc_varint_contract", "bounded:stream <= 10 bytes (longest varint is 9)", ["varint"],
  "value == base-128 little-endian, position advanced by exactly the bytes used, Err iff the stream ends inside the value")
K("icc.shuffle2_bounded", ["C18"], "jxl-color", _D, _DM, "icc_shuffle2_bounded", "bounded:length <= 8", ["shuffle2"],
  "bounded companion of the Verus row: output == column-wise read of the 2-row matrix (independent formulation); yields concrete inputs")
K("icc.shuffle4_bounded", ["C18"], "jxl-color", _D, _DM, "icc_shuffle4_bounded", "bounded:length <= 13", ["shuffle4"],
  "bounded companion of the Verus row: output == column-wise read of the 4-row matrix (independent formulation); yields concrete inputs")
# (icc.decode_total_small -- totality of decode_icc on a fully symbolic 10-byte stream -- exceeds 14 GB in CBMC and was removed;
#  decode_icc is covered per command shape by registry.d/66_icc_commands.py.)
