# C11: end-of-data classification across all error types (orchestrator-written)
_E = "crates/jxl-render/src/error.rs"; _EM = "kani/jxl-render/error.rs"
_fns = ["jxl_render::Error::unexpected_eof", "jxl_frame::Error::unexpected_eof", "jxl_modular::Error::unexpected_eof",
        "jxl_vardct::Error::unexpected_eof", "jxl_coding::Error::unexpected_eof", "jxl_color::Error::unexpected_eof",
        "jxl_bitstream::Error::unexpected_eof"]
for _h, _t in [("eof_via_bitstream", "render<-bitstream"), ("eof_via_decoder", "render<-coding"), ("eof_via_modular", "render<-modular"),
               ("eof_via_frame", "render<-frame<-{bitstream,coding,modular,vardct}"), ("eof_via_color", "render<-color"),
               ("eof_other_variants", "non-wrapper variants")]:
    K("eof." + _h, ["C11"], "jxl-render", _E, _EM, _h, "complete", _fns,
      "for every wrapper chain %s and every leaf: unexpected_eof() <=> the leaf is Io(UnexpectedEof)" % _t, timeout=600)
