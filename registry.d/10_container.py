# JPEG XL container parser (ISO/IEC 18181-2): crates/jxl-bitstream/src/container{.rs,/parse.rs,/box_header.rs}
BH = "crates/jxl-bitstream/src/container/box_header.rs"
BHM = "kani/jxl-bitstream/box_header.rs"
PA = "crates/jxl-bitstream/src/container/parse.rs"
PAM = "kani/jxl-bitstream/parse.rs"

K("ct.box_header", ["C10", "C09", "C01"], "jxl-bitstream", BH, BHM, "box_header_contract", "complete",
  ["ContainerBoxHeader::parse", "ContainerBoxHeader::box_type", "ContainerBoxHeader::box_size", "ContainerBoxHeader::is_last"],
  "for all byte values and all buffer lengths 0..=18 (every 16-byte prefix + 2 trailing bytes): parse == spec_box_header "
  "(18181-2 9.1 / ISOBMFF: u32 size + 4-byte type; size==1 -> u64 largesize, 16-byte header; size==0 -> to end of file, is_last); "
  "NeedMoreData iff the buffer is shorter than the header needs; InvalidBox iff the declared size is smaller than the header; "
  "payload = size - header; accessors return the fields; no panic")
K("ct.box_header_prefix", ["C09", "C10"], "jxl-bitstream", BH, BHM, "box_header_prefix_lemma", "complete",
  ["ContainerBoxHeader::parse"],
  "relational, all buffers of 0..=18 bytes and every cut: parse(prefix) is NeedMoreData or equals parse(whole)")
K("ct.box_types", ["C10"], "jxl-bitstream", BH, BHM, "box_type_codes", "complete", ["ContainerBoxType"],
  "the associated consts are the four-character codes of 18181-2; equality is bytewise")
