# JPEG XL container parser (ISO/IEC 18181-2): crates/jxl-bitstream/src/container{.rs,/parse.rs,/box_header.rs}
BH = "crates/jxl-bitstream/src/container/box_header.rs"
BHM = "kani/jxl-bitstream/box_header.rs"
PA = "crates/jxl-bitstream/src/container/parse.rs"
PAM = "kani/jxl-bitstream/parse.rs"

K("ct.box_header", ["C10", "C09", "C01"], "jxl-bitstream", BH, BHM, "box_header_contract", "complete",
  ["ContainerBoxHeader::parse", "ContainerBoxHeader::box_type", "ContainerBoxHeader::box_size", "ContainerBoxHeader::is_last"],
  "for all byte values and all buffer lengths 0..=18 (every 16-byte prefix + 2 trailing bytes): parse == spec_box_header "
  "(18181-2 9.1 / ISOBMFF: u32 size + 4-byte type; size==1 -> u64 largesize, 16-byte header; size==0 -> to end of file, is_last); "
  "NeedMoreData iff the buffer is shorter than the header needs; InvalidBox iff the declared size is smaller than the header; "
  "payload = size - header; accessors return the fields; no panic")
K("ct.box_header_prefix", ["C09", "C10"], "jxl-bitstream", BH, BHM, "box_header_prefix_lemma", "complete",
  ["ContainerBoxHeader::parse"],
  "relational, all buffers of 0..=18 bytes and every cut: parse(prefix) is NeedMoreData or equals parse(whole)")
K("ct.box_types", ["C10"], "jxl-bitstream", BH, BHM, "box_type_codes", "complete", ["ContainerBoxType"],
  "the associated consts are the four-character codes of 18181-2; equality is bytewise")

_STEP = ("requires Inv(DetectState, JxlpIndexState) [derived from emit_single: WaitingSignature => Initial; WaitingJxlpIndex => header is jxlp with "
         "payload None or >= 4 and Jxlp(i <= 2^31); elsewhere Jxlp(i < 2^31); InAuxBox => type not jxlc/jxlp, bytes_left <= box size, "
         "brob with unread type => bytes_left == size >= 4, brob with read type => type not reserved and bytes_left <= size-4; "
         "InCodestream bare/invalid => unbounded and Initial, container => not Initial, pending => unbounded], any remaining buffer <= 24 bytes, "
         "any previous_consumed_bytes; ensures no panic, result/event/payload range/consumption/next state == spec_step (18181-2 section 9 + C10 text), "
         "previous_consumed_bytes exact, remaining_input is the unread tail, Err => iterator finished, Inv re-established")
for _h, _ph in [("step_signature", "WaitingSignature"), ("step_box_header", "WaitingBoxHeader"), ("step_jxlp_index", "WaitingJxlpIndex"),
                ("step_aux_box", "InAuxBox"), ("step_codestream", "InCodestream")]:
    K("ct." + _h, ["C10", "C01", "C09"], "jxl-bitstream", PA, PAM, _h,
      "bounded:one remaining feed buffer <= 24 bytes (all Inv states in phase %s, all byte values); unbounded over histories by induction on Inv" % _ph,
      ["ParseEvents::next", "ParseEvents::emit_single", "ContainerBoxHeader::parse"], _STEP, timeout=300)
K("ct.init", ["C10", "C01", "C09"], "jxl-bitstream", PA, PAM, "init_establishes_inv", "complete",
  ["ContainerParser::new", "ContainerParser::kind", "ContainerParser::feed_bytes", "ParseEvents::new", "ContainerParser::previous_consumed_bytes"],
  "new() satisfies Inv (base case); kind() reflects the state; feed_bytes offers the whole buffer and resets only previous_consumed_bytes")
