# JPEG XL container parser (ISO/IEC 18181-2): crates/jxl-bitstream/src/container{.rs,/parse.rs,/box_header.rs}
BH = "crates/jxl-bitstream/src/container/box_header.rs"
BHM = "kani/jxl-bitstream/box_header.rs"
PA = "crates/jxl-bitstream/src/container/parse.rs"
PAM = "kani/jxl-bitstream/parse.rs"

K("ct.box_header", ["C10", "C09", "C01"], "jxl-bitstream", BH, BHM, "box_header_contract", "complete",
  ["ContainerBoxHeader::parse", "ContainerBoxHeader::box_type", "ContainerBoxHeader::box_size", "ContainerBoxHeader::is_last"],
  "for all byte values and all buffer lengths 0..=18 (every 16-byte prefix + 2 trailing bytes; parse inspects at most 16 bytes): parse == spec_box_header "
  "(18181-2 9.1 / ISOBMFF: u32 size + 4-byte type; size==1 -> u64 largesize, 16-byte header; size==0 -> to end of file, is_last); "
  "NeedMoreData iff the buffer is shorter than the header needs; InvalidBox iff the declared size is smaller than the header; "
  "payload = size - header; accessors return the fields; no panic")
K("ct.box_header_prefix", ["C09", "C10"], "jxl-bitstream", BH, BHM, "box_header_prefix_lemma", "complete",
  ["ContainerBoxHeader::parse"],
  "relational, all buffers of 0..=18 bytes and every cut: parse(prefix) is NeedMoreData or equals parse(whole)")
K("ct.box_types", ["C10"], "jxl-bitstream", BH, BHM, "box_type_codes", "complete", ["ContainerBoxType"],
  "the associated consts are the four-character codes of 18181-2; equality is bytewise")

_INV = ("Inv(DetectState, JxlpIndexState) [derived from emit_single: WaitingSignature => Initial; WaitingJxlpIndex => header is jxlp with "
        "payload None or >= 4 and Jxlp(i <= 2^31); elsewhere Jxlp(i < 2^31); InAuxBox => type not jxlc/jxlp, bytes_left <= box size, "
        "brob with unread type => bytes_left == size >= 4, brob with read type => type not reserved and bytes_left <= size-4; "
        "InCodestream bare/invalid => unbounded and Initial, container => not Initial, pending => unbounded]")
_STEP = ("requires " + _INV + ", any remaining buffer, any previous_consumed_bytes, iterator finished or not; ensures no panic "
         "(unreachable!, `as usize - 4`, `bytes_left -= 4`, `index += 1` sites), result/event/payload range/consumption/next state == spec_step "
         "(18181-2 section 9 + C10 text: kind detection, NoMoreAuxBox, AuxBoxStart/Data/End, Codestream; payload = next min(bytes_left, available) bytes "
         "of the input by pointer identity; rejection of duplicate jxlc, jxlc after jxlp, out-of-order / post-final jxlp, jxlp < 4, brob < 4, brob of jxl*/brob/jbrd, "
         "undersized box), previous_consumed_bytes exact, remaining_input is the unread tail, Err => iterator finished, Inv re-established (also after InvalidBox)")
_FNS = ["ParseEvents::next", "ParseEvents::emit_single", "ContainerBoxHeader::parse"]
_B = "bounded:one remaining feed buffer <= 24 bytes (all Inv states in phase %s, all byte values); unbounded over feed histories by induction on Inv"
K("ct.init", ["C10", "C01", "C09"], "jxl-bitstream", PA, PAM, "init_establishes_inv", "complete",
  ["ContainerParser::new", "ContainerParser::kind", "ContainerParser::feed_bytes", "ParseEvents::new", "ContainerParser::previous_consumed_bytes"],
  "new() satisfies Inv (base case of the induction); kind() reflects the state; feed_bytes offers the whole buffer and resets only previous_consumed_bytes")
K("ct.step_signature", ["C10", "C01", "C09"], "jxl-bitstream", PA, PAM, "step_signature", _B % "WaitingSignature", _FNS, _STEP)
K("ct.step_jxlp_index", ["C10", "C01", "C09"], "jxl-bitstream", PA, PAM, "step_jxlp_index", _B % "WaitingJxlpIndex", _FNS, _STEP)
K("ct.step_codestream", ["C10", "C01", "C09"], "jxl-bitstream", PA, PAM, "step_codestream", _B % "InCodestream", _FNS, _STEP)
K("ct.step_aux_plain", ["C10", "C01", "C09"], "jxl-bitstream", PA, PAM, "step_aux_box_plain", _B % "InAuxBox, box type != brob", _FNS, _STEP)
K("ct.step_aux_4", ["C10", "C01", "C09"], "jxl-bitstream", PA, PAM, "step_aux_box_4",
  "bounded:remaining feed buffer of exactly 4 bytes (all Inv states in phase InAuxBox incl. brob with read/unread type, all byte values)", _FNS, _STEP)
# the two general harnesses: CBMC cannot constant-fold DetectState's niche-encoded discriminant, so each of the 5 unrolled
# iterations of emit_single explores every arm: 3-7 min each (measured 404 s / 440 s on a loaded box) -> thorough.
# Quick-tier stand-ins: ct.step_aux_plain + ct.step_aux_4 for InAuxBox; none for WaitingBoxHeader (no cheaper case split exists).
K("ct.step_box_header", ["C10", "C01", "C09"], "jxl-bitstream", PA, PAM, "step_box_header", _B % "WaitingBoxHeader", _FNS, _STEP,
  tier="thorough", timeout=1200)
K("ct.step_aux_box", ["C10", "C01", "C09"], "jxl-bitstream", PA, PAM, "step_aux_box", _B % "InAuxBox (all types incl. brob)", _FNS, _STEP,
  tier="thorough", timeout=1200)
K("ct.err_then_refeed", ["C01"], "jxl-bitstream", PA, PAM, "err_then_refeed",
  "bounded:two feeds of exactly 4 bytes each (all Inv states in phase InAuxBox)", ["ParseEvents::next", "ParseEvents::emit_single", "ContainerParser::feed_bytes"],
  "after a feed returned Err(ValidationFailed) for a brob box of a reserved type, Inv still holds and a further feed_bytes does not panic "
  "(the other rejections keep Inv: asserted in the step contracts)")

_PFX = ("relational, on spec_step (== ParseEvents::next by the ct.step_* contracts): for S in Inv, buffer B, prefix P = B[..k]: step(S,P) quiet => "
        "continuing on B[consumed..] equals step(S,B) shifted; reject => same reject; non-payload event => identical; payload event => same event "
        "possibly longer on B, and the next feed delivers exactly the missing bytes, same final state and total consumption. "
        "Induction on the steps of the single feed gives chunking independence for feeds of any length and any number of cuts")
for _h, _ph in [("prefix_step_signature", "WaitingSignature"), ("prefix_step_box_header", "WaitingBoxHeader"), ("prefix_step_jxlp_index", "WaitingJxlpIndex"),
                ("prefix_step_aux_box", "InAuxBox"), ("prefix_step_codestream", "InCodestream")]:
    K("ct." + _h, ["C09", "C10"], "jxl-bitstream", PA, PAM, _h,
      "bounded:buffer <= 24 bytes, every cut (all Inv states in phase %s); specification-level, linked to the code by ct.step_*" % _ph,
      ["ParseEvents::next (through spec_step)"], _PFX)

# promoted to the quick tier by the orchestrator: each guards a seeded defect class and runs in < 200 s
for _o in OBLIGATIONS:
    if _o["id"] in ['ct.step_box_header']:
        _o["tier"] = "quick"
