# Region algebra (jxl-render/region.rs), padding rules (jxl-render/util.rs), orientation maps and sample conversion
# (jxl-oxide/fb.rs, jxl-image/lib.rs).  ids: rg.* / fb.* / im.*
RG = "crates/jxl-render/src/region.rs"; RGM = "kani/jxl-render/region.rs"
RU = "crates/jxl-render/src/util.rs"; RUM = "kani/jxl-render/util.rs"
FB = "crates/jxl-oxide/src/fb.rs"; FBM = "kani/jxl-oxide/fb.rs"
IM = "crates/jxl-image/src/lib.rs"; IMM = "kani/jxl-image/lib.rs"
CANARIES["jxl-render"] = dict(anchor=RG, module=RGM, harness="canary", kind="complete", fns=[], timeout=60)

# ---- region.rs: every method against set semantics, loop-free => complete ---------------------------------------
_RG_SET = ("abstract view pts(r) = {(x,y) | left <= x < left+width, top <= y < top+height} in mathematical integers; "
           "membership of ONE symbolic point is checked, i.e. the statement holds for all points. ")
K("rg.basic", ["C06", "C05", "C01"], "jxl-render", RG, RGM, "basic_contract", "complete",
  ["Region::empty", "Region::with_size", "Region::is_empty", "Region::right", "Region::bottom"],
  _RG_SET + "no precondition (all i32/u32): empty() has no points; with_size(w,h) = [0,w)x[0,h); is_empty <=> no point; "
  "right()/bottom() = left+width / top+height saturated at i32::MAX")
K("rg.total", ["C01", "C06", "C05"], "jxl-render", RG, RGM, "total_contract", "complete",
  ["Region::contains", "Region::intersection", "Region::merge"],
  "no precondition (any two regions, e.g. a user supplied crop with arbitrary u32 fields): no panic; intersection is a subset of both operands")
K("rg.contains", ["C06", "C05"], "jxl-render", RG, RGM, "contains_contract", "complete", ["Region::contains"],
  _RG_SET + "requires right/bottom edges of both regions representable as i32; ensures contains(b) <=> pts(b) subset of pts(self) "
  "(true: symbolic point; false: a corner point of b is a witness)")
K("rg.translate", ["C06", "C05", "C01"], "jxl-render", RG, RGM, "translate_contract", "complete", ["Region::translate"],
  _RG_SET + "requires left+dx, top+dy representable (call sites: +-x0/y0 of a frame header); ensures p in result <=> p-(dx,dy) in self, size kept")
K("rg.intersection", ["C06", "C05", "C01"], "jxl-render", RG, RGM, "intersection_contract", "complete", ["Region::intersection"],
  _RG_SET + "requires edges representable; ensures p in a.intersection(b) <=> p in a and p in b; result edges representable; commutative")
K("rg.merge", ["C06", "C05", "C01"], "jxl-render", RG, RGM, "merge_contract", "complete", ["Region::merge"],
  _RG_SET + "requires edges representable; ensures superset of both, identity on an empty operand, and every edge of the result is "
  "the extreme edge of an operand (least covering rectangle)")
K("rg.pad", ["C06", "C01"], "jxl-render", RG, RGM, "pad_contract", "complete", ["Region::pad"],
  _RG_SET + "requires left-size >= i32::MIN and width+2*size <= u32::MAX (no saturation / overflow; sizes at call sites <= 48); "
  "ensures all four edges move outwards by exactly size (a forgotten side or a one-sided pad is a violation)")
K("rg.downsample", ["C06", "C01"], "jxl-render", RG, RGM, "downsample_contract", "complete", ["Region::downsample"],
  _RG_SET + "for ALL factors 0..31 and all regions with width+2*(2^f-1) <= u32::MAX: result = [floor(left/2^f), ceil(right/2^f)) per axis, "
  "covers p>>f for every p in self, and its first/last column and row are images of points of self (least covering region)")
K("rg.downsample_separate", ["C06", "C01"], "jxl-render", RG, RGM, "downsample_separate_contract", "complete",
  ["Region::downsample_separate"], "same contract with independent factors per axis (incl. one factor 0)")
K("rg.downsample_with_shift", ["C06", "C01"], "jxl-render", RG, RGM, "downsample_with_shift_contract", "complete",
  ["Region::downsample_with_shift", "ChannelShift::shift_size", "ChannelShift::from_jpeg_upsampling"],
  "requires origin aligned to the shift, size <= 2^30+2^13, shifts <= 12 (Shifts / Raw) or any of the 4^3*3 JPEG upsampling modes; "
  "ensures covers p>>shift for every p of self; for Shifts/Raw it is the least covering region")
K("rg.upsample", ["C06", "C01"], "jxl-render", RG, RGM, "upsample_contract", "complete",
  ["Region::upsample", "Region::upsample_separate"],
  _RG_SET + "requires factors < 32 and no bit shifted out of left/top/width/height; ensures p in upsample(f) <=> (p>>f) in self "
  "(exact preimage), all four edges scaled by 2^f")
K("rg.up_down", ["C06"], "jxl-render", RG, RGM, "up_down_contract", "complete", ["Region::downsample", "Region::upsample"],
  "downsample(f).upsample(f) (f <= 12, |origin| <= 2^30, size <= 2^30+2^13) is the least 2^f-aligned superset")
K("rg.container_aligned", ["C06", "C01"], "jxl-render", RG, RGM, "container_aligned_contract", "complete",
  ["Region::container_aligned"],
  _RG_SET + "for every power of two g = 2^k, k < 32, width+2(g-1) <= u32::MAX: superset; origin and size multiples of g; origin = floor_g(left), "
  "far edge = ceil_g(right) (least g-aligned superset), negative origins included")
for _o in range(1, 9):  # one obligation per orientation value (1 + u(3)); a symbolic orientation needs 290 s, a concrete one 11 s
    K("rg.apply_orientation_o%d" % _o, ["C06", "C15", "C01"], "jxl-render", RG, RGM, "apply_orientation_o%d" % _o, "complete",
      ["Region::apply_orientation", "ImageMetadata::apply_orientation", "ImageHeader::width_with_orientation",
       "ImageHeader::height_with_orientation"],
      "orientation = %d; requires stored size 1..=i32::MAX (all of it), R any non-empty rectangle inside the displayed image; ensures for every "
      "stored point p inside the image: p in result <=> spec_orientation(o,W,H,p) in R; result inside the stored image; size kept (o<=4) or "
      "swapped (o>=5)" % _o)
# (rg.apply_orientation_empty was removed: it demanded that an EMPTY requested rectangle maps to an empty region. C06 compares
#  samples of the requested rectangle; an empty rectangle has none, so the property holds whatever region is computed. The real
#  code maps an empty rectangle to a 2-wide one (right = left - 1 gets swapped); recorded in DESIGN.md 9.3 as "check demanded more
#  than the property", not as a finding.)

for _op in ["downsample", "pad", "upsample", "container_aligned"]:
    K("rg.monotone_" + _op, ["C06"], "jxl-render", RG, RGM, "monotone_" + _op, "complete", ["Region::" + _op],
      "nested extents stay nested under %s (regions of a frame render: |origin|, size <= 2^30+2^14; factor <= 12 / pad <= 48 / g <= 1024; "
      "upsample: operands <= 2^18 so that nothing is shifted out). Together: every padding rule of util.rs, being a composition of these "
      "operations with header-only parameters, is monotone in the request" % _op)

# ---- util.rs: request -> frame coordinates, padding rules ----------------------------------------------------------
_RU_HDR = ("headers built with BundleDefault::default_with_context + overwritten pub fields (never parsed); `Frame` accessors "
           "image_header()/header() are stubbed to return the harness-owned headers (Frame has no constructor but parse). ")
K("ru.image_region_to_frame", ["C06", "C05", "C01"], "jxl-render", RU, RUM, "image_region_to_frame_contract", "complete",
  ["image_region_to_frame", "Region::translate", "Region::intersection", "Region::downsample"],
  _RU_HDR + "all frame types, |x0|,|y0| <= 2^29+9344, frame size <= 2^30, lf_level 0..4, stored image <= 2^30; "
  "apply_orientation_to_image_region abstracted as a pure function returning some non-empty region S inside the stored image "
  "(discharged by rg.apply_orientation_o1..8 + ru.oriented_glue). Ensures: q in result(full res) <=> q in frame and q+(x0,y0) in S "
  "(reference-only frame: whole frame); LF result = least region covering q>>3*lf_level, empty if nothing requested; "
  "S = whole image and frame on the canvas => whole frame. Monotonicity in the request is a corollary (exact preimage, "
  "then least cover of a non-empty rectangle, empty stays empty).")
K("ru.oriented_glue", ["C06", "C15"], "jxl-render", RU, RUM, "oriented_glue", "complete",
  ["apply_orientation_to_image_region"], "== Region::apply_orientation for every orientation, size <= i32::MAX, rectangle inside the displayed image")
for _o in range(1, 9):
    K("ru.image_region_to_frame_o%d" % _o, ["C06", "C15", "C01"], "jxl-render", RU, RUM, "image_region_to_frame_o%d" % _o, "complete",
      ["image_region_to_frame", "Region::apply_orientation", "Region::translate", "Region::intersection"],
      _RU_HDR + "monolithic form for orientation %d (nothing abstracted): q in image_region_to_frame(R, ignore_lf_level) <=> q in the frame and the "
      "displayed position of image sample q+(x0,y0) lies in R, for every non-empty R inside the displayed image; full image |-> full frame" % _o,
      tier="thorough", timeout=900)
K("ru.pad_lf_region", ["C06", "C01"], "jxl-render", RU, RUM, "pad_lf_region_contract", "complete", ["pad_lf_region"],
  "lf_level 0..4, any region within +-(2^30+2^13): contains the request; identity for lf_level 0; LF frames padded equally (> 0) on all four "
  "sides; monotone. The amount (4*lf_level+32) has no counterpart in the standard and is not pinned.")
_RU_UP = ("region within +-(2^30+2^13); contains the request; every channel with cumulative shift f gets the request at 1/2^f resolution grown by the "
          "upsampling kernel support (5x5 window: 2 source samples, 3 when two passes are needed, f > 3); nothing upsampled => identity; monotone "
          "(two calls on nested requests). Larger-than-needed padding verifies. ")
for _n, _cfg in [("c0", "upsampling 1, no extra channel"), ("c1", "upsampling 2"), ("c2", "upsampling 4"), ("c3", "upsampling 8"),
                 ("ec_a", "upsampling 2, extra channels (8x, dim_shift 3) and (2x, dim_shift 1): cumulative 6 and 2"),
                 ("ec_b", "upsampling 1, one extra channel not upsampled"), ("ec_c", "upsampling 4, extra channels (4x,0) and (1x,3)"),
                 ("ec_d", "upsampling 1, extra channel (2x, dim_shift 3): cumulative 4")]:
    K("ru.pad_upsampling_" + _n, ["C06", "C01"], "jxl-render", RU, RUM, "pad_upsampling_" + _n, "complete", ["pad_upsampling"],
      _cfg + "; " + _RU_UP, timeout=600)
_RU_PC = ("all filter settings symbolic (EPF off/1/2/3 iterations, Gabor on/off, do_ycbcr); region within +-(2^30+2^13). Ensures result >= request at "
          "colour resolution grown on every side by upsampling(2 if upsampled) + EPF(2/3/6: kernel reach of steps 1 / 1-2 / 0-2) + Gabor(1) + "
          "chroma upsampling(1); whole 8x8 blocks when EPF is on; even-aligned when do_ycbcr; identity when nothing is enabled. "
          "NOT detected: an amount larger than required (the code pads 5 for 2 EPF iterations where 3 suffice).")
for _n, _cfg, _tier in [("c0", "upsampling 1", "quick"), ("c1", "upsampling 2", "thorough"), ("c2", "upsampling 4", "thorough"), ("c3", "upsampling 8", "thorough"),
                        ("ec_a", "upsampling 2 + extra channels with cumulative shift 6 and 2", "thorough"),
                        ("ec_c", "upsampling 4 + extra channels (4x,0),(1x,3)", "thorough")]:
    K("ru.pad_color_region_" + _n, ["C06", "C01"], "jxl-render", RU, RUM, "pad_color_region_" + _n, "complete",
      ["pad_color_region", "pad_upsampling", "Region::container_aligned"], _cfg + "; " + _RU_PC, tier=_tier, timeout=900)
for _n, _cfg in [("a", "no upsampling, no filter"), ("b", "upsampling 2, EPF 3 iterations, Gabor"), ("c", "upsampling 8, EPF 1, Gabor, YCbCr"),
                 ("d", "EPF 2, YCbCr"), ("e", "upsampling 4 + extra channels, EPF 2, Gabor")]:
    K("ru.pad_color_region_monotone_" + _n, ["C06"], "jxl-render", RU, RUM, "pad_color_region_monotone_" + _n, "complete",
      ["pad_color_region"], "R1 inside R2 => pad_color_region(R1) inside pad_color_region(R2); configuration: " + _cfg +
      " (one complete header configuration per harness; for the other configurations monotonicity rests on rg.ops_monotone + the fact that "
      "the function is a composition of those operations with header-only parameters)", tier="thorough", timeout=600)
K("ru.mirror", ["C06", "C01"], "jxl-render", RU, RUM, "mirror_contract", "complete", ["mirror"],
  "len 1..2^30+2^13, offset in [-len, 2len): terminates, no overflow, result = reflection about the edge (edge sample not repeated), inside 0..len")

# ---- jxl-oxide/fb.rs: orientation of the output buffers, float -> integer samples -----------------------------------
CANARIES["jxl-oxide"] = dict(anchor=FB, module=FBM, harness="canary", kind="complete", fns=[], timeout=120)
K("fb.to_original_coord", ["C15", "C01"], "jxl-oxide", FB, FBM, "to_original_coord_contract", "complete",
  ["ImageStream::to_original_coord"],
  "for all displayed sizes (u32), orientations 1..8, displayed positions inside: the stored position returned lies inside the stored "
  "image and spec_orientation(o, W, H, it) == (x, y), i.e. the stream map is the inverse of the standard's orientation map; no overflow")
K("fb.copy_from_f32_u8", ["C15", "C01"], "jxl-oxide", FB, FBM, "copy_from_f32_u8_contract", "complete",
  ["<u8 as Sealed>::copy_from_f32"],
  "all 2^32 f32 bit patterns: NaN -> 0; 255*v <= 0 -> 0; 255*v >= 255 -> 255 (incl. inf); otherwise |result - 255*v| <= 0.5 + 2^-16 "
  "(255*v exact in f64)")
K("fb.copy_from_f32_u16", ["C15", "C01"], "jxl-oxide", FB, FBM, "copy_from_f32_u16_contract", "complete",
  ["<u16 as Sealed>::copy_from_f32"],
  "all f32 bit patterns: NaN -> 0; clamped to [0, 65535]; otherwise |result - 65535*v| <= 0.5 + 2^-8")
K("fb.copy_from_f32_monotone_u8", ["C15"], "jxl-oxide", FB, FBM, "copy_from_f32_monotone_u8", "complete",
  ["<u8 as Sealed>::copy_from_f32", "<f32 as Sealed>::copy_from_f32"],
  "a <= b (non-NaN) => u8(a) <= u8(b), all pairs of f32; f32 -> f32 is the bit identity")
K("fb.copy_from_f32_monotone_u16", ["C15"], "jxl-oxide", FB, FBM, "copy_from_f32_monotone_u16", "complete",
  ["<u16 as Sealed>::copy_from_f32"], "a <= b (non-NaN) => u16(a) <= u16(b), all pairs of f32", tier="thorough", timeout=1200)
_FB_G = ("1x1 AlignedGrid holding a symbolic sample, read at (0,0) or at any position outside: ")
# (the float-buffer fast paths of copy_from_grid -- harnesses copy_from_grid_u8_f32 / _u16_f32 -- are registered in 41_fb2.py as
#  fb2.copy_from_grid_u8_f32 / _u16_f32: they exceeded 14 GB until Vec::reserve was modelled, see there)
for _t, _g, _c in [("u8", "i32", "8-bit samples in a 32-bit buffer: exact copy clamped to 0..=255, 0 outside"),
                   ("u8", "i16", "8-bit samples in a 16-bit buffer: exact copy clamped to 0..=255, 0 outside"),
                   ("u16", "i32", "16-bit samples in a 32-bit buffer: exact copy clamped to 0..=65535, 0 outside"),
                   ("u16", "i16", "16-bit samples in a 16-bit buffer: exact copy, negative -> 0")]:
    K("fb.copy_from_grid_%s_%s" % (_t, _g), ["C15", "C01"], "jxl-oxide", FB, FBM, "copy_from_grid_%s_%s" % (_t, _g),
      "bounded:1x1 grid (position lookup is AlignedGrid::try_get_ref), every sample value, every position",
      ["<%s as Sealed>::copy_from_grid" % _t], _FB_G + _c, timeout=600)
K("fb.from_grids_int", ["C15", "C01"], "jxl-oxide", FB, FBM, "from_grids_int",
  "bounded:1x1 copy region, one 32-bit and one 16-bit integer channel, all 8 orientations, all sample values",
  ["FrameBuffer::from_grids", "BitDepth::parse_integer_sample"],
  "integer channels are scaled with their own bit depth (== parse_integer_sample), interleaved in channel order", tier="thorough", timeout=900)
# The coordinate map of FrameBuffer::from_grids on a 3x2 copy region with several channels and per-channel grid regions, one obligation per
# orientation, is in 41_fb2.py (fb2.from_grids_regions_o1..8, fb2.from_grids_mixed_o1..8); the single-channel harnesses from_grids_o1..8
# that needed > 12-14 GB here were superseded by them and removed from the module.

# ---- jxl-image/lib.rs ---------------------------------------------------------------------------------------------
CANARIES["jxl-image"] = dict(anchor=IM, module=IMM, harness="canary", kind="complete", fns=[], timeout=60)
K("im.apply_orientation", ["C15", "C14", "C01"], "jxl-image", IM, IMM, "apply_orientation_contract", "complete",
  ["ImageMetadata::apply_orientation"],
  "orientation 1..8, stored size 1..=i32::MAX, stored sample inside: (.., inverse=false) == (spec_oriented_dims, spec_orientation); displayed "
  "position inside; (.., inverse=true) applied to the result returns the stored size and sample (round trip)")
K("im.apply_orientation_inverse", ["C15", "C01"], "jxl-image", IM, IMM, "apply_orientation_inverse_contract", "complete",
  ["ImageMetadata::apply_orientation"],
  "for every displayed size and displayed position inside: the stored position returned by inverse=true lies inside the stored image and "
  "spec_orientation maps it back to the displayed position")
K("im.oriented_dims", ["C01"], "jxl-image", IM, IMM, "oriented_dims_contract", "complete",
  ["ImageHeader::width_with_orientation", "ImageHeader::height_with_orientation", "ImageMetadata::apply_orientation"],
  "for EVERY size a SizeHeader can encode (height 1..=2^30; width explicit 1..=2^30 or compute_default_width(ratio 1..7, height), i.e. up to 2^31) "
  "and orientation 1..8: no panic and == spec_oriented_dims. Called by RenderContextBuilder::build and JxlImage::width()/height().")
K("im.parse_integer_sample", ["C15", "C01"], "jxl-image", IM, IMM, "parse_integer_sample_contract", "complete",
  ["BitDepth::parse_integer_sample"],
  "IntegerSample with 1..=30 bits, every i32 sample: result == v / (2^bits - 1) (bit-exact f32 quotient), 0 -> 0.0, max -> 1.0 (bits <= 24)")
K("im.parse_integer_sample_31", ["C01"], "jxl-image", IM, IMM, "parse_integer_sample_31_contract", "complete",
  ["BitDepth::parse_integer_sample"],
  "IntegerSample with 31 bits (accepted by BitDepth::parse): same contract, in particular no arithmetic overflow in a checked build")
K("im.parse_float_sample_normal", ["C15", "C01"], "jxl-image", IM, IMM, "parse_float_sample_normal_contract", "complete",
  ["BitDepth::parse_integer_sample"],
  "FloatSample, every (bits, exp_bits) BitDepth::parse accepts, every sample whose exponent field is neither 0 nor all ones: bit-exact IEEE value")
K("im.parse_float_sample_zero", ["C15"], "jxl-image", IM, IMM, "parse_float_sample_zero_contract", "complete",
  ["BitDepth::parse_integer_sample"],
  "FloatSample, exponent field 0 (zero and subnormals): IEEE value, in particular sample 0 -> 0.0")
K("im.compute_default_width", ["C14", "C01"], "jxl-image", IM, IMM, "compute_default_width_contract", "complete",
  ["SizeHeader::compute_default_width"],
  "ratio 0..7, height <= 2^30: ratio 0 -> 8*w_div8, else floor(height*num/den) for 1:1, 12:10, 4:3, 3:2, 16:9, 5:4, 2:1; result fits u32")
K("im.size_header_parse", ["C14", "C01"], "jxl-image", IM, IMM, "size_header_parse_contract",
  "bounded:10 symbolic bytes from bit 0 (covers the longest form, 68 bits; every field value)", ["SizeHeader::parse"],
  "height/width and the number of bits consumed equal an independent decoding of the standard's SizeHeader table over the same bytes", timeout=600)
K("im.preview_header_parse", ["C14", "C01"], "jxl-image", IM, IMM, "preview_header_parse_contract",
  "bounded:5 symbolic bytes from bit 0 (longest form 32 bits; every field value)", ["PreviewHeader::parse"],
  "height/width and bit count equal the standard's PreviewHeader table: xsize_div8 / xsize are present only when ratio == 0", timeout=600)
K("im.animation_header_parse", ["C14", "C01"], "jxl-image", IM, IMM, "animation_header_parse_contract",
  "bounded:11 symbolic bytes from bit 0 (longest form 79 bits; every field value)", ["AnimationHeader::parse"],
  "tps numerator/denominator, num_loops, have_timecodes and bit count equal the standard's AnimationHeader table", timeout=600)
K("im.bit_depth_parse", ["C14", "C01"], "jxl-image", IM, IMM, "bit_depth_parse_contract",
  "bounded:3 symbolic bytes from bit 0 (longest form 13 bits; every field value)", ["BitDepth::parse"],
  "value and bit count equal the standard's BitDepth table; Ok exactly for integer bits <= 31 / float exp_bits 2..8 and mantissa 2..23", timeout=600)
