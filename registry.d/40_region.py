# Region algebra (jxl-render/region.rs), padding rules (jxl-render/util.rs), orientation maps and sample conversion
# (jxl-oxide/fb.rs, jxl-image/lib.rs).  ids: rg.* / fb.* / im.*
RG = "crates/jxl-render/src/region.rs"; RGM = "kani/jxl-render/region.rs"
RU = "crates/jxl-render/src/util.rs"; RUM = "kani/jxl-render/util.rs"
FB = "crates/jxl-oxide/src/fb.rs"; FBM = "kani/jxl-oxide/fb.rs"
IM = "crates/jxl-image/src/lib.rs"; IMM = "kani/jxl-image/lib.rs"
CANARIES["jxl-render"] = dict(anchor=RG, module=RGM, harness="canary", kind="complete", fns=[], timeout=60)

# ---- region.rs: every method against set semantics, loop-free => complete ---------------------------------------
_RG_SET = ("abstract view pts(r) = {(x,y) | left <= x < left+width, top <= y < top+height} in mathematical integers; "
           "membership of ONE symbolic point is checked, i.e. the statement holds for all points. ")
K("rg.basic", ["C06", "C05", "C01"], "jxl-render", RG, RGM, "basic_contract", "complete",
  ["Region::empty", "Region::with_size", "Region::is_empty", "Region::right", "Region::bottom"],
  _RG_SET + "no precondition (all i32/u32): empty() has no points; with_size(w,h) = [0,w)x[0,h); is_empty <=> no point; "
  "right()/bottom() = left+width / top+height saturated at i32::MAX")
K("rg.total", ["C01", "C06", "C05"], "jxl-render", RG, RGM, "total_contract", "complete",
  ["Region::contains", "Region::intersection", "Region::merge"],
  "no precondition (any two regions, e.g. a user supplied crop with arbitrary u32 fields): no panic; intersection is a subset of both operands")
K("rg.contains", ["C06", "C05"], "jxl-render", RG, RGM, "contains_contract", "complete", ["Region::contains"],
  _RG_SET + "requires right/bottom edges of both regions representable as i32; ensures contains(b) <=> pts(b) subset of pts(self) "
  "(true: symbolic point; false: a corner point of b is a witness)")
K("rg.translate", ["C06", "C05", "C01"], "jxl-render", RG, RGM, "translate_contract", "complete", ["Region::translate"],
  _RG_SET + "requires left+dx, top+dy representable (call sites: +-x0/y0 of a frame header); ensures p in result <=> p-(dx,dy) in self, size kept")
K("rg.intersection", ["C06", "C05", "C01"], "jxl-render", RG, RGM, "intersection_contract", "complete", ["Region::intersection"],
  _RG_SET + "requires edges representable; ensures p in a.intersection(b) <=> p in a and p in b; result edges representable; commutative")
K("rg.merge", ["C06", "C05", "C01"], "jxl-render", RG, RGM, "merge_contract", "complete", ["Region::merge"],
  _RG_SET + "requires edges representable; ensures superset of both, identity on an empty operand, and every edge of the result is "
  "the extreme edge of an operand (least covering rectangle)")
K("rg.pad", ["C06", "C01"], "jxl-render", RG, RGM, "pad_contract", "complete", ["Region::pad"],
  _RG_SET + "requires left-size >= i32::MIN and width+2*size <= u32::MAX (no saturation / overflow; sizes at call sites <= 48); "
  "ensures all four edges move outwards by exactly size (a forgotten side or a one-sided pad is a violation)")
K("rg.downsample", ["C06", "C01"], "jxl-render", RG, RGM, "downsample_contract", "complete", ["Region::downsample"],
  _RG_SET + "for ALL factors 0..31 and all regions with width+2*(2^f-1) <= u32::MAX: result = [floor(left/2^f), ceil(right/2^f)) per axis, "
  "covers p>>f for every p in self, and its first/last column and row are images of points of self (least covering region)")
K("rg.downsample_separate", ["C06", "C01"], "jxl-render", RG, RGM, "downsample_separate_contract", "complete",
  ["Region::downsample_separate"], "same contract with independent factors per axis (incl. one factor 0)")
K("rg.downsample_with_shift", ["C06", "C01"], "jxl-render", RG, RGM, "downsample_with_shift_contract", "complete",
  ["Region::downsample_with_shift", "ChannelShift::shift_size", "ChannelShift::from_jpeg_upsampling"],
  "requires origin aligned to the shift, size <= 2^30+2^13, shifts <= 12 (Shifts / Raw) or any of the 4^3*3 JPEG upsampling modes; "
  "ensures covers p>>shift for every p of self; for Shifts/Raw it is the least covering region")
K("rg.upsample", ["C06", "C01"], "jxl-render", RG, RGM, "upsample_contract", "complete",
  ["Region::upsample", "Region::upsample_separate"],
  _RG_SET + "requires factors < 32 and no bit shifted out of left/top/width/height; ensures p in upsample(f) <=> (p>>f) in self "
  "(exact preimage), all four edges scaled by 2^f")
K("rg.up_down", ["C06"], "jxl-render", RG, RGM, "up_down_contract", "complete", ["Region::downsample", "Region::upsample"],
  "downsample(f).upsample(f) (f <= 12, |origin| <= 2^30, size <= 2^30+2^13) is the least 2^f-aligned superset")
K("rg.container_aligned", ["C06", "C01"], "jxl-render", RG, RGM, "container_aligned_contract", "complete",
  ["Region::container_aligned"],
  _RG_SET + "for every power of two g = 2^k, k < 32, width+2(g-1) <= u32::MAX: superset; origin and size multiples of g; origin = floor_g(left), "
  "far edge = ceil_g(right) (least g-aligned superset), negative origins included")
for _o in range(1, 9):  # one obligation per orientation value (1 + u(3)); a symbolic orientation needs 290 s, a concrete one 11 s
    K("rg.apply_orientation_o%d" % _o, ["C06", "C15", "C01"], "jxl-render", RG, RGM, "apply_orientation_o%d" % _o, "complete",
      ["Region::apply_orientation", "ImageMetadata::apply_orientation", "ImageHeader::width_with_orientation",
       "ImageHeader::height_with_orientation"],
      "orientation = %d; requires stored size 1..=i32::MAX (all of it), R any non-empty rectangle inside the displayed image; ensures for every "
      "stored point p inside the image: p in result <=> spec_orientation(o,W,H,p) in R; result inside the stored image; size kept (o<=4) or "
      "swapped (o>=5)" % _o)
K("rg.apply_orientation_empty", ["C06", "C15"], "jxl-render", RG, RGM, "apply_orientation_empty_contract", "complete",
  ["Region::apply_orientation"],
  "requires an EMPTY rectangle (width or height 0) positioned inside the displayed image; ensures the result is empty "
  "(the image of the empty set is empty)")
