# ------------------------------------------------------------------------------------------------
# jxl-coding: entropy decoder kernels (C04 mainly; C01, C02, C11)
# ------------------------------------------------------------------------------------------------
CD = "crates/jxl-coding/src/lib.rs"; CDM = "kani/jxl-coding/lib.rs"
CANARIES["jxl-coding"] = dict(anchor=CD, module=CDM, harness="canary", kind="complete", fns=[], timeout=60)

_log2_attrs = [dict(file=CD, before="fn add_log2_ceil(x: u32) -> u32 {", attrs=[
    "kani::ensures(|r: &u32| *r <= 32 && (1u64 << *r) >= x as u64 + 1 && (*r == 0 || (1u64 << (*r - 1)) < x as u64 + 1))"])]
K("cd.add_log2_ceil", ["C01", "C04"], "jxl-coding", CD, CDM, "add_log2_ceil_contract", "complete",
  ["add_log2_ceil"], "ensures r is the least k with 2^k >= x + 1, i.e. ceil(log2(x+1)), for every u32 "
  "(kani::ensures on the real fn, proof_for_contract)", attrs=_log2_attrs)
