# ------------------------------------------------------------------------------------------------
# jxl-coding: entropy decoder kernels (C04 mainly; C01, C02, C11)
# Reader states: Bitstream's fields are private to jxl-bitstream, so harnesses here reach a reader state with
# Bitstream::new + skip_bits / peek / consume only; "bounded:reader ..." says which states that covers.
# ------------------------------------------------------------------------------------------------
CD = "crates/jxl-coding/src/lib.rs"; CDM = "kani/jxl-coding/lib.rs"
# the lib.rs harness module contains a proof_for_contract(add_log2_ceil) harness, so the contract attribute must be
# inserted whenever that module is compiled: every lib.rs row and the crate canary (which lives there) carry it.
_log2_attrs = [dict(file=CD, before="fn add_log2_ceil(x: u32) -> u32 {", attrs=[
    "kani::ensures(|r: &u32| *r <= 32 && (1u64 << *r) >= x as u64 + 1 && (*r == 0 || (1u64 << (*r - 1)) < x as u64 + 1))"])]
CANARIES["jxl-coding"] = dict(anchor=CD, module=CDM, harness="canary", kind="complete", fns=[], timeout=60, attrs=_log2_attrs)
K("cd.add_log2_ceil", ["C01", "C04"], "jxl-coding", CD, CDM, "add_log2_ceil_contract", "complete",
  ["add_log2_ceil"], "ensures r is the least k with 2^k >= x + 1, i.e. ceil(log2(x+1)), for every u32 "
  "(kani::ensures on the real fn, proof_for_contract)", attrs=_log2_attrs)
K("cd.add_log2_ceil_spec", ["C04"], "jxl-coding", CD, CDM, "add_log2_ceil_matches_spec", "complete",
  ["add_log2_ceil"], "equals the defining loop 'least k with 2^k >= x+1' and its closed form (bit length) for every u32; "
  "widths 3,3,3,4,4 for log_alphabet_size 5,6,7,8,15", attrs=_log2_attrs)
K("cd.integer_config_parse", ["C01", "C04", "C11"], "jxl-coding", CD, CDM, "integer_config_parse_contract",
  "bounded:reader = fresh Bitstream over <= 4 bytes advanced by <= 7 bits (parse reads <= 12 bits); every bit content, all 5 call-site log_alphabet_size values",
  ["IntegerConfig::parse", "add_log2_ceil"],
  "fields, consumed bits and Ok/InvalidIntegerConfig/unexpected-eof outcome equal the standard's C.2.3 procedure on the bit view; "
  "ensures msb_in_token + lsb_in_token <= split_exponent <= 15 and split == 1 << split_exponent "
  "(split_exponent <= log_alphabet_size does NOT hold and is not claimed)", attrs=_log2_attrs)
K("cd.hybrid_uint_roundtrip", ["C01", "C04"], "jxl-coding", CD, CDM, "hybrid_uint_roundtrip",
  "bounded:reader = the state after read_symbol (fresh 16-byte Bitstream advanced <= 7 bits, refilled, <= 16 bits consumed); complete over every u32 value, every IntegerConfig parse can return, every surrounding bit",
  ["DecoderInner::read_uint_prefilled"],
  "read_uint_prefilled(cfg, token, stream holding bits) with (token, nbits, bits) = spec_hybrid_uint_encode(cfg, v) returns v, consumes exactly nbits, leaves the following bits intact", attrs=_log2_attrs)
K("cd.read_uint_prefilled", ["C01", "C04", "C11"], "jxl-coding", CD, CDM, "read_uint_prefilled_contract",
  "bounded:reader = the state after read_symbol over <= 16 bytes (incl. cut streams); complete over every token <= 65535 and every IntegerConfig",
  ["DecoderInner::read_uint_prefilled"],
  "total for every token a symbol reader can return; value and bit count = C.3.3 formula; on a cut stream: NO error, NO bit consumed, "
  "missing raw bits read as zero (documented C11 exception: consume_bits' result is discarded)", attrs=_log2_attrs)
K("cd.finalize", ["C04", "C11"], "jxl-coding", CD, CDM, "finalize_contract", "complete",
  ["Coder::finalize", "Decoder::finalize"], "ANS: Ok iff state == 0x130000, otherwise InvalidAnsStream (not unexpected-eof); prefix: always Ok", attrs=_log2_attrs)
K("cd.lz77_step", ["C01", "C04"], "jxl-coding", CD, CDM, "lz77_step_contract",
  "bounded:num_decoded <= 8 (window <= 8 entries; the 2^20 ring wrap-around is not exercised), 2 clusters; complete over tokens, configs, min_symbol, min_length, dist_multiplier <= 306783377",
  ["DecoderInner::read_varint_with_multiplier_clustered_lz77", "DecoderInner::read_uint_prefilled", "DecoderInner::lz_dist_cluster"],
  "inductive step: requires lz_inv (window.len == min(num_decoded, 2^20), copy_pos < num_decoded), min_length >= 3, num_decoded < u32::MAX; "
  "ensures no panic, lz_inv again (Ok or Err), Ok => num_decoded + 1, value stored in the window, a pending copy returns window[copy_pos] and reads no bits. "
  "Symbol reader stubbed by an assumed contract (arbitrary token <= 65535 or error, <= 16 bits)", timeout=300, attrs=_log2_attrs)

AN = "crates/jxl-coding/src/ans.rs"; ANM = "kani/jxl-coding/ans.rs"
_ans_contract = ("requires wf_table (buckets.len() << log_bucket_size == 4096, mask) and wf_slot at state & 0xfff (symbol < len, offset < D[symbol] <= 4096, "
                 "dist_xor consistent); ensures symbol = AliasMapping(state & 0xFFF), state' = D[symbol] * (state >> 12) + offset refilled with u(16) iff < 2^16, "
                 "bits consumed 16 / 0, following bits intact; get_unchecked / transmute in bounds")
for _las, _tier in ((5, "quick"), (8, "thorough"), (6, "thorough"), (7, "thorough")):
    K("cd.ans_step_las%d" % _las, ["C01", "C02", "C04"], "jxl-coding", AN, ANM, "read_symbol_contract_las%d" % _las,
      "bounded:reader = fresh 16-byte Bitstream advanced by <= 15 bits; complete over every wf table with 2^%d buckets, every 32-bit state, every stream content" % _las,
      ["ans::Histogram::read_symbol"], _ans_contract, tier=_tier, timeout=300 if _tier == "quick" else 900)
K("cd.ans_cut_stream", ["C01", "C04", "C11"], "jxl-coding", AN, ANM, "read_symbol_cut_stream",
  "bounded:stream <= 3 bytes, start offset <= 7, tables with 32 buckets; complete over table, state, content",
  ["ans::Histogram::read_symbol"],
  "on a cut stream the step equals spec_ans_step, whose only failure is 'refill needed and < 16 bits left' = unexpected-eof with nothing consumed "
  "(state is clobbered on Err: the decoder must be dropped)", timeout=300)
K("cd.ans_prefix_lemma", ["C11"], "jxl-coding", AN, ANM, "read_symbol_prefix_lemma",
  "bounded:buffer <= 4 bytes, every cut, tables with 32 buckets", ["ans::Histogram::read_symbol"],
  "relational: the step on any prefix equals the step on the whole data (symbol, state, position) or is unexpected-eof consuming nothing",
  tier="thorough", timeout=900)
K("cd.ans_parse_one_symbol_las5", ["C01", "C02", "C04"], "jxl-coding", AN, ANM, "parse_one_symbol_las5",
  "bounded:3 concrete one-symbol headers (symbol 0, 9, 31), log_alphabet_size 5; all 4096 slots",
  ["ans::Histogram::parse", "ans::Histogram::read_u8", "ans::Histogram::single_symbol"],
  "parse establishes wf_table and wf_slot for every slot; slot x -> (symbol, x) (bijection onto the symbol's 4096 offsets); D = transmitted distribution; "
  "single_symbol() = the symbol. Bit reader stubbed by an assumed contract (scripted header fields)", timeout=300)
K("cd.ans_parse_one_symbol_las6", ["C01", "C02", "C04"], "jxl-coding", AN, ANM, "parse_one_symbol_las6",
  "bounded:2 concrete one-symbol headers (symbol 1, 40), log_alphabet_size 6; all 4096 slots",
  ["ans::Histogram::parse", "ans::Histogram::read_u8"], "as cd.ans_parse_one_symbol_las5", tier="thorough", timeout=600)

PF = "crates/jxl-coding/src/prefix.rs"; PFM = "kani/jxl-coding/prefix.rs"
K("cd.prefix_single_symbol", ["C01", "C04", "C11"], "jxl-coding", PF, PFM, "single_symbol_contract",
  "bounded:reader = fresh Bitstream over <= 16 bytes advanced by <= 15 bits; every symbol",
  ["prefix::Histogram::with_single_symbol", "prefix::Histogram::read_symbol", "prefix::Histogram::single_symbol"],
  "a single-symbol code decodes to its symbol consuming 0 bits, also at end of data; single_symbol() reports it")
K("cd.prefix_table_lookup", ["C01", "C04"], "jxl-coding", PF, PFM, "read_symbol_table_contract",
  "bounded:toplevel_bits <= 6, second-level table <= 40 entries, full 16-byte stream at offset 0; complete over table contents and stream bits",
  ["prefix::Histogram::read_symbol"],
  "requires table_wf and a well-formed selected slot; ensures in-range indexing, returns the selected (one- or two-level) entry's symbol and consumes its length",
  timeout=300)
K("cd.prefix_cut_stream", ["C01", "C04", "C11"], "jxl-coding", PF, PFM, "read_symbol_table_cut_stream",
  "bounded:toplevel_bits <= 3, second-level table <= 40 entries, stream <= 3 bytes, offset <= 7",
  ["prefix::Histogram::read_symbol"],
  "on a cut stream: Ok exactly when the selected codeword fits in the remaining bits (same symbol/length as the zero-extended lookup), "
  "otherwise unexpected-eof consuming nothing", timeout=300)

PM = "crates/jxl-coding/src/permutation.rs"; PMM = "kani/jxl-coding/permutation.rs"
K("cd.permutation_context", ["C01", "C04"], "jxl-coding", PM, PMM, "get_context_contract", "complete",
  ["permutation::get_context", "add_log2_ceil"], "context = min(7, ceil(log2(x+1))) <= 7 for every u32")
