# Per-property texts for MANIFEST.json / evidence. `unverified` lists the surroundings of the function core
# that no contract reaches (they go into evidence.assumptions as "unverified surroundings").
_T = "function contracts on the real code, discharged by Kani/CBMC (complete or bounded harnesses) and Verus (unbounded)"

def _P(pid, claim, note, unverified, technique=_T, design="4"):
    PROPERTIES[pid] = dict(level="proof", explanation=claim, note=note, unverified=unverified, technique=technique, design=design)

_P("C01",
   "Totality (no panic / overflow / OOB / hang) of the decoding core: every reachable statement of the functions under contract is "
   "checked by CBMC's automatically generated obligations (overflow, bounds, unwrap, unreachable!, debug_assert, div-by-zero, shift) "
   "for ALL arguments satisfying the stated type invariants; loops are closed by unwinding assertions or Verus decreases clauses. "
   "Proof-level for the listed functions only, not for the decoder as a whole.",
   "Function-modular: callers outside the core are unverified. Bounded obligations (labelled) bound an input length, never a value range.",
   ["composition of section parsers, MA-tree decoding, VarDCT, filters, AuxBoxList + Brotli, JxlImage API call orders",
    "callers of util::mirror must not pass len == 0 (it would spin)"])
_P("C02",
   "Memory safety of the unsafe blocks Kani can reach: CBMC pointer-validity / bounds checks on every dereference in Bitstream::refill, "
   "ans::Histogram::read_symbol (get_unchecked under the table invariant) and the raw-pointer subgrid API, plus disjointness/cover postconditions.",
   "Only pointer_dereference / bounds classes and [C02]-tagged asserts count. SIMD (target_feature) kernels are out of reach of Kani and are unverified.",
   ["every target_feature SIMD kernel (squeeze, RCT, DCT, EPF, Gabor)", "MaybeUninit scratch in SIMD kernels", "runtime CPU feature dispatch"])
_P("C03",
   "Each arithmetic stage of lossless Modular decoding is the exact inverse of the standard's forward stage for all sample values: "
   "inverse RCT o forward RCT = id, inverse squeeze o forward squeeze = id, predictors = the standard's formulas, UnpackSigned o PackSigned = id.",
   "Per-sample arithmetic core only; whole-image exactness against a reference encoder is not a contract.",
   ["context-tree (MA tree) lookup", "specialised fast paths agreeing with decode_inner", "palette transform", "channel/group assignment", "float samples", "SIMD kernels"])
_P("C04",
   "Entropy decoding kernels invert the specified coding: hybrid-integer decode(encode(v)) = v with exact bit count for every config; "
   "ANS read_symbol = the standard's state step for every well-formed table; alias table construction; canonical prefix-code decoding; UnpackSigned.",
   "Kernels under their table invariants; histogram parsing only for the tractable header forms (bounded).",
   ["general compressed-form ANS histograms", "parse_complex RLE of prefix code lengths", "cluster-map MTF", "LZ77 window semantics beyond one step", "Lehmer permutations"])
_P("C05",
   "Blend kernels equal the standard's per-pixel blend formulas with a frame condition outside the rectangle; blend-mode mapping equals the "
   "standard's table; canvas-reset / full-frame / reference predicates equal the spec predicates; crop-rectangle arithmetic is exact set arithmetic.",
   "Kernels on tiny grids (bounded geometry, complete over sample values).",
   ["reference-slot bookkeeping in preserve_current_frame", "offset computation inline in blend()/patch()", "patch parsing", "order in which keyframes are requested"])
_P("C06",
   "Region algebra used to translate a requested rectangle into frame coordinates is exact set arithmetic for all i32/u32 inputs; "
   "padding helpers return supersets that are monotone and map the full image to the full frame.",
   "Pixel equality of two whole renders is not expressible as a contract; a wrong padding amount that still contains the request is only detected where the exact amount is specified.",
   ["group filtering in modular.rs / vardct", "render cache reset on region change", "filters' actual support vs padding", "pixel-level equality of crop vs full render"])
_P("C08",
   "Sequential render-handle protocol: on every return (Ok or Err) of a public entry point the handle is not left in the Rendering state, "
   "so no later call can block on a frame nobody renders.",
   "Renderer/composite replaced by nondeterministic stubs (assumed contract: may return any Ok/Err, do not touch the handle).",
   ["'a later success yields exactly the samples of an unfailed decode'", "allocation-failure injection through the real renderer", "multi-threaded interleavings (C20)"])
_P("C09",
   "Container layer chunking independence: for every parser state satisfying the invariant, feeding a buffer at once or cut at any point "
   "(re-offering unconsumed bytes) yields the same codestream bytes, events, final state and consumption; by induction over states this covers all histories.",
   "Bounded buffer length per step (longer than the longest header); complete over states and byte values.",
   ["JxlImageInner::feed_bytes_inner carry-over buffer", "Frame::feed_bytes section filling", "try_init retry", "render equality"])
_P("C10",
   "Box header parser equals the ISOBMFF box-header specification for all 16-byte prefixes; the container state machine's step contract "
   "(event order, exact payload slices, byte accounting, rejection of ill-formed layouts) holds from every invariant-satisfying state.",
   "Step contract bounded in the per-step buffer length; induction over the invariant gives all histories.",
   ["Brotli decompression (external crate)", "AuxBoxList collection / eof finalisation", "Exif box parsing"])
_P("C11",
   "Prefix lemma for the reader primitives and symbol readers: on any prefix of a buffer each primitive returns exactly what it returns on the "
   "whole buffer or an error classified unexpected_eof(), and a failed read consumes nothing.",
   "Primitives only; bounded buffer lengths, complete over values.",
   ["section parsers and allow_partial handling", "cached offsets of single-section frames", "loading-frame render", "read_uint_prefilled ignores consume_bits' error (see evidence)"])
_P("C12",
   "Scalar 16-bit paths equal the 32-bit paths whenever the 32-bit computation stays inside i16: Sample impls, tendency, inverse RCT rows, inverse squeeze.",
   "Scalar paths only.",
   ["SIMD i16 kernels (out of reach of Kani)", "narrow_modular buffer selection", "palette"])
_P("C13",
   "Allocation tracker contract: alloc/drop/shrink/expand preserve the ghost budget (bytes_left + outstanding == limit), exhaustion is an Err "
   "that changes nothing, no wrap-around; grid owners acquire exactly one handle of exactly the buffer size and none on Err.",
   "Single-threaded atomics; 'nothing leaks on any decoder path' rests on RAII plus a syntactic scan, reported as a side condition.",
   ["every owner outside jxl-grid (GroupData, MA trees, coefficient scratch)", "RAII on all decoder paths", "OutOfMemory conversions"])
_P("C14",
   "Header primitives decode exactly what the standard's encodings denote and stop at exactly the right bit: U32 (all selectors), U64 (all forms), "
   "F16 (all 65536 codes), Enum, Bool, UnpackSigned, ZeroPadToByte; small bundles (size/preview/animation/bit depth) where tractable.",
   "Primitives complete over values with bounded buffer length; whole ImageMetadata/FrameHeader are too large for CBMC and unverified.",
   ["ImageMetadata / FrameHeader as a whole", "colour encoding bundles", "TOC offsets and permutation", "extra channel info", "names"])
_P("C15",
   "Orientation coordinate maps equal the EXIF/standard orientation table and are mutually inverse; region orientation maps a rectangle to the "
   "image of its points; float-to-integer conversion rounds to nearest, clamps and maps NaN as specified; integer-to-float scaling is v/(2^bits-1).",
   "Coordinate maps complete over all W,H,x,y,o; whole-buffer copy bounded to tiny grids.",
   ["channel selection/order in ImageStream::from_render", "planar vs interleaved agreement on real renders", "crop regions through the renderer"])
_P("C17",
   "JPEG bit writer equals T.81 bit packing with byte stuffing and padding; canonical Huffman code construction equals T.81 Annex C; "
   "header length arithmetic never under/overflows for parser-reachable values.",
   "Bit-level core and header arithmetic only.",
   ["byte-exactness of a whole reconstruction", "jpeg_reconstruction_status (needs a JxlImage)", "scan scripts / progressive refinement", "Brotli leftover data"])
_P("C18",
   "ICC command kernels: shuffle2/shuffle4 equal the matrix transposition of the standard for every length (Verus, unbounded); "
   "header prediction, context function and varint equal their specifications.",
   "Kernels only; the command interpreter decode_icc is covered for panic-freedom on bounded streams.",
   ["order-0/1/2 predictor, tag-list shortcuts and size checks inline in decode_icc (functional)", "entropy layer (C04)", "read_icc glue"])
