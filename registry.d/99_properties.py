# Per-property texts for MANIFEST.json / evidence. `unverified` lists the surroundings of the function core
# that no contract reaches (they go into evidence.assumptions as "unverified surroundings").
_T = "function contracts on the real code, discharged by Kani/CBMC (complete or bounded harnesses) and Verus (unbounded)"

def _P(pid, claim, note, unverified, technique=_T, design="4"):
    PROPERTIES[pid] = dict(level="proof", explanation=claim, note=note, unverified=unverified, technique=technique, design=design)

_P("C01",
   "Totality (no panic / overflow / OOB / hang) of the decoding core: every reachable statement of the functions under contract is "
   "checked by CBMC's automatically generated obligations (overflow, bounds, unwrap, unreachable!, debug_assert, div-by-zero, shift) "
   "for ALL arguments satisfying the stated type invariants; loops are closed by unwinding assertions or Verus decreases clauses. "
   "Proof-level for the listed functions only, not for the decoder as a whole.",
   "Function-modular: callers outside the core are unverified. Bounded obligations (labelled) bound an input length, never a value range.",
   ["composition of section parsers, MA-tree decoding, VarDCT, filters, AuxBoxList + Brotli, JxlImage API call orders",
    "callers of util::mirror must not pass len == 0 (it would spin)"])
_P("C02",
   "Memory safety of the unsafe blocks Kani can reach: CBMC pointer-validity / bounds checks on every dereference in Bitstream::refill, "
   "ans::Histogram::read_symbol (get_unchecked under the table invariant) and the raw-pointer subgrid API, plus disjointness/cover postconditions.",
   "Only pointer_dereference / bounds classes and [C02]-tagged asserts count. SIMD (target_feature) kernels are out of reach of Kani and are unverified.",
   ["every target_feature SIMD kernel (squeeze, RCT, DCT, EPF, Gabor)", "MaybeUninit scratch in SIMD kernels", "runtime CPU feature dispatch"])
_P("C03",
   "Each arithmetic stage of lossless Modular decoding is the exact inverse of the standard's forward stage for all sample values: "
   "inverse RCT o forward RCT = id (all 7 types + permutations), inverse squeeze o forward squeeze = id and tendency == smooth_tendency, the 13 "
   "non-weighted predictors and the weighted sub-predictions == the standard's formulas, palette values == the reference GetPaletteValue "
   "(explicit, delta, implicit cubes, delta prediction), default squeeze parameters and channel-list bookkeeping of the transforms, UnpackSigned o PackSigned = id.",
   "Per-sample arithmetic and transform bookkeeping only; whole-image exactness against a reference encoder is not a contract. Geometry is bounded (rows <= 2, squeeze <= 6, palette 2x1).",
   ["context-tree (MA tree) lookup and decode_inner (incl. previous-channel property order)", "specialised fast paths agreeing with decode_inner",
    "the weighted predictor's final weighted combination and SelfCorrectingPredictor::record", "channel/group assignment", "float samples", "SIMD kernels"])
_P("C04",
   "Entropy decoding kernels invert the specified coding: hybrid-integer decode(encode(v)) = v with exact bit count for every config; ANS read_symbol "
   "= the standard's state step for every well-formed table; ANS histogram parsing (single symbol, binary samples, every flat header of a 32-entry "
   "table) builds the specified distribution and a well-formed injective alias table; simple prefix codes (every alphabet size, every header) give the "
   "RFC 7932 lengths and order; prefix table lookup; LZ77 distance clamp and special distances; final-state check; UnpackSigned.",
   "Kernels under their table invariants; histogram parsing on concrete/bounded headers (bounded).",
   ["compressed-form ANS histograms, log_alphabet_size 8", "parse_complex (RLE of prefix code lengths) and with_code_lengths beyond 3-bit codes",
    "cluster-map MTF (read_clusters)", "Lehmer permutations (real decoder)", "LZ77 window contents beyond one step"])
_P("C05",
   "Blend-mode mapping equals the standard's table; Replace/Add/Skip kernels equal the per-pixel formulas bit-exactly with a frame condition, the "
   "multiply / alpha kernels at the exact points (alpha or factor 0 and 1, clamps, swapped operands); patch() copies exactly the clipped rectangle at "
   "the right source offset; composite_preprocess converts each channel with its own bit depth and decides skip_blending correctly; canvas-reset / "
   "full-frame / reference predicates equal the spec predicates; crop-rectangle arithmetic is exact set arithmetic.",
   "Kernels on tiny grids (bounded geometry, complete over sample values); general-case rounding of Mul/Blend/MulAdd is not pinned.",
   ["reference-slot bookkeeping in preserve_current_frame", "offset computation at the top of blend()", "patches with several channels/targets/alpha planes",
    "patch parsing", "order in which keyframes are requested"])
_P("C06",
   "Region algebra used to translate a requested rectangle into frame coordinates is exact set arithmetic for all i32/u32 inputs (incl. orientation); "
   "padding helpers return supersets of the kernel supports that are monotone and map the full image to the full frame.",
   "Pixel equality of two whole renders is not expressible as a contract; over-padding still verifies.",
   ["group filtering in modular.rs / vardct", "render cache reset on region change (request_image_region)", "filters' actual support vs padding",
    "pixel-level equality of crop vs full render", "partly rendered patch references"])
_P("C08",
   "Sequential render-handle protocol, one contract per entry point and initial state (exhaustive over the states): on every return (Ok or Err) the handle is "
   "not left in Rendering, Condvar::wait is never reached by a lone caller, and a failed blend is never published as a finished image.",
   "Renderer/composite replaced by nondeterministic stubs (assumed contract: may return any Ok/Err, do not touch the handle); InProgress(cache) state not instantiated.",
   ["'a later success yields exactly the samples of an unfailed decode' beyond the state discipline", "do_render / render_loading_frame error classification",
    "allocation-failure injection through the real renderer", "multi-threaded interleavings (C20)"])
_P("C09",
   "Container layer chunking independence by induction: from every parser state satisfying the invariant, one step of the real parser equals the specified "
   "step (tagged C09), and the specified step satisfies the one-cut prefix lemma for every buffer and cut; box header parsing on a prefix equals parsing on "
   "the whole; aux box collection is independent of how payload is sliced.",
   "Bounded buffer length per step (24 bytes, longer than the longest header); the induction over feed histories is argued in comments, not machine-checked.",
   ["JxlImageInner::feed_bytes_inner carry-over buffer and byte offsets", "Frame::feed_bytes section filling", "try_init retry", "render equality"])
_P("C10",
   "Box header parser equals the ISOBMFF box-header specification for all inputs; the container state machine's step contract (event order, exact payload "
   "slices, byte accounting, rejection of ill-formed layouts) holds from every invariant-satisfying state; plain aux boxes are delivered with type and "
   "exact payload, finalised by AuxBoxEnd or eof().",
   "Step contract bounded in the per-step buffer length; induction over the invariant gives all histories.",
   ["Brotli decompression (external crate)", "jbrd payload parser inside AuxBoxList", "Exif box parsing beyond RawExif::new"])
_P("C11",
   "Prefix lemma for the reader primitives and symbol readers: on any prefix of a buffer each primitive returns exactly what it returns on the "
   "whole buffer or an error classified unexpected_eof(), and a failed read consumes nothing.",
   "Primitives only; bounded buffer lengths, complete over values.",
   ["section parsers and allow_partial handling", "cached offsets of single-section frames", "loading-frame render", "read_uint_prefilled ignores consume_bits' error (see evidence)"])
_P("C12",
   "Scalar 16-bit paths equal the 32-bit paths whenever the 32-bit computation stays inside i16: Sample impls, tendency, inverse RCT rows, inverse squeeze.",
   "Scalar paths only.",
   ["SIMD i16 kernels (out of reach of Kani)", "narrow_modular buffer selection", "palette"])
_P("C13",
   "Allocation tracker contract (real kani::requires/ensures on the real functions): alloc/drop/shrink/expand preserve the ghost budget, exhaustion is "
   "an Err that changes nothing, no wrap-around; AlignedGrid owners acquire exactly one handle of exactly the buffer size and none on Err; ImageBuffer "
   "float conversions charge the copy to the source's tracker and leave buffer and budget untouched on exhaustion.",
   "Single-threaded atomics; 'nothing leaks on any decoder path' rests on RAII; the order 'check budget, then allocate' is not observable by the contract.",
   ["every owner outside jxl-grid / ImageBuffer (GroupData, MA trees, coefficient scratch)", "RAII on all decoder paths", "OutOfMemory conversions"])
_P("C14",
   "Header primitives decode exactly what the standard's encodings denote and stop at exactly the right bit: U32, U64 (all forms), F16 (all codes), Enum, "
   "Bool, UnpackSigned, ZeroPadToByte; size/preview/animation/bit-depth bundles and BlendingInfo parse to the written values with exact bit counts; frame "
   "geometry (group counts, sizes, index maps) and the full-frame predicate that decides which header fields exist; TOC parse (sizes, offsets, permutation "
   "and its inverse, section order).",
   "Primitives complete over values with bounded buffer length; TOC with a stubbed permutation reader (assumed: returns some permutation).",
   ["ImageMetadata / FrameHeader as a whole", "colour encoding bundles", "Passes round trip", "extra channel info", "names", "real Lehmer permutation decoding"])
_P("C15",
   "Orientation coordinate maps equal the EXIF/standard table and are mutually inverse; FrameBuffer::from_grids places every sample of every channel (with its own "
   "grid region) where the orientation map says, for all 8 orientations, and the incremental stream produces the same samples; float-to-integer conversion rounds "
   "to nearest, clamps and maps NaN as specified; integer-to-float scaling is v/(2^bits-1); float samples incl. zero/subnormals.",
   "Coordinate maps complete over all W,H,x,y,o; buffer copies bounded to 3x2 regions.",
   ["ImageStream::from_render construction (needs a Render)", "spot-colour mixing", "planar vs interleaved agreement on real renders"])
_P("C17",
   "JPEG bit writer equals T.81 bit packing with byte stuffing and padding; canonical Huffman code construction equals T.81 Annex C; app-marker and "
   "Huffman-code parsers admit only what the consumers can handle; header length arithmetic never under/overflows; EOB-run accounting of progressive "
   "first and refinement passes equals T.81 G.1.2; restart markers and DC prediction.",
   "Bit-level core and header arithmetic only.",
   ["byte-exactness of a whole reconstruction", "jpeg_reconstruction_status (needs a JxlImage)", "ScanMoreInfo::parse (HashMap)", "ScanInfo ranges vs consumers",
    "padding-bit order (undecided)", "Brotli leftover data"])
_P("C18",
   "ICC decompression: shuffle2/shuffle4 equal the matrix transposition for every length (Verus, unbounded); header prediction, context function and "
   "varint equal their specifications; decode_icc equals an independent specification for every command shape (header, tag list incl. shortcuts and "
   "implicit sizes, copy/shuffle/predicted runs of every width and order, rejections), with symbolic data bytes.",
   "decode_icc per command shape with concrete command bytes and symbolic data (bounded).",
   ["symbolic command bytes / long streams", "read_icc (entropy-decoder side, C04)", "missing-varint truncations in main-section commands"])
