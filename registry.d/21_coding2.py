# ------------------------------------------------------------------------------------------------
# jxl-coding, second unit: histogram / code PARSING for the tractable header forms, LZ77 distance clamp (C04)
# (extends the harness modules of 20_coding.py; CD/CDM/AN/ANM/PF/PFM/_log2_attrs are defined there)
# ------------------------------------------------------------------------------------------------
K("cd2.prefix_simple_lengths", ["C04"], "jxl-coding", PF, PFM, "parse_simple_lengths_contract",
  "bounded:reader = fresh 16-byte Bitstream advanced by <= 7 bits (the header is <= 63 bits); complete over every alphabet_size 2..=2^15 and every header content. "
  "CUT at with_code_lengths (stubbed by its assumed contract 'Ok iff Kraft sum == 1', evaluated on the actual vector)",
  ["prefix::Histogram::parse_simple"],
  "RFC 7932 3.4: NSYM-1 = u(2), NSYM symbols of ALPHABET_BITS = bitlen(alphabet_size-1) bits, tree_select for NSYM 4; the vector handed to the code "
  "construction has alphabet_size entries, lengths 1,1 / 1,2,2 / 2,2,2,2 / 1,2,3,3 at the transmitted symbols in transmission order, 0 elsewhere; "
  "NSYM 1 = single symbol; symbol >= alphabet_size or duplicate symbols => InvalidPrefixHistogram; exact bit count", timeout=300)
