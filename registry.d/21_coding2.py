# ------------------------------------------------------------------------------------------------
# jxl-coding, second unit: histogram / code PARSING for the tractable header forms, LZ77 distance clamp (C04)
# (extends the harness modules of 20_coding.py; CD/CDM/AN/ANM/PF/PFM/_log2_attrs are defined there)
#
# _FS: CBMC keeps heap arrays of at most 64 elements field-sensitive by default; the Vec<Vec<u16>> spine of
# prefix::with_code_lengths (360 bytes) and the WorkingBucket / Bucket tables of ans::Histogram::parse (256..1024 bytes) are
# larger, pointers and loop bounds read back from them stay symbolic and the runs end in out-of-memory / 20-min timeouts.
# With the limit at 1024 the same harnesses take 8..60 s on concrete headers. Precision option only (no effect on soundness).
# ------------------------------------------------------------------------------------------------
_FS = ["--max-field-sensitivity-array-size", "1024"]
_NRC = ["--no-assertion-reach-checks"]

# ---- prefix.rs: simple prefix codes (RFC 7932 3.4) ----
K("cd2.prefix_simple_lengths", ["C04"], "jxl-coding", PF, PFM, "parse_simple_lengths_contract",
  "bounded:reader = fresh 16-byte Bitstream advanced by <= 7 bits (the header is <= 63 bits); complete over every alphabet_size 2..=2^15 and every header content. "
  "CUT at with_code_lengths (stubbed by its assumed contract 'Ok iff Kraft sum == 1', evaluated on the actual vector)",
  ["prefix::Histogram::parse_simple"],
  "RFC 7932 3.4: NSYM-1 = u(2), NSYM symbols of ALPHABET_BITS = bitlen(alphabet_size-1) bits, tree_select for NSYM 4; the vector handed to the code "
  "construction has alphabet_size entries, lengths 1,1 / 1,2,2 / 2,2,2,2 / 1,2,3,3 at the transmitted symbols in transmission order, 0 elsewhere; "
  "NSYM 1 = single symbol; symbol >= alphabet_size or duplicate symbols => InvalidPrefixHistogram; exact bit count",
  timeout=300, kani_args=_NRC)
_e2e = ("real parse_simple -> real with_code_lengths -> real read_symbol: fields read with widths 2 / ALPHABET_BITS / 1; for every coded symbol s the "
        "bit-reversed canonical codeword (RFC 7932 3.2: by length, equal lengths in SYMBOL order) followed by arbitrary bits decodes to s consuming len[s] bits. "
        "Header fields through a scripted reader (assumed read_bits / read_bool contract)")
K("cd2.prefix_simple_e2e_a5", ["C04"], "jxl-coding", PF, PFM, "simple_code_e2e_a5",
  "bounded:4 concrete headers over alphabet_size 5 (ALPHABET_BITS 3), one per shape 1,1 / 1,2,2 / 2,2,2,2 / 1,2,3,3, symbols in non-monotone order; every codeword, every following stream content",
  ["prefix::Histogram::parse_simple", "prefix::Histogram::with_code_lengths", "prefix::vec_reverse_bits", "prefix::Histogram::read_symbol"],
  _e2e, timeout=300, kani_args=_NRC, cbmc_args=_FS)
K("cd2.prefix_simple_e2e_pow2_rej", ["C04"], "jxl-coding", PF, PFM, "simple_code_e2e_pow2_and_rejections",
  "bounded:3 concrete accepted headers (alphabet_size 2, 4, 8: ALPHABET_BITS 1, 2, 3) and 6 concrete rejected ones over alphabet_size 5 (4 duplicate patterns, 2 out-of-alphabet symbols)",
  ["prefix::Histogram::parse_simple", "prefix::Histogram::with_code_lengths", "prefix::vec_reverse_bits", "prefix::Histogram::read_symbol"],
  _e2e + "; a repeated symbol (the real code construction sees an incomplete code) or a symbol == alphabet_size => InvalidPrefixHistogram",
  timeout=300, kani_args=_NRC, cbmc_args=_FS)

# ---- ans.rs: binary and flat distribution headers, alias table included ----
_ansp = ("D[k] for every symbol k = the distribution the header denotes (sum 4096), log_bucket_size = 12 - log_alphabet_size, wf_table, wf_slot for all 4096 slots, "
         "alias mapping injective (=> bijection onto (s, o), o < D[s]), single_symbol() iff some D == 4096, exactly the header fields read with their widths. "
         "Alias construction is inline in parse and runs for real. Header fields through a scripted reader (assumed read_bool / read_bits contract)")
_ansf = ["ans::Histogram::parse", "ans::Histogram::read_u8"]
K("cd2.ans_parse_binary_las5_a", ["C04", "C02"], "jxl-coding", AN, ANM, "parse_binary_las5_a",
  "bounded:2 concrete two-symbol headers, log_alphabet_size 5: (v1,v2,u12) = (3,1,1000), (31,0,1); rejected: v1 == v2 = 4; v1 = 32 outside the table",
  _ansf, "binary form D[v1] = u(12), D[v2] = 4096 - D[v1]; v1 == v2 or max(v1, v2) >= 2^log_alphabet_size => InvalidAnsHistogram. " + _ansp,
  timeout=300, kani_args=_NRC, cbmc_args=_FS)
K("cd2.ans_parse_binary_las5_b", ["C04", "C02"], "jxl-coding", AN, ANM, "parse_binary_las5_b",
  "bounded:3 concrete two-symbol headers, log_alphabet_size 5: (5,9,128) D == bucket size, (2,7,0) => one-symbol distribution on v2, (0,1,4095)",
  _ansf, "binary form. " + _ansp, timeout=300, kani_args=_NRC, cbmc_args=_FS)
K("cd2.ans_parse_flat_las5_a", ["C04", "C02"], "jxl-coding", AN, ANM, "parse_flat_las5_a",
  "bounded:flat headers with alphabet_size 2, 3, 6 at log_alphabet_size 5", _ansf,
  "flat form: D[i] = floor(4096 / alphabet_size) + (i < 4096 mod alphabet_size ? 1 : 0) for i < alphabet_size, 0 above. " + _ansp,
  timeout=300, kani_args=_NRC, cbmc_args=_FS)
K("cd2.ans_parse_flat_las5_b", ["C04", "C02"], "jxl-coding", AN, ANM, "parse_flat_las5_b",
  "bounded:flat headers with alphabet_size 5, 32 (= table size), 1 (=> single symbol) at log_alphabet_size 5; alphabet_size 33 rejected", _ansf,
  "flat form; alphabet_size > 2^log_alphabet_size => InvalidAnsHistogram. " + _ansp, timeout=300, kani_args=_NRC, cbmc_args=_FS)
for _sfx, _rng in (("t1", "4, 7, 8, 9"), ("t2", "10..13"), ("t3", "14..17"), ("t4", "18..21"), ("t5", "22..25"), ("t6", "26..29"),
                   ("t7", "30, 31; alphabet_size 256 rejected")):
    K("cd2.ans_parse_flat_las5_" + _sfx, ["C04", "C02"], "jxl-coding", AN, ANM, "parse_flat_las5_" + _sfx,
      "bounded:flat headers with alphabet_size %s at log_alphabet_size 5 (with _a, _b and _t1.._t7: EVERY flat header of a 32-entry table)" % _rng, _ansf,
      "flat form. " + _ansp, tier="thorough", timeout=900, kani_args=_NRC, cbmc_args=_FS)
K("cd2.ans_parse_las6_samples", ["C04", "C02"], "jxl-coding", AN, ANM, "parse_las6_samples",
  "bounded:log_alphabet_size 6: flat 5, flat 64, binary (40,1,77); flat 65 rejected", _ansf, "flat and binary forms. " + _ansp,
  tier="thorough", timeout=1200, kani_args=_NRC, cbmc_args=_FS)
K("cd2.ans_parse_las7_samples", ["C04", "C02"], "jxl-coding", AN, ANM, "parse_las7_samples",
  "bounded:log_alphabet_size 7: flat 5, binary (100,127,3000)", _ansf, "flat and binary forms. " + _ansp,
  tier="thorough", timeout=1200, kani_args=_NRC, cbmc_args=_FS)

# ---- lib.rs: LZ77 distance ----
K("cd2.lz77_special_distances_table", ["C04"], "jxl-coding", CD, CDM, "special_distances_table_is_the_distance_map", "complete", [],
  "the harness module's transcription of kSpecialDistances (the spec side of cd2.lz77_distance_*) is the unique ordering of the 120 offsets "
  "0 <= y <= 7, -7 <= x <= 8, (y > 0 or x > 0) by norm, then y descending, then x > 0 first", timeout=120, attrs=_log2_attrs)
_lzc = ("starts with no copy pending; requires lz_inv, min_length in 3..=264, dist_multiplier <= 306783377 (i32 range of offset + multiplier * dist; NOT checked by callers); "
        "ensures for a token >= min_symbol: copy_pos' = num_decoded - min(distance, num_decoded, 2^20) + 1 with distance = d + 1 / d - 119 / max(1, kSpecialDistances[d][0] + multiplier * kSpecialDistances[d][1]), "
        "num_to_copy' = ReadUint(lz_len_conf, token - min_symbol) + min_length - 1 (overflow => InvalidLz77Symbol), value = window[(num_decoded - distance) mod 2^20], "
        "appended at num_decoded mod 2^20, window.len' = min(num_decoded + 1, 2^20); literal tokens leave the copy state alone; Err decodes nothing. "
        "Symbol and hybrid-integer readers stubbed by recording stubs (arbitrary token <= 65535 or error / arbitrary u32)")
_lzf = ["DecoderInner::read_varint_with_multiplier_clustered_lz77", "DecoderInner::lz_dist_cluster"]
_lzk = ("bounded:window contents = zero except ONE symbolic cell at a symbolic index (2^20-entry ring as a symbolic-size allocation: CBMC array theory); "
        "complete over every num_decoded in 1..2^32-2 (before, at and after the wrap-around), every raw distance u32, every raw length, tokens, min_symbol, min_length, ")
K("cd2.lz77_distance_mult0", ["C01", "C04"], "jxl-coding", CD, CDM, "lz77_distance_clamp_mult0", _lzk + "dist_multiplier == 0", _lzf, _lzc,
  timeout=300, attrs=_log2_attrs, kani_args=_NRC)
K("cd2.lz77_distance_special", ["C01", "C04"], "jxl-coding", CD, CDM, "lz77_distance_clamp_special", _lzk + "every dist_multiplier in 1..=306783377", _lzf, _lzc,
  timeout=300, attrs=_log2_attrs, kani_args=_NRC)

# (orchestrator) the two LZ77 clamp rows use CBMC's array theory for the 2^20-entry window; their solver time varies between 10 s and
# more than 300 s from run to run, so they are thorough-only with a generous timeout
for _o in OBLIGATIONS:
    if _o["id"] in ("cd2.lz77_distance_mult0", "cd2.lz77_distance_special"):
        _o["tier"] = "thorough"
        _o["timeout"] = 1200
