# Frame composition, second layer: the rectangle / offset arithmetic of patch() (jxl-render/blend.rs; the kernels and mode
# tables it calls are in 70_blend.py) and composite_preprocess (jxl-render/image.rs).   ids: bl2.* / cp.*
_BL = "crates/jxl-render/src/blend.rs"; _BLM = "kani/jxl-render/blend.rs"
_IM2 = "crates/jxl-render/src/image.rs"; _IMM2 = "kani/jxl-render/image.rs"

_PREQ = ("requires both images to have the same channel list with float buffers (the reference went through RenderedImage::blend), one "
         "blending entry per colour group + extra channel, patch size >= 1 (Patches::parse), source rectangle %s; blend_single is replaced "
         "by its contract (spec_blend_pixel over the rectangle, proved by bl.kernel_*) and the kernel's PRECONDITION (rectangle inside both "
         "buffers, alpha planes of the buffers' geometry) is asserted; ")
_PENS = ("ensures for EVERY position of the canvas buffer: under the target rectangle the sample == spec_blend_pixel(%s, old, reference sample "
         "at (x0 + X - x, y0 + Y - y)) bit for bit, elsewhere (and where no source sample exists) unchanged; reference, canvas rectangle and "
         "channel list unchanged; Ok; no panic / overflow / out-of-bounds access")
_PB_Q = ("bounded:canvas buffer 3x2 and reference buffer 2x2 at symbolic origins, all coordinates in a +-12 window (target wholly outside on "
         "every side .. wholly inside), one colour channel, one target; complete over all finite f32 samples")
_PB_W = ("bounded:canvas buffer 4x3 and reference buffer 4x3 at symbolic origins, every coordinate up to the frame size limit (|x|,|y|,|origin| "
         "<= 2^29, x0,y0,width,height <= 2^30), one colour channel, one target; complete over all finite f32 samples")
_PFNS = ["patch", "Region::intersection", "BlendParams::from_patch_blending_info"]
_PKW = dict(kani_args=["--no-assertion-reach-checks"], unwindset=[(r"blend::patch$", 2)])
K("bl2.patch_replace_rectangle", ["C05", "C01", "C02"], "jxl-render", _BL, _BLM, "patch_replace_rectangle", _PB_Q, _PFNS,
  _PREQ % "inside the reference buffer (valid stream, reference rendered whole)" + _PENS % "kReplace", timeout=600, **_PKW)
# (patch_add_rectangle: same contract with kAdd -- did not finish within 600 s on the shared box; harness kept, row not registered)
K("bl2.patch_replace_source_clipped", ["C05", "C01", "C02"], "jxl-render", _BL, _BLM, "patch_replace_source_clipped", _PB_Q, _PFNS,
  _PREQ % "ANYWHERE (reaching beyond the reference frame), reference buffer at the frame origin" + _PENS % "kReplace", timeout=600, **_PKW)
K("bl2.patch_replace_rectangle_wide", ["C05", "C01", "C02"], "jxl-render", _BL, _BLM, "patch_replace_rectangle_wide", _PB_W, _PFNS,
  _PREQ % "inside the reference buffer (valid stream, reference rendered whole)" + _PENS % "kReplace", tier="thorough", timeout=1200, **_PKW)

# registered by the orchestrator after the fix "patch blending refers to a non-existent alpha channel" (defect found by this harness)
K("bl2.patch_total_alpha_mode", ["C01", "C05"], "jxl-render", _BL, _BLM, "patch_total_alpha_mode_without_extra_channels",
  "bounded:2x1 float buffers, 1 colour channel, no extra channels; patch blend modes 4..7 (alpha modes) with the parser's default alpha_channel 0",
  _PFNS, "patch() with an alpha blend mode on an image without extra channels returns (Ok or Err): no index out of bounds", timeout=600, **_PKW)

# ---- image.rs: composite_preprocess -----------------------------------------------------------------------------------
_CPB = ("bounded:1x1 buffers, %d colour channel(s) + 2 extra channels (I32 / I16 / optionally one F32 buffer); complete over all 4 frame types x "
        "is_last x duration (u32) x save_as_reference x resets_canvas x save_before_ct x do_ycbcr x ct_done")
for _h, _cc in (("gray", 1), ("rgb", 3)):
    K("cp.preprocess_" + _h, ["C05", "C15", "C01"], "jxl-render", _IM2, _IMM2, "composite_preprocess_" + _h, _CPB % _cc,
      ["composite_preprocess", "FrameHeader::can_reference", "FrameType::is_normal_frame"],
      "ensures Ok(skip_blending) with skip_blending <=> !is_normal_frame || resets_canvas; blend_done' == skip_blending; can_reference => every buffer "
      "float, colour buffers converted with the image bit depth and extra channel i with ec_info[i].bit_depth (aligned with grid.color_channels, not "
      "with the encoded channel count); !can_reference => no buffer touched; convert_color_for_record called exactly when !(ct_done || save_before_ct "
      "|| skip_blending && is_last); channel list / ct_done unchanged | stubs (assumed contracts): Frame::header / Frame::image_header return the "
      "harness-built headers; util::convert_color_for_record touches only colour channels (counted); ImageBuffer::convert_to_float_modular replaced "
      "by a recording model (value contract: ib.float_conversion_values_*)", timeout=600, kani_args=["--no-assertion-reach-checks"])
