# Frame composition, second layer: the rectangle / offset arithmetic of the two entry points patch() and blend()
# (jxl-render/blend.rs; the kernels and mode tables they call are in 70_blend.py) and composite_preprocess
# (jxl-render/image.rs).   ids: bl2.* / cp.*
_BL = "crates/jxl-render/src/blend.rs"; _BLM = "kani/jxl-render/blend.rs"
_IM2 = "crates/jxl-render/src/image.rs"; _IMM2 = "kani/jxl-render/image.rs"

_PREQ = ("requires both images to have the same channel list with float buffers (the reference went through RenderedImage::blend), one "
         "blending entry per colour group + extra channel, patch size >= 1 (Patches::parse); ")
_PB = ("bounded:canvas buffer 4x3 at origin (-3..3, -3..3), reference buffer 4x3 at origin (-2..2, -2..2), patch 1..3 x 1..2 anywhere inside the "
       "reference, target x in -6..7, y in -5..6 (wholly outside on every side .. wholly inside), one colour channel, one target; complete over all "
       "finite f32 samples")
for _h, _what in (("replace", "kReplace"), ("add", "kAdd")):
    K("bl2.patch_%s_rectangle" % _h, ["C05", "C01", "C02"], "jxl-render", _BL, _BLM, "patch_%s_rectangle" % _h, _PB,
      ["patch", "blend_single", "Region::intersection", "BlendParams::from_patch_blending_info"],
      _PREQ + "ensures for EVERY position of the canvas buffer: under the target rectangle the sample == spec_blend_pixel(%s, old, reference sample "
      "at (x0 + X - x, y0 + Y - y)) bit for bit, elsewhere unchanged; reference and canvas rectangle unchanged; Ok; no panic / overflow / "
      "out-of-bounds access" % _what, timeout=900)
