# Table of contents of a frame (jxl-frame/src/data/toc.rs: Toc::parse and its accessors) and aux box collection
# (jxl-oxide/src/aux_box.rs).   ids: toc.* / ab.*
# toc.section_order (group_index_bitstream_order against the standard's order) lives in 70_blend.py; same module.
_TOC = "crates/jxl-frame/src/data/toc.rs"; _TOCM = "kani/jxl-frame/toc.rs"
_TOC_FNS = ["Toc::parse", "Toc::bookmark", "Toc::total_byte_size", "Toc::is_single_entry",
            "Toc::group_index_bitstream_order", "FrameHeader::num_groups", "FrameHeader::num_lf_groups",
            "Bitstream::read_u32", "Bitstream::zero_pad_to_byte"]
_TOC_CONTRACT = (
    "requires a frame header in the ranges Frame::parse validates (built with default_with_context, concrete size / pass count); "
    "ASSUMED contract of jxl_coding::read_permutation (kani::stub): consumes 0..=9 bits and returns Err or SOME permutation P of 0..n -- all explored; "
    "real Decoder::parse/begin/finalize on one fixed 11-bit single-symbol prefix-code header; every other byte of the TOC symbolic. "
    "ensures: Ok iff both paddings are zero and the permutation was read; read_permutation called iff permuted_toc, with (size = n, skip = 0); "
    "parsing stops at the byte boundary after the n-th entry; groups[i].kind is the standard's section order; with s[k] = k-th U32(u(10), 1024+u(14), 17408+u(22), 4211712+u(30)) "
    "of the bit view: groups[i].size == s[P(i)], groups[i].offset == end_of_TOC + sum(s[..P(i)]) (cumulative in BITSTREAM order), total_size == sum(s); "
    "original_to_bitstream == P, bitstream_to_original[P(i)] == i, mutually inverse, both empty if not permuted; group_index_bitstream_order(kind_i) == P(i); "
    "bookmark() == end_of_TOC; the table invariant toc_inv holds (maps empty or mutually inverse permutations; sections contiguous in bitstream order; "
    "total_size == sum of sizes) -- toc.accessors_* continue from that invariant")
for _h, _shape, _tier, _to in [
        ("parse_single_plain_contract", "1 entry (1x1 frame, 1 pass), not permuted", "quick", 600),
        ("parse_single_permuted_contract", "1 entry, permuted_toc set (the only permutation of one entry)", "quick", 600),
        ("parse_two_passes_plain_contract", "5 entries (1 group, 2 passes), not permuted", "quick", 600),
        ("parse_two_passes_permuted_contract", "5 entries (1 group, 2 passes), every permutation of the 5 entries", "quick", 900),
        ("parse_two_groups_plain_contract", "5 entries (2 groups: 257x1 frame, 1 pass), not permuted", "thorough", 1200),
        ("parse_two_groups_permuted_contract", "5 entries (2 groups: 257x1 frame, 1 pass), every permutation", "thorough", 1200),
        ("parse_two_by_two_permuted_contract", "7 entries (2 groups, 2 passes), every permutation of the 7 entries", "thorough", 1200)]:
    K("toc." + _h.replace("_contract", ""), ["C14", "C01"], "jxl-frame", _TOC, _TOCM, _h,
      "bounded:" + _shape + "; all entry encodings (4 selectors, all values), enough bytes offered (no end-of-data outcome)",
      _TOC_FNS, _TOC_CONTRACT, tier=_tier, timeout=_to)

for _h, _shape, _tier, _to in [("1", "1 entry, permuted_toc set or not", "quick", 300), ("5_plain", "5 entries (1 LF group, 2 groups), not permuted", "quick", 300),
                               ("5_permuted", "5 entries, every permutation", "quick", 600), ("7_permuted", "7 entries (2 groups x 2 passes), every permutation", "thorough", 1200)]:
    K("toc.accessors_" + _h, ["C14", "C01"], "jxl-frame", _TOC, _TOCM, "toc_accessors_contract_" + _h,
      "bounded:tables of " + _shape + "; all entry sizes, every end-of-TOC position <= usize::MAX/4",
      ["Toc::iter_bitstream_order", "Toc::bookmark", "Toc::total_byte_size", "Toc::adjust_offsets"],
      "requires toc == toc_model(n, P, s, base): exactly the value toc.parse_* prove Toc::parse returns (groups[i] = (standard kind i, base + sum(s[..P(i)]), s[P(i)]), "
      "original_to_bitstream = P, bitstream_to_original = P^-1 or both empty, total_size = sum(s)); ensures bookmark() == base; iter_bitstream_order() yields exactly n items, "
      "the k-th = (kind of the section with P(i) == k, base + sum(s[..k]), s[k]) -- contiguous from the end of the TOC, sizes adding up to total_byte_size(); "
      "adjust_offsets(g <= base) yields toc_model(n, P, s, base - g): every offset rebased, sizes / kinds / maps / total unchanged", tier=_tier, timeout=_to)
