# Table of contents of a frame (jxl-frame/src/data/toc.rs: Toc::parse and its accessors) and aux box collection
# (jxl-oxide/src/aux_box.rs).   ids: toc.* / ab.*
# toc.section_order (group_index_bitstream_order against the standard's order) lives in 70_blend.py; same module.
_TOC = "crates/jxl-frame/src/data/toc.rs"; _TOCM = "kani/jxl-frame/toc.rs"
_TOC_FNS = ["Toc::parse", "Toc::bookmark", "Toc::total_byte_size", "Toc::is_single_entry",
            "Toc::group_index_bitstream_order", "FrameHeader::num_groups", "FrameHeader::num_lf_groups",
            "Bitstream::read_u32", "Bitstream::zero_pad_to_byte"]
_TOC_ASSUMED = (
    "ASSUMED (kani::stub, see the module header): (a) enough data -- Bitstream::read_bits = its own body with the end-of-data Err pruned, so the end-of-data outcome of "
    "Toc::parse is NOT covered; (b) permuted tables: jxl_coding::read_permutation = its contract 'consumes some bits, returns Err or SOME permutation P of 0..n' -- all P explored; "
    "(c) jxl_coding::read_clusters = 'bits 1,00 -> one cluster' (the real one builds a HashSet: > 400 s on 4 concrete bytes), Decoder::parse/begin/finalize otherwise REAL on one "
    "fixed 10-bit single-symbol prefix-code header; (d) unpermuted tables: Decoder::parse = assume(false), i.e. permuted_toc == 0 is the precondition. ")
_TOC_CONTRACT = (
    "requires a frame header in the ranges Frame::parse validates (built with default_with_context, concrete size / pass count). " + _TOC_ASSUMED +
    "ensures: Ok iff both paddings are zero (and the permutation was read); read_permutation called iff permuted_toc, with (size = n, skip = 0); "
    "parsing stops at the byte boundary after the n-th entry; groups[i].kind is the standard's section order; with s[k] = k-th U32(u(10), 1024+u(14), 17408+u(22), 4211712+u(30)) "
    "of the bit view: groups[i].size == s[P(i)], groups[i].offset == end_of_TOC + sum(s[..P(i)]) (cumulative in BITSTREAM order), total_size == sum(s); "
    "original_to_bitstream == P, bitstream_to_original[P(i)] == i, mutually inverse, both empty if not permuted; group_index_bitstream_order(kind_i) == P(i); "
    "bookmark() == end_of_TOC; is_single_entry() iff n == 1. I.e. the result is toc_model(n, P, s, end_of_TOC), from which toc.accessors_* continue")
_ALL = "all entry encodings (4 selectors, all values)"
_ONE = "ONE concrete TOC byte string (sizes 5, 2000, 20000, 5000000, 7: all four U32 forms)"
for _h, _shape, _tier, _to in [
        ("parse_single_plain", "1 entry (1x1 frame, 1 pass), not permuted; " + _ALL, "quick", 600),
        ("parse_single_permuted", "1 entry, permuted_toc set (the only permutation of one entry), read_permutation consuming 125..=134 bits (every alignment of the padding); " + _ALL, "quick", 900),
        ("parse_two_passes_plain_concrete", "5 entries (1 group, 2 passes), not permuted; " + _ONE, "quick", 600),
        ("parse_permutation_error", "5 entries, read_permutation returns Err: Toc::parse returns Err(Decoder(InvalidPermutation))", "quick", 600),
        ("parse_two_passes_permuted_concrete", "5 entries (1 group, 2 passes), every permutation of the 5 entries; " + _ONE, "thorough", 1200),
        ("parse_two_groups_permuted_concrete", "5 entries (2 groups: 257x1 frame, 1 pass), every permutation; " + _ONE, "thorough", 1200),
        ("parse_two_passes_plain", "5 entries (1 group, 2 passes), not permuted; " + _ALL, "thorough", 1200),
        ("parse_two_groups_plain", "5 entries (2 groups: 257x1 frame, 1 pass), not permuted; " + _ALL, "thorough", 1200),
        ("parse_two_passes_permuted", "5 entries (1 group, 2 passes), every permutation of the 5 entries; " + _ALL, "thorough", 1200)]:
    K("toc." + _h, ["C14", "C01"], "jxl-frame", _TOC, _TOCM, _h + "_contract",
      "bounded:" + _shape + "; enough bytes offered (no end-of-data outcome)", _TOC_FNS, _TOC_CONTRACT, tier=_tier, timeout=_to)
for _h, _shape, _tier, _to in [("1", "1 entry, permuted_toc set or not", "quick", 300), ("5_plain", "5 entries (1 LF group, 2 groups), not permuted", "quick", 300),
                               ("5_permuted", "5 entries, every permutation", "quick", 600), ("7_permuted", "7 entries (2 groups x 2 passes), every permutation", "thorough", 1200)]:
    K("toc.accessors_" + _h, ["C14", "C01"], "jxl-frame", _TOC, _TOCM, "toc_accessors_contract_" + _h,
      "bounded:tables of " + _shape + "; all entry sizes, every end-of-TOC position <= usize::MAX/4",
      ["Toc::iter_bitstream_order", "Toc::bookmark", "Toc::total_byte_size", "Toc::adjust_offsets"],
      "requires toc == toc_model(n, P, s, base): exactly the value toc.parse_* prove Toc::parse returns (groups[i] = (standard kind i, base + sum(s[..P(i)]), s[P(i)]), "
      "original_to_bitstream = P, bitstream_to_original = P^-1 or both empty, total_size = sum(s)); ensures bookmark() == base; iter_bitstream_order() yields exactly n items, "
      "the k-th = (kind of the section with P(i) == k, base + sum(s[..k]), s[k]) -- contiguous from the end of the TOC, sizes adding up to total_byte_size(); "
      "adjust_offsets(g <= base) yields toc_model(n, P, s, base - g): every offset rebased, sizes / kinds / maps / total unchanged", tier=_tier, timeout=_to)

# ---- jxl-oxide/src/aux_box.rs: aux box collection ---------------------------------------------------------------------
_AB = "crates/jxl-oxide/src/aux_box.rs"; _ABM = "kani/jxl-oxide/aux_box.rs"
_AB_FNS = ["AuxBoxList::handle_event", "AuxBoxList::finalize", "AuxBoxList::eof", "AuxBoxList::first_of_type", "AuxBoxList::first_exif", "AuxBoxList::first_xml",
           "AuxBoxList::jbrd", "AuxBoxReader::ensure_raw", "AuxBoxReader::feed_data", "AuxBoxReader::finalize", "AuxBoxReader::data", "RawExif::new"]
_AB_ASSUMED = ("ASSUMED: the jbrd payload parser (Jbrd::feed_bytes -> jxl_jbr) is replaced by 'returns Ok or Err' (kani::stub; needed because the box type is symbolic); "
               "Brotli-compressed boxes are excluded (brotli_compressed: false). Proof in legs cut at the state in_progress(list, finished boxes, ty, last_box, bytes) "
               "(asserted on the real state by ab.box_start / ab.box_more_data, constructed by ab.box_more_data / ab.box_end / ab.box_eof) -- see the module header for why. ")
K("ab.box_start", ["C10", "C01"], "jxl-oxide", _AB, _ABM, "box_start_contract",
  "bounded:a fresh list, or a list holding one finished box of 2 bytes; all types except jbrd, both last_box flags", _AB_FNS,
  _AB_ASSUMED + "requires a list between two boxes; event AuxBoxStart{ty != jbrd, brotli_compressed: false, last_box: any}; ensures Ok and in_progress(list, same finished boxes, ty, last_box, no bytes); "
  "while the box is read: not listed, its type reported Decoding (or the payload of an earlier finished box of the same type), other absent types NotFound iff last_box", timeout=600)
K("ab.box_more_data", ["C10", "C09", "C01"], "jxl-oxide", _AB, _ABM, "box_more_data_contract",
  "bounded:bytes so far 0 / 3 / 1, new slice 3 / 2 / 3 bytes, none or one finished box; all types except jbrd, all byte values; unbounded over the number of data events by induction",
  _AB_FNS, _AB_ASSUMED + "requires in_progress(list, finished, ty, last_box, prefix); event AuxBoxData(ty, slice); ensures Ok and in_progress(list, finished, ty, last_box, prefix ++ slice): "
  "the collected payload is the concatenation of all data slices in order, wherever the parser cut them", timeout=600)
_AB_FIN = (_AB_ASSUMED + "requires in_progress(list, none or one finished box, ty, last_box, bytes) with 0, 5 or 2 payload bytes; event: %s; ensures Ok; exactly one more box (ty, bytes), finished, "
           "appended after the earlier one which keeps type and payload; the FIRST box of a type answers first_of_type; first_xml / first_exif return that payload (Exif: big-endian offset + rest, "
           "Err if < 4 bytes or offset outside); absent types and jbrd: NotFound iff the list is closed (eof, or the box was announced as last) else Decoding; reader reset for the next box; jbrd reader untouched")
K("ab.box_end", ["C10", "C09", "C01"], "jxl-oxide", _AB, _ABM, "box_end_contract",
  "bounded:payload 0 / 5 bytes on an empty list, 2 bytes after one finished box; all types except jbrd, all byte values, both last_box flags", _AB_FNS, _AB_FIN % "AuxBoxEnd(ty)", timeout=600)
K("ab.box_eof", ["C10", "C09", "C01"], "jxl-oxide", _AB, _ABM, "box_eof_contract",
  "bounded:payload 0 / 5 bytes on an empty list, 2 bytes after one finished box; all types except jbrd, all byte values, both last_box flags", _AB_FNS,
  _AB_FIN % "eof() WITHOUT AuxBoxEnd (last_box false: a sized box ending exactly at the end of the file, whose AuxBoxEnd the parser emits only lazily; last_box true: a box running to the end of the file)", timeout=600)
K("ab.no_box", ["C10", "C01"], "jxl-oxide", _AB, _ABM, "no_box_contract", "complete", _AB_FNS,
  "fresh list: every query Decoding; after NoMoreAuxBox, after eof(), after Codestream + eof(): every query NotFound (first_exif Ok(NotFound)), list empty and closed; "
  "Codestream events change nothing; a second eof() changes nothing")
for _h, _st in [("init", "reader Init, no finished box"), ("raw", "reader Raw(2 bytes) after one finished box")]:
    K("ab.step_total_" + _h, ["C01", "C10"], "jxl-oxide", _AB, _ABM, "step_total_%s_contract" % _h,
      "bounded:one event from every state with " + _st + " (any current type or none, any last_box); unbounded over histories by induction on Inv",
      _AB_FNS + ["Jbrd::finalize"],
      _AB_ASSUMED + "Inv := reader in progress is (Init | Raw, not done), every listed box is finished. new() satisfies Inv; for each of AuxBoxStart(any type, not Brotli), AuxBoxData(any type, 1 byte), "
      "AuxBoxEnd(any type), NoMoreAuxBox, Codestream, eof(): the call returns Ok or Err (AuxBoxEnd / eof of a jbrd box without data: Err) and does not panic, Inv holds again, at most one box is "
      "delivered, all four queries are total. So impossible orders (data or end without start, start after start, anything after eof) are errors or accepted, never a panic: ensure_raw's panic!() "
      "and feed_data's unreachable!() need NoData / Brotli, which Inv excludes", timeout=600)
K("ab.exif_new", ["C10", "C01"], "jxl-oxide", _AB, _ABM, "exif_new_contract",
  "bounded:Exif payloads of 0, 3, 4, 5 and 6 bytes, all byte values", ["RawExif::new", "RawExif::tiff_header_offset", "RawExif::payload"],
  "Ok iff len >= 4 and the big-endian u32 offset < len - 4; then tiff_header_offset() is that value and payload() the bytes after it; no panic")
K("ab.refeed_after_failed_finalisation", ["C01"], "jxl-oxide", _AB, _ABM, "refeed_after_failed_finalisation",
  "bounded:the one state left by the history AuxBoxStart{Exif, brotli_compressed: true}; AuxBoxEnd(Exif) -> Err (current_box = fresh Brotli writer, not done), next event AuxBoxStart{xml, plain}",
  ["AuxBoxList::handle_event", "AuxBoxReader::ensure_raw"],
  "after a failed finalisation the next box start returns Ok or Err, it does not panic. FAILS on the unrepaired tree: ensure_raw reaches panic!() (aux_box.rs:59). "
  "That the state is reachable is shown natively (real Brotli decoder), through JxlImage::feed_bytes with a 33-byte file: findings/c01_auxbox_refeed",
  timeout=900, unwindset=[(r"HuffmanCode>::extend_with", 1082)])
