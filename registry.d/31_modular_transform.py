# jxl-modular: transform parameter / channel-list bookkeeping (transform.rs) and palette per-sample values (transform/palette.rs)
MT_T = "crates/jxl-modular/src/transform.rs"; MT_TM = "kani/jxl-modular/transform.rs"
MT_P = "crates/jxl-modular/src/transform/palette.rs"; MT_PM = "kani/jxl-modular/palette.rs"

_MT_CRATE_ATTRS = ["#![feature(allocator_api)]"]  # transform.rs harness module has a generic Vec::push model (see there);
# inserted as line 1 of the scratch copy of crates/jxl-modular/src/lib.rs: line numbers reported for THAT file are +1.


def _MT(id, props, anchor, module, harness, kind, fns, contract, **kw):
    K(id, props, "jxl-modular", anchor, module, harness, kind, fns, contract, **kw)
    OBLIGATIONS[-1]["crate_attrs"] = _MT_CRATE_ATTRS


# ---- transform.rs: default squeeze parameters ----------------------------------------------------
_DSQ = ("requires: channel list non-empty, nb_meta_channels < number of channels (lib.rs:44,151; preserved by every transform, see "
        "mt.sq_meta_step_* / mt.palette_meta). ensures: when num_sq == 0 the derived step list equals libjxl's DefaultSqueezeParameters "
        "step for step (horizontal, in_place, begin_c, num_c): two non-in-place chroma steps on channels nb_meta+1, nb_meta+2 iff there "
        "are > 2 non-meta channels and channel nb_meta+1 has the size of channel nb_meta; then in-place steps over all non-meta channels, "
        "vertical first iff !(w > h) and h > 8, then alternating horizontal (while w > 8) / vertical (while h > 8) with w, h = ceil half "
        "per step; number of steps == chroma + ceil(log2(w/8)) + ceil(log2(h/8)) (closed form); the channel list is not modified; "
        "explicit parameters (num_sq > 0) are kept. ")
_PUSH = (" [Vec::push replaced by a capacity-checked no-realloc model on a pre-reserved parameter vector, justified by "
         "mt.vec_push_real / mt.vec_push_model; growth of the real capacity-0 vector is exercised by mt.sq_default_params_count]")
for _n, _what in (("gray", "1 channel"), ("rgb", "3 channels"), ("meta", "1 meta channel + 3 resp. 2 channels"),
                  ("rgba", "4 resp. 2 channels")):
    _MT("mt.sq_default_params_" + _n, ["C03", "C01"], MT_T, MT_TM, "sq_default_params_" + _n,
        "bounded:%s; channel sizes <= 1024 (<= 16 steps), all other fields symbolic" % _what,
        ["Squeeze::set_default_params"], _DSQ + _PUSH, timeout=300)
_MT("mt.sq_default_params_64k", ["C03", "C01"], MT_T, MT_TM, "sq_default_params_64k_rgb",
    "bounded:3 channels; channel sizes <= 65536 (<= 28 steps)", ["Squeeze::set_default_params"], _DSQ + _PUSH, tier="thorough", timeout=1200)
_MT("mt.sq_default_params_full", ["C03", "C01"], MT_T, MT_TM, "sq_default_params_full_rgb",
    "bounded:3 channels; complete over all 32-bit channel sizes", ["Squeeze::set_default_params"], _DSQ + _PUSH, tier="thorough", timeout=1200)
_MT("mt.sq_default_params_explicit", ["C03", "C01"], MT_T, MT_TM, "sq_default_params_explicit", "bounded:3 channels, one explicit step",
    ["Squeeze::set_default_params"], "num_sq > 0: the parsed parameter list is returned unchanged")
_MT("mt.sq_default_params_count", ["C03", "C01"], MT_T, MT_TM, "sq_default_params_count_full",
    "bounded:3 channels and 1 channel; complete over all 32-bit channel sizes; library Vec::push on the parser's capacity-0 vector",
    ["Squeeze::set_default_params"],
    "number of derived steps == (2 iff > 2 non-meta channels and channel nb_meta+1 has the size of channel nb_meta) + ceil(log2(w/8)) + "
    "ceil(log2(h/8)) (0 below 9) for ALL 32-bit sizes; the loop terminates within 30 iterations; no overflow in the halving")
_MT("mt.vec_push_real", ["C03"], MT_T, MT_TM, "vec_push_real_contract", "bounded:Vec<SqueezeParams> of capacity 4, length 0..3",
    ["Vec::push"], "library push: appends x, keeps earlier elements")
_MT("mt.vec_push_model", ["C03"], MT_T, MT_TM, "vec_push_model_contract", "bounded:Vec<SqueezeParams> of capacity 4, length 0..3",
    ["push_model"], "push model used by the mt.sq_default_params_* rows: same postcondition as mt.vec_push_real")

# ---- transform.rs: channel-list rewriting -------------------------------------------------------
_SQS = ("requires nb_meta_channels < 3 = number of channels; sizes, shifts (any i32) and direction symbolic. ensures: Ok iff libjxl's "
        "CheckMetaSqueezeParams + MetaSqueeze accept (range, no mix of meta / non-meta, meta channels only in place, no zero-sized channel, "
        "shifts <= 30), Err is InvalidSqueezeParams; on Ok: squeezed channel = ceil half, residual = floor half in the squeezed direction, "
        "shift of that direction +1 on both unless negative, residuals inserted right after begin_c+num_c-1 (in place) or appended (not in "
        "place) in channel order, every other channel unchanged, nb_meta_channels += num_c iff begin_c < nb_meta_channels, and "
        "nb_meta_channels < number of channels still holds")
_MT("mt.sq_meta_step_in_place", ["C03", "C01"], MT_T, MT_TM, "sq_meta_step_in_place",
  "bounded:channel list of 3, one step, every (begin_c, num_c) with begin_c <= 3, num_c <= 4 incl. out-of-range ones; in_place = true",
  ["Squeeze::transform_channel_info"], _SQS, timeout=300)
_MT("mt.sq_meta_step_appended", ["C03", "C01"], MT_T, MT_TM, "sq_meta_step_appended",
  "bounded:channel list of 3, one step, every (begin_c, num_c) with begin_c <= 3, num_c <= 4 incl. out-of-range ones; in_place = false",
  ["Squeeze::transform_channel_info"], _SQS, timeout=300)
_MT("mt.sq_meta_step_covers", ["C03"], MT_T, MT_TM, "sq_meta_step_covers",
  "bounded:channel list of 3, step (begin_c 0, num_c 2)", ["Squeeze::transform_channel_info"],
  "vacuity guards of mt.sq_meta_step_*: each acceptance / rejection reason is reachable; acceptance == MetaSqueeze", timeout=300)
_MT("mt.palette_meta", ["C03", "C01"], MT_T, MT_TM, "palette_meta_contract",
  "bounded:channel list of 4, every (begin_c, num_c) shape incl. out-of-range ones; sizes / shifts / nb_colours / nb_deltas symbolic",
  ["Palette::transform_channel_info"],
  "requires nb_meta_channels < 4, nb_colours <= 70911, nb_deltas <= 66816 (parser ranges). ensures: Ok iff begin_c+num_c <= #channels, not "
  "(begin_c < nb_meta <= endc), and all of begin_c..=endc have the size of channel begin_c (code compares sizes only; libjxl's "
  "CheckEqualChannels additionally compares shifts -- reported); Err is InvalidPaletteParams; on Ok: list = [nb_colours x num_c, "
  "shift -1] ++ old list without begin_c+1..=endc; nb_meta_channels += 1, or += 2 - num_c inside the meta channels; nb_meta < #channels")
_MT("mt.rct_meta", ["C03", "C01"], MT_T, MT_TM, "rct_meta_contract",
  "bounded:channel lists of 2, 3, 4; begin_c 0..2; rct_type any parser value (<= 73)", ["Rct::transform_channel_info"],
  "Ok iff begin_c + 3 <= #channels and the three channels have equal sizes; Err is InvalidRctParams; the channel list is unchanged. "
  "(The code accepts rct_type 42..73, RCT across the meta boundary and unequal shifts; libjxl rejects those -- reported.)")
_MT("mt.sq_default_applied_rgb", ["C03", "C01"], MT_T, MT_TM, "sq_default_applied_rgb",
  "bounded:3 equal channels w x h, 1 <= w, h <= 16", ["TransformInfo::prepare_transform_info", "Squeeze::set_default_params", "Squeeze::transform_channel_info"],
  "prepare_transform_info of a default squeeze (num_sq = 0) is Ok; resulting list has 7 + 3*(steps) channels, luma / chroma sizes and shifts "
  "are the ceil halves per step, the non-in-place chroma residuals stay at the end of the list", timeout=300)
