# jxl-modular: transform parameter / channel-list bookkeeping (transform.rs) and palette per-sample values (transform/palette.rs)
MT_T = "crates/jxl-modular/src/transform.rs"; MT_TM = "kani/jxl-modular/transform.rs"
MT_P = "crates/jxl-modular/src/transform/palette.rs"; MT_PM = "kani/jxl-modular/palette.rs"

_MT_CRATE_ATTRS = ["#![feature(allocator_api)]"]  # transform.rs harness module has a generic Vec::push model (see there);
# inserted as line 1 of the scratch copy of crates/jxl-modular/src/lib.rs: line numbers reported for THAT file are +1.


def _MT(id, props, anchor, module, harness, kind, fns, contract, **kw):
    K(id, props, "jxl-modular", anchor, module, harness, kind, fns, contract, **kw)
    OBLIGATIONS[-1]["crate_attrs"] = _MT_CRATE_ATTRS


# ---- transform.rs: default squeeze parameters ----------------------------------------------------
_DSQ = ("requires: channel list non-empty, nb_meta_channels < number of channels (lib.rs:44,151; preserved by every transform, see "
        "mt.sq_meta_step_* / mt.palette_meta). ensures: when num_sq == 0 the derived step list equals libjxl's DefaultSqueezeParameters "
        "step for step (horizontal, in_place, begin_c, num_c): two non-in-place chroma steps on channels nb_meta+1, nb_meta+2 iff there "
        "are > 2 non-meta channels and channel nb_meta+1 has the size of channel nb_meta; then in-place steps over all non-meta channels, "
        "vertical first iff !(w > h) and h > 8, then alternating horizontal (while w > 8) / vertical (while h > 8) with w, h = ceil half "
        "per step; number of steps == chroma + ceil(log2(w/8)) + ceil(log2(h/8)) (closed form); the channel list is not modified; "
        "explicit parameters (num_sq > 0) are kept. ")
_PUSH = (" [Vec::push replaced by a capacity-checked no-realloc model on a pre-reserved parameter vector, justified by "
         "mt.vec_push_real / mt.vec_push_model; growth of the real capacity-0 vector is exercised by mt.sq_default_params_count]")
for _n, _what in (("gray", "1 channel"), ("rgb", "3 channels"), ("meta", "1 meta channel + 3 resp. 2 channels"),
                  ("rgba", "4 resp. 2 channels")):
    _MT("mt.sq_default_params_" + _n, ["C03", "C01"], MT_T, MT_TM, "sq_default_params_" + _n,
        "bounded:%s; channel sizes <= 1024 (<= 16 steps), all other fields symbolic" % _what,
        ["Squeeze::set_default_params"], _DSQ + _PUSH, timeout=300)
_MT("mt.sq_default_params_64k", ["C03", "C01"], MT_T, MT_TM, "sq_default_params_64k_rgb",
    "bounded:3 channels; channel sizes <= 65536 (<= 28 steps)", ["Squeeze::set_default_params"], _DSQ + _PUSH, tier="thorough", timeout=1200)
_MT("mt.sq_default_params_full", ["C03", "C01"], MT_T, MT_TM, "sq_default_params_full_rgb",
    "bounded:3 channels; complete over all 32-bit channel sizes", ["Squeeze::set_default_params"], _DSQ + _PUSH, tier="thorough", timeout=1200)
_MT("mt.sq_default_params_explicit", ["C03", "C01"], MT_T, MT_TM, "sq_default_params_explicit", "bounded:3 channels, one explicit step",
    ["Squeeze::set_default_params"], "num_sq > 0: the parsed parameter list is returned unchanged")
_CNT = ("number of derived steps == (2 iff > 2 non-meta channels and channel nb_meta+1 has the size of channel nb_meta) + ceil(log2(w/8)) + "
        "ceil(log2(h/8)) (0 below 9); the loop terminates; no overflow in the halving (step contents are not read back). ")
_MT("mt.sq_default_params_count", ["C03", "C01"], MT_T, MT_TM, "sq_default_params_count_full",
    "bounded:3 channels; complete over all 32-bit channel sizes", ["Squeeze::set_default_params"], _CNT + _PUSH)
_MT("mt.sq_default_params_count_realvec", ["C03", "C01"], MT_T, MT_TM, "sq_default_params_count_realvec",
    "bounded:3 channels; channel sizes <= 64; library Vec::push on the parser's capacity-0 vector (real growth path)",
    ["Squeeze::set_default_params"], _CNT)
_MT("mt.vec_push_real", ["C03"], MT_T, MT_TM, "vec_push_real_contract", "bounded:Vec<SqueezeParams> of capacity 4, length 0..3",
    ["Vec::push"], "library push: appends x, keeps earlier elements")
_MT("mt.vec_push_model", ["C03"], MT_T, MT_TM, "vec_push_model_contract", "bounded:Vec<SqueezeParams> of capacity 4, length 0..3",
    ["push_model"], "push model used by the mt.sq_default_params_* rows: same postcondition as mt.vec_push_real")

# ---- transform.rs: channel-list rewriting -------------------------------------------------------
_SQS = ("requires nb_meta_channels < 3 = number of channels; sizes, shifts (any i32) and direction symbolic. ensures: Ok iff libjxl's "
        "CheckMetaSqueezeParams + MetaSqueeze accept (range, no mix of meta / non-meta, meta channels only in place, no zero-sized channel, "
        "shifts <= 30), Err is InvalidSqueezeParams; on Ok: squeezed channel = ceil half, residual = floor half in the squeezed direction, "
        "shift of that direction +1 on both unless negative, residuals inserted right after begin_c+num_c-1 (in place) or appended (not in "
        "place) in channel order, every other channel unchanged, nb_meta_channels += num_c iff begin_c < nb_meta_channels, and "
        "nb_meta_channels < number of channels still holds")
for _h, _what in (("ip_b0n1", "in place, (begin_c, num_c) = (0, 1)"), ("ip_b0n2", "in place, (0, 2)"), ("ip_b1n1", "in place, (1, 1)"),
                  ("ip_tail", "in place, (0, 3), (1, 2), (2, 1) (no channel after endc)"),
                  ("ip_range", "in place, out-of-range (0, 4), (2, 2), (3, 1)"),
                  ("app_b0", "not in place, (0, 1), (0, 2), (0, 3)"), ("app_b12", "not in place, (1, 1), (1, 2), (2, 1)"),
                  ("app_range", "not in place, out-of-range (0, 4), (2, 2), (3, 1)")):
    _MT("mt.sq_meta_step_" + _h, ["C03", "C01"], MT_T, MT_TM, "sq_meta_step_" + _h,
        "bounded:channel list of 3, one step, %s; sizes, shifts, nb_meta_channels, direction symbolic" % _what,
        ["Squeeze::transform_channel_info"], _SQS, timeout=300)
_MT("mt.sq_meta_step_covers", ["C03"], MT_T, MT_TM, "sq_meta_step_covers",
  "bounded:channel list of 3, step (begin_c 0, num_c 2)", ["Squeeze::transform_channel_info"],
  "vacuity guards of mt.sq_meta_step_*: each acceptance / rejection reason is reachable; acceptance == MetaSqueeze", timeout=300)
_PALM = ("requires nb_meta_channels < 4, nb_colours <= 70911, nb_deltas <= 66816 (parser ranges). ensures: Ok iff begin_c+num_c <= #channels, not "
         "(begin_c < nb_meta <= endc), and all of begin_c..=endc have the size of channel begin_c (code compares sizes only; libjxl's "
         "CheckEqualChannels additionally compares shifts -- reported); Err is InvalidPaletteParams; on Ok: list = [nb_colours x num_c, "
         "shift -1] ++ old list without begin_c+1..=endc; nb_meta_channels += 1, or += 2 - num_c inside the meta channels; nb_meta < #channels")
for _h, _what in (("b0", "(begin_c, num_c) = (0, 1), (0, 2), (0, 3), (0, 4)"), ("b123", "(1, 1), (1, 3), (2, 2), (3, 1)"),
                  ("range", "out-of-range (0, 5), (3, 2), (4, 1)")):
    _MT("mt.palette_meta_" + _h, ["C03", "C01"], MT_T, MT_TM, "palette_meta_" + _h,
        "bounded:channel list of 4, %s; sizes / shifts / nb_meta_channels / nb_colours / nb_deltas symbolic" % _what,
        ["Palette::transform_channel_info"], _PALM, timeout=300)
_MT("mt.rct_meta", ["C03", "C01"], MT_T, MT_TM, "rct_meta_contract",
  "bounded:channel lists of 2, 3, 4; begin_c 0..2; rct_type any parser value (<= 73)", ["Rct::transform_channel_info"],
  "Ok iff begin_c + 3 <= #channels and the three channels have equal sizes; Err is InvalidRctParams; the channel list is unchanged. "
  "(The code accepts rct_type 42..73, RCT across the meta boundary and unequal shifts; libjxl rejects those -- reported.)")
_MT("mt.sq_meta_two_steps", ["C03", "C01"], MT_T, MT_TM, "sq_meta_two_steps",
    "bounded:channel list of 3, the two steps (H, not in place, 1, 2), (V, not in place, 1, 2) = the chroma steps of the default sequence",
    ["Squeeze::transform_channel_info"],
    "the step list is applied in order, each step to the channel list left by its predecessor (== MetaSqueeze o MetaSqueeze); accepted iff "
    "both steps are", timeout=300)

# ---- transform/palette.rs: per-sample values ----------------------------------------------------
_PV = ("requires: palette grid nb_colours x num_c, num_c target grids of one size, nb_deltas <= 66816 (parser range), d_pred = Zero; index = ANY "
       "i32. ensures: every output sample == libjxl GetPaletteValue(index, c, nb_colours, min(bitdepth, 24)) in mathematical integers: "
       "index < 0: kDeltaPalette[(i+1)>>1][c] * (i odd ? 1 : -1), i = (-(index+1)) % 143, times 1 << (min(bitdepth,24) - 8) above 8 bit; "
       "0 <= index < nb_colours: palette(index, c); nb_colours <= index < nb_colours+64: ((index-nb_colours) >> 2c) % 4 * (2^bitdepth - 1) / 4 "
       "+ (1 << max(0, bitdepth-3)); index >= nb_colours+64: ((index-nb_colours-64) / 5^c) % 5 * (2^bitdepth - 1) / 4; 0 for c >= 3 in every "
       "implicit case; no panic. ")
for _h, _geo, _what in (
        ("rgb_explicit", "num_c 3, nb_colours 2, 2 pixels", "one pixel explicit (both explicit = fast path inverse_simple), the other any"),
        ("rgb_delta", "num_c 3, nb_colours 2, 2 pixels", "one pixel a delta entry (index < 0), the other any"),
        ("rgb_small_cube", "num_c 3, nb_colours 2, 2 pixels", "one pixel in the 4x4x4 cube, the other any"),
        ("rgb_large_cube", "num_c 3, nb_colours 2, 2 pixels", "one pixel in the 5x5x5 cube (incl. index up to i32::MAX), the other any"),
        ("rgb_nbc0", "num_c 3, nb_colours 0 (zero-width palette grid), 1 pixel", "any index"),
        ("gray", "num_c 1, nb_colours 3, 2 pixels", "any indices"),
        ("extra_explicit", "num_c 5, nb_colours 2, 1 pixel", "explicit entry, channels c = 3, 4"),
        ("extra_delta", "num_c 5, nb_colours 2, 1 pixel", "delta entry, channels c = 3, 4 (0)"),
        ("extra_small_cube", "num_c 5, nb_colours 2, 1 pixel", "4x4x4 cube entry, channels c = 3, 4 (libjxl: 0)"),
        ("extra_large_cube", "num_c 5, nb_colours 2, 1 pixel", "5x5x5 cube entry, channels c = 3, 4 (libjxl: 0)")):
    K("mt.pal_value_" + _h, ["C03", "C01"], "jxl-modular", MT_P, MT_PM, "pal_value_" + _h,
      "bounded:%s; complete over sample / index values and bit depth 1..=24; %s" % (_geo, _what),
      ["Palette::inverse_inner", "inverse_simple"], _PV, timeout=300)
K("mt.pal_value_hibd_delta", ["C03", "C01"], "jxl-modular", MT_P, MT_PM, "pal_value_hibd_delta",
  "bounded:num_c 3, nb_colours 1, 1 pixel; bit depth 25..=32, every negative index", ["Palette::inverse_inner"],
  "delta entries above 24 bit are scaled by 1 << 16 (bit depth clamped to 24; libjxl and the standard's pseudo-code agree)")
K("mt.pal_value_hibd_explicit", ["C03", "C01"], "jxl-modular", MT_P, MT_PM, "pal_value_hibd_explicit",
  "bounded:num_c 3, nb_colours 1, 1 pixel; bit depth 25..=32", ["Palette::inverse_inner", "inverse_simple"],
  "explicit entries are looked up independent of the bit depth")
for _h, _w in (("small", "4x4x4"), ("large", "5x5x5")):
    K("mt.pal_value_hibd_%s_cube" % _h, ["C03", "C01"], "jxl-modular", MT_P, MT_PM, "pal_value_hibd_%s_cube" % _h,
      "bounded:num_c 3, nb_colours 1, 1 pixel; bit depth 25..=29, every index of the %s cube" % _w, ["Palette::inverse_inner"],
      "implicit cube entry == the formula at the UNCLAMPED bit depth in mathematical integers (standard's pseudo-code / property text). "
      "NOTE: libjxl (InvPalette, from memory) clamps the bit depth to 24 for every branch; the two references differ above 24 bit, "
      "this row pins the code's present, standard-conformant behaviour")
K("mt.pal_total_hibd", ["C01", "C03"], "jxl-modular", MT_P, MT_PM, "pal_total_hibd",
  "bounded:num_c 3, nb_colours 1, 1 pixel; bit depth 25..=32 (31 = largest integer depth, 32 = float), every index",
  ["Palette::inverse_inner"],
  "no panic for any index at any bit depth the image header can carry (jxl-image lib.rs:517-541); explicit entries looked up")
K("mt.pal_total_many_channels", ["C01", "C03"], "jxl-modular", MT_P, MT_PM, "pal_total_many_channels",
  "bounded:num_c 17 (parser allows 8192), nb_colours 0, 1 pixel; bit depth 1..=24, every index", ["Palette::inverse_inner"],
  "no panic for palettes of more than 16 channels (shift amount 2*c)")
_PD = ("2x2 image, nb_colours 1, 8 bit, nb_deltas any parser value, indices any i32: every output sample == GetPaletteValue + (index < nb_deltas "
       "? prediction of d_pred from the reconstructed output samples W, N, NW with the H.3 edge rules : 0), wrapped to 32 bits; samples with "
       "index >= nb_deltas get no prediction; negative indices always do. The predictors' own arithmetic is md.pred_arith_*; "
       "d_pred = SelfCorrecting (weighted) is NOT covered")
for _h, _nc in (("west", 2), ("north", 2), ("gradient", 2), ("avg", 1), ("select", 1)):
    K("mt.pal_delta_pred_" + _h, ["C03", "C01"], "jxl-modular", MT_P, MT_PM, "pal_delta_pred_" + _h,
      "bounded:image 2x2, num_c %d, nb_colours 1, bit depth 8; complete over indices / palette values / nb_deltas" % _nc,
      ["Palette::inverse_inner", "PredictorState::properties", "Predictor::predict", "Properties::record"], _PD, timeout=300)
