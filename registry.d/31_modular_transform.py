# jxl-modular: transform parameter / channel-list bookkeeping (transform.rs) and palette per-sample values (transform/palette.rs)
MT_T = "crates/jxl-modular/src/transform.rs"; MT_TM = "kani/jxl-modular/transform.rs"
MT_P = "crates/jxl-modular/src/transform/palette.rs"; MT_PM = "kani/jxl-modular/palette.rs"

# ---- transform.rs: default squeeze parameters ----------------------------------------------------
_DSQ = ("requires: channel list non-empty, nb_meta_channels < number of channels (lib.rs:44,151; preserved by every transform, see "
        "mt.sq_meta_step_* / mt.palette_meta). ensures: when num_sq == 0 the derived step list equals libjxl's DefaultSqueezeParameters "
        "step for step (horizontal, in_place, begin_c, num_c): two non-in-place chroma steps on channels nb_meta+1, nb_meta+2 iff there "
        "are > 2 non-meta channels and channel nb_meta+1 has the size of channel nb_meta; then in-place steps over all non-meta channels, "
        "vertical first iff !(w > h) and h > 8, then alternating horizontal (while w > 8) / vertical (while h > 8) with w, h = ceil half "
        "per step; number of steps == chroma + ceil(log2(w/8)) + ceil(log2(h/8)) (closed form); the channel list is not modified; "
        "explicit parameters (num_sq > 0) are kept. ")
for _n, _what in (("gray", "1 channel"), ("rgb", "3 channels"), ("meta", "1 meta channel + 3 resp. 2 channels"),
                  ("rgba", "4 resp. 2 channels")):
    K("mt.sq_default_params_" + _n, ["C03", "C01"], "jxl-modular", MT_T, MT_TM, "sq_default_params_full_" + _n,
      "bounded:%s; complete over all 32-bit channel sizes; parameter vector pre-reserved (capacity 64, so Vec growth is not modelled)" % _what,
      ["Squeeze::set_default_params"], _DSQ, timeout=300)
K("mt.sq_default_params_realloc", ["C03", "C01"], "jxl-modular", MT_T, MT_TM, "sq_default_params_realloc",
  "bounded:3 channels, sizes <= 64 (<= 8 steps); parameter vector as the parser leaves it (capacity 0, grows by reallocation)",
  ["Squeeze::set_default_params"], _DSQ, timeout=300)

# ---- transform.rs: channel-list rewriting -------------------------------------------------------
_SQS = ("requires nb_meta_channels < 3 = number of channels; sizes, shifts (any i32) and direction symbolic. ensures: Ok iff libjxl's "
        "CheckMetaSqueezeParams + MetaSqueeze accept (range, no mix of meta / non-meta, meta channels only in place, no zero-sized channel, "
        "shifts <= 30), Err is InvalidSqueezeParams; on Ok: squeezed channel = ceil half, residual = floor half in the squeezed direction, "
        "shift of that direction +1 on both unless negative, residuals inserted right after begin_c+num_c-1 (in place) or appended (not in "
        "place) in channel order, every other channel unchanged, nb_meta_channels += num_c iff begin_c < nb_meta_channels, and "
        "nb_meta_channels < number of channels still holds")
K("mt.sq_meta_step_in_place", ["C03", "C01"], "jxl-modular", MT_T, MT_TM, "sq_meta_step_in_place",
  "bounded:channel list of 3, one step, every (begin_c, num_c) with begin_c <= 3, num_c <= 4 incl. out-of-range ones; in_place = true",
  ["Squeeze::transform_channel_info"], _SQS, timeout=300)
K("mt.sq_meta_step_appended", ["C03", "C01"], "jxl-modular", MT_T, MT_TM, "sq_meta_step_appended",
  "bounded:channel list of 3, one step, every (begin_c, num_c) with begin_c <= 3, num_c <= 4 incl. out-of-range ones; in_place = false",
  ["Squeeze::transform_channel_info"], _SQS, timeout=300)
K("mt.sq_meta_step_covers", ["C03"], "jxl-modular", MT_T, MT_TM, "sq_meta_step_covers",
  "bounded:channel list of 3, step (begin_c 0, num_c 2)", ["Squeeze::transform_channel_info"],
  "vacuity guards of mt.sq_meta_step_*: each acceptance / rejection reason is reachable; acceptance == MetaSqueeze", timeout=300)
K("mt.palette_meta", ["C03", "C01"], "jxl-modular", MT_T, MT_TM, "palette_meta_contract",
  "bounded:channel list of 4, every (begin_c, num_c) shape incl. out-of-range ones; sizes / shifts / nb_colours / nb_deltas symbolic",
  ["Palette::transform_channel_info"],
  "requires nb_meta_channels < 4, nb_colours <= 70911, nb_deltas <= 66816 (parser ranges). ensures: Ok iff begin_c+num_c <= #channels, not "
  "(begin_c < nb_meta <= endc), and all of begin_c..=endc have the size of channel begin_c (code compares sizes only; libjxl's "
  "CheckEqualChannels additionally compares shifts -- reported); Err is InvalidPaletteParams; on Ok: list = [nb_colours x num_c, "
  "shift -1] ++ old list without begin_c+1..=endc; nb_meta_channels += 1, or += 2 - num_c inside the meta channels; nb_meta < #channels")
K("mt.rct_meta", ["C03", "C01"], "jxl-modular", MT_T, MT_TM, "rct_meta_contract",
  "bounded:channel lists of 2, 3, 4; begin_c 0..2; rct_type any parser value (<= 73)", ["Rct::transform_channel_info"],
  "Ok iff begin_c + 3 <= #channels and the three channels have equal sizes; Err is InvalidRctParams; the channel list is unchanged. "
  "(The code accepts rct_type 42..73, RCT across the meta boundary and unequal shifts; libjxl rejects those -- reported.)")
K("mt.sq_default_applied_rgb", ["C03", "C01"], "jxl-modular", MT_T, MT_TM, "sq_default_applied_rgb",
  "bounded:3 equal channels w x h, 1 <= w, h <= 16", ["TransformInfo::prepare_transform_info", "Squeeze::set_default_params", "Squeeze::transform_channel_info"],
  "prepare_transform_info of a default squeeze (num_sq = 0) is Ok; resulting list has 7 + 3*(steps) channels, luma / chroma sizes and shifts "
  "are the ceil halves per step, the non-in-place chroma residuals stay at the end of the list", timeout=300)
