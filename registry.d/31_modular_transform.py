# jxl-modular: transform parameter / channel-list bookkeeping (transform.rs) and palette per-sample values (transform/palette.rs)
MT_T = "crates/jxl-modular/src/transform.rs"; MT_TM = "kani/jxl-modular/transform.rs"
MT_P = "crates/jxl-modular/src/transform/palette.rs"; MT_PM = "kani/jxl-modular/palette.rs"

_MT_CRATE_ATTRS = ["#![feature(allocator_api)]"]  # transform.rs harness module has a generic Vec::push model (see there);
# inserted as line 1 of the scratch copy of crates/jxl-modular/src/lib.rs: line numbers reported for THAT file are +1.


def _MT(id, props, anchor, module, harness, kind, fns, contract, **kw):
    K(id, props, "jxl-modular", anchor, module, harness, kind, fns, contract, **kw)
    OBLIGATIONS[-1]["crate_attrs"] = _MT_CRATE_ATTRS


# ---- transform.rs: default squeeze parameters ----------------------------------------------------
_DSQ = ("requires: channel list non-empty, nb_meta_channels < number of channels (lib.rs:44,151; preserved by every transform, see "
        "mt.sq_meta_step_* / mt.palette_meta). ensures: when num_sq == 0 the derived step list equals libjxl's DefaultSqueezeParameters "
        "step for step (horizontal, in_place, begin_c, num_c): two non-in-place chroma steps on channels nb_meta+1, nb_meta+2 iff there "
        "are > 2 non-meta channels and channel nb_meta+1 has the size of channel nb_meta; then in-place steps over all non-meta channels, "
        "vertical first iff !(w > h) and h > 8, then alternating horizontal (while w > 8) / vertical (while h > 8) with w, h = ceil half "
        "per step; number of steps == chroma + ceil(log2(w/8)) + ceil(log2(h/8)) (closed form); the channel list is not modified; "
        "explicit parameters (num_sq > 0) are kept. ")
_PUSH = (" [Vec::push replaced by a capacity-checked no-realloc model on a pre-reserved parameter vector, justified by "
         "mt.vec_push_real / mt.vec_push_model; growth of the real capacity-0 vector is exercised by mt.sq_default_params_count]")
for _n, _what in (("gray", "1 channel"), ("rgb", "3 channels"), ("meta", "1 meta channel + 3 resp. 2 channels"),
                  ("rgba", "4 resp. 2 channels")):
    _MT("mt.sq_default_params_" + _n, ["C03", "C01"], MT_T, MT_TM, "sq_default_params_" + _n,
        "bounded:%s; channel sizes <= 1024 (<= 16 steps), all other fields symbolic" % _what,
        ["Squeeze::set_default_params"], _DSQ + _PUSH, timeout=300)
_MT("mt.sq_default_params_64k", ["C03", "C01"], MT_T, MT_TM, "sq_default_params_64k_rgb",
    "bounded:3 channels; channel sizes <= 65536 (<= 28 steps)", ["Squeeze::set_default_params"], _DSQ + _PUSH, tier="thorough", timeout=1200)
_MT("mt.sq_default_params_full", ["C03", "C01"], MT_T, MT_TM, "sq_default_params_full_rgb",
    "bounded:3 channels; complete over all 32-bit channel sizes", ["Squeeze::set_default_params"], _DSQ + _PUSH, tier="thorough", timeout=1200)
_MT("mt.sq_default_params_explicit", ["C03", "C01"], MT_T, MT_TM, "sq_default_params_explicit", "bounded:3 channels, one explicit step",
    ["Squeeze::set_default_params"], "num_sq > 0: the parsed parameter list is returned unchanged")
_CNT = ("number of derived steps == (2 iff > 2 non-meta channels and channel nb_meta+1 has the size of channel nb_meta) + ceil(log2(w/8)) + "
        "ceil(log2(h/8)) (0 below 9); the loop terminates; no overflow in the halving (step contents are not read back). ")
_MT("mt.sq_default_params_count", ["C03", "C01"], MT_T, MT_TM, "sq_default_params_count_full",
    "bounded:3 channels; complete over all 32-bit channel sizes", ["Squeeze::set_default_params"], _CNT + _PUSH)
_MT("mt.sq_default_params_count_realvec", ["C03", "C01"], MT_T, MT_TM, "sq_default_params_count_realvec",
    "bounded:3 channels; channel sizes <= 64; library Vec::push on the parser's capacity-0 vector (real growth path)",
    ["Squeeze::set_default_params"], _CNT)
_MT("mt.vec_push_real", ["C03"], MT_T, MT_TM, "vec_push_real_contract", "bounded:Vec<SqueezeParams> of capacity 4, length 0..3",
    ["Vec::push"], "library push: appends x, keeps earlier elements")
_MT("mt.vec_push_model", ["C03"], MT_T, MT_TM, "vec_push_model_contract", "bounded:Vec<SqueezeParams> of capacity 4, length 0..3",
    ["push_model"], "push model used by the mt.sq_default_params_* rows: same postcondition as mt.vec_push_real")

# ---- transform.rs: channel-list rewriting -------------------------------------------------------
_SQS = ("requires nb_meta_channels < 3 = number of channels; sizes, shifts (any i32) and direction symbolic. ensures: Ok iff libjxl's "
        "CheckMetaSqueezeParams + MetaSqueeze accept (range, no mix of meta / non-meta, meta channels only in place, no zero-sized channel, "
        "shifts <= 30), Err is InvalidSqueezeParams; on Ok: squeezed channel = ceil half, residual = floor half in the squeezed direction, "
        "shift of that direction +1 on both unless negative, residuals inserted right after begin_c+num_c-1 (in place) or appended (not in "
        "place) in channel order, every other channel unchanged, nb_meta_channels += num_c iff begin_c < nb_meta_channels, and "
        "nb_meta_channels < number of channels still holds")
for _h, _what in (("ip_b0n1", "in place, (begin_c, num_c) = (0, 1)"), ("ip_b0n2", "in place, (0, 2)"), ("ip_b1n1", "in place, (1, 1)"),
                  ("ip_tail", "in place, (0, 3), (1, 2), (2, 1) (no channel after endc)"),
                  ("ip_range", "in place, out-of-range (0, 4), (2, 2), (3, 1)"),
                  ("app_b0", "not in place, (0, 1), (0, 2), (0, 3)"), ("app_b12", "not in place, (1, 1), (1, 2), (2, 1)"),
                  ("app_range", "not in place, out-of-range (0, 4), (2, 2), (3, 1)")):
    _MT("mt.sq_meta_step_" + _h, ["C03", "C01"], MT_T, MT_TM, "sq_meta_step_" + _h,
        "bounded:channel list of 3, one step, %s; sizes, shifts, nb_meta_channels, direction symbolic" % _what,
        ["Squeeze::transform_channel_info"], _SQS, timeout=300)
_MT("mt.sq_meta_step_covers", ["C03"], MT_T, MT_TM, "sq_meta_step_covers",
  "bounded:channel list of 3, step (begin_c 0, num_c 2)", ["Squeeze::transform_channel_info"],
  "vacuity guards of mt.sq_meta_step_*: each acceptance / rejection reason is reachable; acceptance == MetaSqueeze", timeout=300)
_PALM = ("requires nb_meta_channels < 4, nb_colours <= 70911, nb_deltas <= 66816 (parser ranges). ensures: Ok iff begin_c+num_c <= #channels, not "
         "(begin_c < nb_meta <= endc), and all of begin_c..=endc have the size of channel begin_c (code compares sizes only; libjxl's "
         "CheckEqualChannels additionally compares shifts -- reported); Err is InvalidPaletteParams; on Ok: list = [nb_colours x num_c, "
         "shift -1] ++ old list without begin_c+1..=endc; nb_meta_channels += 1, or += 2 - num_c inside the meta channels; nb_meta < #channels")
for _h, _what in (("b0a", "(begin_c, num_c) = (0, 1), (0, 2)"), ("b0b", "(0, 3), (0, 4)"), ("b1", "(1, 1), (1, 3)"), ("b23", "(2, 2), (3, 1)"),
                  ("range", "out-of-range (0, 5), (3, 2), (4, 1)")):
    _MT("mt.palette_meta_" + _h, ["C03", "C01"], MT_T, MT_TM, "palette_meta_" + _h,
        "bounded:channel list of 4, %s; sizes / shifts / nb_meta_channels / nb_colours / nb_deltas symbolic" % _what,
        ["Palette::transform_channel_info"], _PALM, timeout=300)
_MT("mt.rct_meta", ["C03", "C01"], MT_T, MT_TM, "rct_meta_contract",
  "bounded:channel lists of 2, 3, 4; begin_c 0..2; rct_type any parser value (<= 73)", ["Rct::transform_channel_info"],
  "Ok iff begin_c + 3 <= #channels and the three channels have equal sizes; Err is InvalidRctParams; the channel list is unchanged. "
  "(The code accepts rct_type 42..73, RCT across the meta boundary and unequal shifts; libjxl rejects those -- reported.)")
_MT("mt.sq_meta_two_steps", ["C03", "C01"], MT_T, MT_TM, "sq_meta_two_steps",
    "bounded:channel list of 3, the two steps (H, not in place, 1, 2), (V, not in place, 1, 2) = the chroma steps of the default sequence",
    ["Squeeze::transform_channel_info"],
    "the step list is applied in order, each step to the channel list left by its predecessor (== MetaSqueeze o MetaSqueeze); accepted iff "
    "both steps are", timeout=300)

# ---- transform/palette.rs: per-sample values ----------------------------------------------------
_PV = ("requires: palette grid nb_colours x num_c, num_c target grids of one size, nb_deltas <= 66816 (parser range), d_pred = Zero; index = ANY "
       "i32. ensures: every output sample == libjxl GetPaletteValue(index, c, nb_colours, min(bitdepth, 24)) in mathematical integers: "
       "index < 0: kDeltaPalette[(i+1)>>1][c] * (i odd ? 1 : -1), i = (-(index+1)) % 143, times 1 << (min(bitdepth,24) - 8) above 8 bit; "
       "0 <= index < nb_colours: palette(index, c); nb_colours <= index < nb_colours+64: ((index-nb_colours) >> 2c) % 4 * (2^bitdepth - 1) / 4 "
       "+ (1 << max(0, bitdepth-3)); index >= nb_colours+64: ((index-nb_colours-64) / 5^c) % 5 * (2^bitdepth - 1) / 4; 0 for c >= 3 in every "
       "implicit case; no panic. ")
for _h, _geo, _what, _tier in (
        ("rgb_explicit", "num_c 3, nb_colours 2, 2 pixels", "both pixels explicit: the fast path inverse_simple", "quick"),
        ("rgb_mixed", "num_c 2, nb_colours 2, 2 pixels", "pixel 0 explicit, pixel 1 in the 4x4x4 cube: explicit entries on the slow path", "quick"),
        ("rgb_delta", "num_c 3, nb_colours 2, 1 pixel", "delta entries, -65536 <= index < 0", "quick"),
        ("rgb_delta_full", "num_c 3, nb_colours 2, 1 pixel", "delta entries, every negative index", "thorough"),
        ("rgb_small_cube", "num_c 3, nb_colours 2, 1 pixel", "every index of the 4x4x4 cube", "quick"),
        ("rgb_large_cube", "num_c 3, nb_colours 2, 1 pixel", "every index of the 5x5x5 cube (up to i32::MAX)", "quick"),
        ("rgb_nbc0_small", "num_c 3, nb_colours 0 (zero-width palette grid), 1 pixel", "4x4x4 cube", "quick"),
        ("rgb_nbc0_large", "num_c 3, nb_colours 0 (zero-width palette grid), 1 pixel", "5x5x5 cube", "quick"),
        ("gray", "num_c 1, nb_colours 3, 1 pixel", "any index", "quick"),
        ("extra_explicit", "num_c 5, nb_colours 2, 1 pixel", "explicit entry, channels c = 3, 4", "quick"),
        ("extra_delta", "num_c 5, nb_colours 2, 1 pixel", "delta entry, channels c = 3, 4 (0)", "quick"),
        ("extra_small_cube", "num_c 5, nb_colours 2, 1 pixel", "4x4x4 cube entry, channels c = 3, 4 (libjxl: 0)", "quick"),
        ("extra_large_cube", "num_c 5, nb_colours 2, 1 pixel", "5x5x5 cube entry, channels c = 3, 4 (libjxl: 0)", "quick")):
    K("mt.pal_value_" + _h, ["C03", "C01"], "jxl-modular", MT_P, MT_PM, "pal_value_" + _h,
      "bounded:%s; complete over sample values and bit depth 1..=24; %s" % (_geo, _what),
      ["Palette::inverse_inner", "inverse_simple"], _PV, tier=_tier, timeout=300 if _tier == "quick" else 1200)
K("mt.pal_value_hibd_delta", ["C03", "C01"], "jxl-modular", MT_P, MT_PM, "pal_value_hibd_delta",
  "bounded:num_c 3, nb_colours 1, 1 pixel; bit depth 25..=32, -65536 <= index < 0", ["Palette::inverse_inner"],
  "delta entries above 24 bit are scaled by 1 << 16 (bit depth clamped to 24; libjxl and the standard's pseudo-code agree)")
K("mt.pal_value_hibd_explicit", ["C03", "C01"], "jxl-modular", MT_P, MT_PM, "pal_value_hibd_explicit",
  "bounded:num_c 3, nb_colours 1, 1 pixel; bit depth 25..=32", ["Palette::inverse_inner", "inverse_simple"],
  "explicit entries are looked up independent of the bit depth")
for _h, _w in (("small", "4x4x4"), ("large", "5x5x5")):
    K("mt.pal_value_hibd_%s_cube" % _h, ["C03", "C01"], "jxl-modular", MT_P, MT_PM, "pal_value_hibd_%s_cube" % _h,
      "bounded:num_c 3, nb_colours 1, 1 pixel; bit depth 25..=29, every index of the %s cube" % _w, ["Palette::inverse_inner"],
      "implicit cube entry == the formula at the UNCLAMPED bit depth in mathematical integers (standard's pseudo-code / property text). "
      "NOTE: libjxl (InvPalette, from memory) clamps the bit depth to 24 for every branch; the two references differ above 24 bit, "
      "this row pins the code's present, standard-conformant behaviour")
K("mt.pal_total_hibd", ["C01", "C03"], "jxl-modular", MT_P, MT_PM, "pal_total_hibd",
  "bounded:num_c 3, nb_colours 1, 1 pixel; bit depth 25..=32 (31 = largest integer depth, 32 = float), every index",
  ["Palette::inverse_inner"],
  "no panic for any index at any bit depth the image header can carry (jxl-image lib.rs:517-541); explicit entries looked up")
K("mt.pal_total_many_channels", ["C01", "C03"], "jxl-modular", MT_P, MT_PM, "pal_total_many_channels",
  "bounded:num_c 17 (parser allows 8192), nb_colours 0, 1 pixel; bit depth 1..=24, every index", ["Palette::inverse_inner"],
  "no panic for palettes of more than 16 channels (shift amount 2*c)")
_PD = ("nb_colours 1, 8 bit, nb_deltas any parser value, indices any i32: every output sample == GetPaletteValue + (index < nb_deltas "
       "? prediction of d_pred from the reconstructed output samples W, N, NW with the H.3 edge rules : 0), wrapped to 32 bits; samples with "
       "index >= nb_deltas get no prediction; negative indices and explicit indices below nb_deltas always do. The predictors' own "
       "arithmetic is md.pred_arith_*; d_pred = SelfCorrecting (weighted) is NOT covered")
for _h, _geo, _tier in (("west_2x1_small", "image 2x1, num_c 1, |index| <= 255", "quick"),
                        ("north_1x2_small", "image 1x2, num_c 1, |index| <= 255", "quick"),
                        ("west_2x1", "image 2x1, num_c 1, every i32 index", "thorough"),
                        ("north_1x2", "image 1x2, num_c 1, every i32 index", "thorough"),
                        ("west_2x1_2ch", "image 2x1, num_c 2 (predictor state restarts per channel), |index| <= 255", "thorough"),
                        ("avg_2x1", "image 2x1, num_c 1, every i32 index", "thorough")):
    K("mt.pal_delta_pred_" + _h, ["C03", "C01"], "jxl-modular", MT_P, MT_PM, "pal_delta_pred_" + _h,
      "bounded:%s, nb_colours 1, bit depth 8; at least one index is NOT an explicit entry (slow path); complete over "
      "palette values / nb_deltas" % _geo,
      ["Palette::inverse_inner", "PredictorState::properties", "Predictor::predict", "Properties::record"], _PD,
      tier=_tier, timeout=300 if _tier == "quick" else 1200)
for _h, _geo in (("west_2x1", "image 2x1"), ("north_1x2", "image 1x2")):
    K("mt.pal_delta_all_explicit_" + _h, ["C03", "C01"], "jxl-modular", MT_P, MT_PM, "pal_delta_all_explicit_" + _h,
      "bounded:%s, num_c 1, nb_colours 1, bit depth 8; EVERY index is an explicit entry (the code's fast path inverse_simple); complete "
      "over palette values / nb_deltas" % _geo, ["Palette::inverse_inner", "inverse_simple"],
      _PD + ". Same postcondition as mt.pal_delta_pred_*, on the other half of the input space: explicit entries below nb_deltas are "
      "delta entries too (libjxl takes its fast path only if nb_deltas == 0 && predictor == Zero)")

# ---- transform.rs: what the bundle parsers accept (ranges assumed by the rows above) ------------------
_MT("mt.parse_rct", ["C03", "C01"], MT_T, MT_TM, "parse_rct_ranges", "bounded:8 symbolic bytes (longest form 23 bits)", ["<Rct as Bundle>::parse"],
    "every bit pattern parses; begin_c <= 9287, rct_type <= 73 -- NO rejection of rct_type >= 42 (cover shows they are accepted; libjxl rejects them; "
    "Rct::inverse then uses permutation = rct_type / 7 >= 6 as the identity permutation)")
_MT("mt.parse_squeeze_params", ["C03", "C01"], MT_T, MT_TM, "parse_squeeze_params_ranges", "bounded:8 symbolic bytes (longest form 23 bits)",
    ["<SqueezeParams as Bundle>::parse"], "every bit pattern parses; begin_c <= 9287, 1 <= num_c <= 19")
_MT("mt.parse_palette", ["C03", "C01"], MT_T, MT_TM, "parse_palette_ranges", "bounded:12 symbolic bytes (longest form 70 bits)",
    ["<Palette as Bundle>::parse"],
    "Ok: begin_c <= 9287, 1 <= num_c <= 8192, nb_colours <= 70911, nb_deltas <= 66816, d_pred one of the 14 predictors, wp_header kept iff "
    "d_pred = SelfCorrecting; Err only as Error::Bitstream (d_pred = 14, 15). No relation between nb_deltas and nb_colours is enforced")

# Quick-tier budget: the mt.* rows serve C03 first; under C01 (no panic) they add nothing the two totality rows and the parser rows
# do not already say for the quick tier, so only those run in `./check C01 --tier quick` (all of them run in the thorough tier).
for _o in OBLIGATIONS:
    if _o["id"].startswith("mt.") and "C01" in _o["props"] and _o["id"] not in (
            "mt.pal_total_hibd", "mt.pal_total_many_channels", "mt.parse_rct", "mt.parse_squeeze_params", "mt.parse_palette",
            "mt.sq_default_params_count", "mt.pal_value_gray"):
        _o["quick_props"] = ["C03"]
