# Verus rows (unbounded proofs on functions extracted mechanically from the real source)
V("icc.shuffle", ["C18", "C01"], "crates/jxl-color/src/icc/decode.rs", ["shuffle2", "shuffle4"], "verus/icc_shuffle.spec",
  "for every length: output length == input length and output byte j == input byte shuffle_src(w, n, j) "
  "(transposition of the w-row matrix whose last column lacks its bottom elements); no index out of bounds, "
  "no arithmetic overflow, both functions terminate")
