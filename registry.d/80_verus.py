# Verus rows (unbounded proofs on functions extracted mechanically from the real source)
V("icc.shuffle", ["C18", "C01"], "crates/jxl-color/src/icc/decode.rs", ["shuffle2", "shuffle4"], "verus/icc_shuffle.spec",
  "for every length: output length == input length and output byte j == input byte shuffle_src(w, n, j) "
  "(transposition of the w-row matrix whose last column lacks its bottom elements); no index out of bounds, "
  "no arithmetic overflow, both functions terminate")
V("rd.mirror", ["C01"], "crates/jxl-render/src/util.rs", ["mirror"], "verus/render_mirror.spec",
  "requires 0 < len <= 2^62-1, isize::MIN < offset < isize::MAX; ensures result < len, terminates (decreases measure), no overflow")
