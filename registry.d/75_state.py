# C08: render-handle protocol (orchestrator-written). One instantiation per initial state (exhaustive over the
# five states satisfying the invariant): CBMC does not terminate with a symbolic state.
_IM = "crates/jxl-render/src/image.rs"; _IMM = "kani/jxl-render/image.rs"
_US = [(r"try_from_fn_erased.*SpecArrayClone", 5)]
_st = " | stubs (assumed contracts): render_op/composite/composite_preprocess return any Ok/Err and do not touch the handle; Condvar::wait = wedge"
K("st.run_with_image.none", ["C08"], "jxl-render", _IM, _IMM, "handle_rwi_none", "complete", ['FrameRenderHandle::run_with_image', 'FrameRenderHandle::start_render', 'FrameRenderHandle::done_render', 'FrameRenderHandle::wait_until_render'], "initial state none: requires state != Rendering; ensures state != Rendering on Ok and Err; never reaches Condvar::wait" + _st, timeout=1500)
K("st.run_with_image.done", ["C08"], "jxl-render", _IM, _IMM, "handle_rwi_done", "complete", ['FrameRenderHandle::run_with_image', 'FrameRenderHandle::start_render', 'FrameRenderHandle::done_render', 'FrameRenderHandle::wait_until_render'], "initial state done: requires state != Rendering; ensures state != Rendering on Ok and Err; never reaches Condvar::wait" + _st, timeout=1500)
K("st.run_with_image.blended", ["C08"], "jxl-render", _IM, _IMM, "handle_rwi_blended", "complete", ['FrameRenderHandle::run_with_image', 'FrameRenderHandle::start_render', 'FrameRenderHandle::done_render', 'FrameRenderHandle::wait_until_render'], "initial state blended: requires state != Rendering; ensures state != Rendering on Ok and Err; never reaches Condvar::wait" + _st, timeout=1500)
K("st.run_with_image.err", ["C08"], "jxl-render", _IM, _IMM, "handle_rwi_err", "complete", ['FrameRenderHandle::run_with_image', 'FrameRenderHandle::start_render', 'FrameRenderHandle::done_render', 'FrameRenderHandle::wait_until_render'], "initial state err: requires state != Rendering; ensures state != Rendering on Ok and Err; never reaches Condvar::wait" + _st, timeout=1500)
K("st.run_with_image.errtaken", ["C08"], "jxl-render", _IM, _IMM, "handle_rwi_errtaken", "complete", ['FrameRenderHandle::run_with_image', 'FrameRenderHandle::start_render', 'FrameRenderHandle::done_render', 'FrameRenderHandle::wait_until_render'], "initial state errtaken: requires state != Rendering; ensures state != Rendering on Ok and Err; never reaches Condvar::wait" + _st, timeout=1500)
K("st.run.none", ["C08"], "jxl-render", _IM, _IMM, "handle_run_none", "complete", ['FrameRenderHandle::run', 'FrameRenderHandle::start_render_silent', 'FrameRenderHandle::done_render'], "initial state none: requires state != Rendering; ensures state != Rendering" + _st, timeout=1500)
K("st.run.done", ["C08"], "jxl-render", _IM, _IMM, "handle_run_done", "complete", ['FrameRenderHandle::run', 'FrameRenderHandle::start_render_silent', 'FrameRenderHandle::done_render'], "initial state done: requires state != Rendering; ensures state != Rendering" + _st, timeout=1500)
K("st.run.blended", ["C08"], "jxl-render", _IM, _IMM, "handle_run_blended", "complete", ['FrameRenderHandle::run', 'FrameRenderHandle::start_render_silent', 'FrameRenderHandle::done_render'], "initial state blended: requires state != Rendering; ensures state != Rendering" + _st, timeout=1500)
K("st.run.err", ["C08"], "jxl-render", _IM, _IMM, "handle_run_err", "complete", ['FrameRenderHandle::run', 'FrameRenderHandle::start_render_silent', 'FrameRenderHandle::done_render'], "initial state err: requires state != Rendering; ensures state != Rendering" + _st, timeout=1500)
K("st.run.errtaken", ["C08"], "jxl-render", _IM, _IMM, "handle_run_errtaken", "complete", ['FrameRenderHandle::run', 'FrameRenderHandle::start_render_silent', 'FrameRenderHandle::done_render'], "initial state errtaken: requires state != Rendering; ensures state != Rendering" + _st, timeout=1500)
K("st.blend.none", ["C08"], "jxl-render", _IM, _IMM, "handle_blend_none", "complete", ['RenderedImage::blend', 'FrameRenderHandle::wait_until_render', 'FrameRenderHandle::done_render'], "initial state none: requires state != Rendering; ensures state != Rendering on Ok and Err (failed composite / composite_preprocess included)" + _st, timeout=1500, unwindset=_US)
K("st.blend.done_skip", ["C08"], "jxl-render", _IM, _IMM, "handle_blend_done_skip", "complete", ['RenderedImage::blend', 'FrameRenderHandle::wait_until_render', 'FrameRenderHandle::done_render'], "initial state done, composite_preprocess says no composition is needed: requires state != Rendering; ensures state != Rendering on Ok and Err (failed composite / composite_preprocess included)" + _st, timeout=1500, unwindset=_US)
K("st.blend.done_composite", ["C08"], "jxl-render", _IM, _IMM, "handle_blend_done_composite", "complete", ['RenderedImage::blend', 'FrameRenderHandle::wait_until_render', 'FrameRenderHandle::done_render'], "initial state done, composite_preprocess Ok(false), composite returns any Ok/Err: requires state != Rendering; ensures state != Rendering on Ok and Err (failed composite / composite_preprocess included)" + _st, timeout=1500, unwindset=_US)
K("st.blend.done_preerr", ["C08"], "jxl-render", _IM, _IMM, "handle_blend_done_preerr", "complete", ['RenderedImage::blend', 'FrameRenderHandle::wait_until_render', 'FrameRenderHandle::done_render'], "initial state done, composite_preprocess fails: requires state != Rendering; ensures state != Rendering on Ok and Err (failed composite / composite_preprocess included)" + _st, timeout=1500, unwindset=_US)
K("st.blend.blended", ["C08"], "jxl-render", _IM, _IMM, "handle_blend_blended", "complete", ['RenderedImage::blend', 'FrameRenderHandle::wait_until_render', 'FrameRenderHandle::done_render'], "initial state blended: requires state != Rendering; ensures state != Rendering on Ok and Err (failed composite / composite_preprocess included)" + _st, timeout=1500, unwindset=_US)
K("st.blend.err", ["C08"], "jxl-render", _IM, _IMM, "handle_blend_err", "complete", ['RenderedImage::blend', 'FrameRenderHandle::wait_until_render', 'FrameRenderHandle::done_render'], "initial state err: requires state != Rendering; ensures state != Rendering on Ok and Err (failed composite / composite_preprocess included)" + _st, timeout=1500, unwindset=_US)
K("st.blend.errtaken", ["C08"], "jxl-render", _IM, _IMM, "handle_blend_errtaken", "complete", ['RenderedImage::blend', 'FrameRenderHandle::wait_until_render', 'FrameRenderHandle::done_render'], "initial state errtaken: requires state != Rendering; ensures state != Rendering on Ok and Err (failed composite / composite_preprocess included)" + _st, timeout=1500, unwindset=_US)
K("st.take_reset.none", ["C08"], "jxl-render", _IM, _IMM, "handle_take_none", "complete", ['RenderedImage::try_take_blended', 'FrameRenderHandle::reset'], "initial state none: try_take_blended keeps a final state and only takes Blended; reset returns to None" + _st, timeout=1500)
K("st.take_reset.done", ["C08"], "jxl-render", _IM, _IMM, "handle_take_done", "complete", ['RenderedImage::try_take_blended', 'FrameRenderHandle::reset'], "initial state done: try_take_blended keeps a final state and only takes Blended; reset returns to None" + _st, timeout=1500)
K("st.take_reset.blended", ["C08"], "jxl-render", _IM, _IMM, "handle_take_blended", "complete", ['RenderedImage::try_take_blended', 'FrameRenderHandle::reset'], "initial state blended: try_take_blended keeps a final state and only takes Blended; reset returns to None" + _st, timeout=1500)
K("st.take_reset.err", ["C08"], "jxl-render", _IM, _IMM, "handle_take_err", "complete", ['RenderedImage::try_take_blended', 'FrameRenderHandle::reset'], "initial state err: try_take_blended keeps a final state and only takes Blended; reset returns to None" + _st, timeout=1500)
K("st.take_reset.errtaken", ["C08"], "jxl-render", _IM, _IMM, "handle_take_errtaken", "complete", ['RenderedImage::try_take_blended', 'FrameRenderHandle::reset'], "initial state errtaken: try_take_blended keeps a final state and only takes Blended; reset returns to None" + _st, timeout=1500)
# (st.failed_blend_then_render -- the two-call composition "failed blend, then run_with_image returns" -- did not close within
#  25 GB / 20 min and is not registered; it follows from the per-operation contracts by induction over the call sequence.)

# memory-hungry instantiations (CBMC 14-26 GB: they symbolically explore the drop glue of whole render caches) run two at a
# time after the others. Quick tier keeps the three that guard defect classes actually seen (a failed composite, a failed
# composite_preprocess, a failed first render); the other hungry ones are thorough-only.
for _o in OBLIGATIONS:
    if _o["id"] in ("st.blend.done_composite", "st.blend.done_preerr", "st.run_with_image.none"):
        _o["rss_gb"] = 26
        _o["timeout"] = 1500
    if _o["id"] in ("st.run_with_image.done", "st.blend.none", "st.blend.err", "st.blend.errtaken", "st.blend.done_skip", "st.run_with_image.blended"):
        _o["tier"] = "thorough"
        _o["rss_gb"] = 26
        _o["timeout"] = 2400

# C13 / C15: ImageBuffer float conversions (same module, crates/jxl-render/src/image.rs)
for _fn, _pre in (("cast_to_float", "cast_to_float"), ("convert_to_float_modular", "convert_modular")):
    for _t in ("i16", "i32"):
        for _b, _bt in (("fits", "budget = source + f32 copy exactly"), ("short", "budget one byte short")):
            K("ib.%s_%s_%s" % (_pre, _t, _b), ["C13", "C01"], "jxl-render", _IM, _IMM, "%s_%s_%s" % (_pre, _t, _b),
              "bounded:2x1 %s grid, %s (every sample value)" % (_t, _bt),
              ["ImageBuffer::" + _fn, "AlignedGrid::with_alloc_tracker"],
              "Ok => the f32 copy is charged to the source's tracker (exactly its buffer size) and the source's bytes return; "
              "Err => only on exhaustion, buffer and budget unchanged", timeout=300)
for _h in ("float_conversion_values_i16", "float_conversion_values_i32"):
    K("ib." + _h, ["C15", "C03", "C01"], "jxl-render", _IM, _IMM, _h, "bounded:2x1 grid (every sample, every bit depth 1..=31)",
      ["ImageBuffer::cast_to_float", "ImageBuffer::convert_to_float_modular"],
      "cast: out[i] == in[i] as f32; convert: out[i] == BitDepth::parse_integer_sample(in[i]); dimensions kept", timeout=300)

# the ImageBuffer rows stub Vec::reserve with an asserted-unreachable model (see no_reserve in the module): needs the
# allocator_api feature gate in the scratch copy of the crate root. The module is compiled into every jxl-render run, so the gate
# is attached to every jxl-render row and to the canary.
_RENDER_ATTRS = ["#![cfg_attr(kani, feature(allocator_api))]"]
for _o in OBLIGATIONS:
    if _o.get("crate") == "jxl-render":
        _o["crate_attrs"] = _RENDER_ATTRS
CANARIES["jxl-render"]["crate_attrs"] = _RENDER_ATTRS

for _o in OBLIGATIONS:
    if _o["id"].startswith("ib.float_conversion_values"):
        _o["tier"] = "thorough"  # ~250 s each (symbolic bit depth x float division)
        _o["timeout"] = 900
