# jxl-oxide/src/fb.rs, part 2 (extends the module of 40_region.py; same canary): FrameBuffer::from_grids with several channels whose
# grids cover DIFFERENT regions, and the incremental ImageStream::write_to_buffer against it.   ids: fb2.*
#
# What made these tractable (the 40_region.py attempt needed > 14 GB even for one channel): AlignedGrid::with_alloc_tracker ends with
# `buf.resize_with(len + offset, ..)`, `offset` being derived from the buffer ADDRESS and hence symbolic during symbolic execution, so
# CBMC explored the (infeasible) grow branch Vec::reserve -> realloc -> copy of a symbolically sized object. The harnesses replace
# `Vec::reserve` by `no_reserve` (kani::stub), a model that ASSERTS it is never reached (untagged assert in the harness file: reaching
# it makes the obligation UNDECIDED, never held), so the verified behaviour is exactly the real one. 203 s / 16.6 GB -> 0.9 s / 0.3 GB
# for writing and reading back a 3x2 grid. The generic model needs `#![feature(allocator_api)]`: every row of the module and the
# crate's canary carry crate_attrs (inserted as line 1 of the scratch copy of crates/jxl-oxide/src/lib.rs: line numbers reported for
# THAT file are +1 against /repo).
_FB2 = "crates/jxl-oxide/src/fb.rs"; _FB2M = "kani/jxl-oxide/fb.rs"
_FB2_CRATE_ATTRS = ["#![feature(allocator_api)]"]
CANARIES["jxl-oxide"]["crate_attrs"] = _FB2_CRATE_ATTRS
for _o in OBLIGATIONS:
    if _o.get("module") == _FB2M:
        _o["crate_attrs"] = _FB2_CRATE_ATTRS
    # the 1x1 rows of 40_region.py now use the same model (seconds instead of minutes); budgets unchanged


def _F2(id, harness, kind, fns, contract, **kw):
    kw.setdefault("kani_args", ["--no-assertion-reach-checks"])
    K(id, ["C15", "C01"], "jxl-oxide", _FB2, _FB2M, harness, kind, fns, contract, **kw)
    OBLIGATIONS[-1]["crate_attrs"] = _FB2_CRATE_ATTRS


_FB2_GEO = ("copy region 3x2 (non-square: all eight maps and the width/height swap are distinguishable) at a symbolic origin within "
            "+-2^30; ")
_FB2_PRE = ("requires grids.len() == regions.len() == bit_depth.len(), grid dimensions == region dimensions (ImageWithRegion invariant, asserted by append_channel / replace_channel, jxl-render image.rs:329-387; "
            "call sites Render::image_all_channels / image_planar, lib.rs:1150-1198), orientation 1..8 (1 + u(3)); ")
for _o in range(1, 9):
    _F2("fb2.from_grids_regions_o%d" % _o, "from_grids_regions_o%d" % _o,
        "bounded:" + _FB2_GEO + "two f32 channels with a 4x3 and a 3x2 grid whose regions start (dx_c, dy_c) in -2..=2 (symbolic, independent "
        "per channel) to the upper left of the copy region; every sample value (all f32 bit patterns); [Vec::reserve replaced by the "
        "asserted-unreachable model no_reserve]",
        ["FrameBuffer::from_grids", "FrameBuffer::new", "AlignedGrid::try_get_ref"],
        "orientation = %d; " % _o + _FB2_PRE + "ensures (width, height) == spec_oriented_dims(o, W, H), channels == 2, buf.len() == width*height*2; "
        "for EVERY output sample (X, Y, c): out[(Y*width + X)*2 + c] is bit-identical to grid_c[(x + dx_c, y + dy_c)] where (x, y) is the stored "
        "position with spec_orientation(o, W, H, x, y) == (X, Y) and (dx_c, dy_c) = copy origin - origin of THAT channel's grid region; "
        "0.0 where the channel's grid does not cover the position; channel order kept",
        timeout=300)
    _F2("fb2.from_grids_mixed_o%d" % _o, "from_grids_mixed_o%d" % _o,
        "bounded:" + _FB2_GEO + "three channels: i32 4x3 grid padded by one column/row on the left/top (16-bit), i16 3x2 grid == copy region "
        "(8-bit), f32 3x2 grid starting one column to the right of the copy origin; every sample value; [Vec::reserve -> no_reserve]",
        ["FrameBuffer::from_grids", "BitDepth::parse_integer_sample", "AlignedGrid::try_get_ref"],
        "orientation = %d; " % _o + _FB2_PRE + "ensures oriented dimensions, channels == 3, interleaving stride 3; every output sample (X, Y, c) == "
        "channel c's grid sample at the stored position, integer samples scaled by the channel's OWN bit depth (parse_integer_sample), "
        "offset by the channel's OWN region; the uncovered first column of channel 2 reads 0.0",
        tier="thorough", timeout=900)
_FB2_SPLIT = {1: 5, 2: 12, 3: 0, 4: 7, 5: 3, 6: 6, 7: 9, 8: 1}
for _o in range(1, 9):
    _F2("fb2.stream_matches_from_grids_o%d" % _o, "stream_matches_from_grids_o%d" % _o,
        "bounded:" + _FB2_GEO + "two f32 channels (4x3 / 3x2 grids, region offsets symbolic in -2..=2 per channel), every sample value; the 12 "
        "samples are fetched by two write_to_buffer calls split after %d samples (concrete; the eight rows cover 0, 1, mid-pixel, "
        "pixel-aligned, row-aligned and all-at-once splits), then a third call; no spot colours; [Vec::reserve -> no_reserve]" % _FB2_SPLIT[_o],
        ["ImageStream::write_to_buffer", "ImageStream::to_original_coord", "<f32 as Sealed>::copy_from_grid", "FrameBuffer::from_grids"],
        "orientation = %d; stream built field by field as ImageStream::from_render does (displayed width/height, start_offset_xy[c] = copy "
        "origin - origin of channel c's region); ensures same width/height/channels as from_grids; the calls return k, 12-k, 0 and an "
        "exhausted stream writes nothing; EVERY sample i of the stream is bit-identical to sample i of FrameBuffer::from_grids on the same "
        "grids/regions, and to the specification (grid_c at the stored position of spec_orientation, per-channel offset, 0 outside)" % _o,
        timeout=300)
_F2("fb2.stream_u8_matches_from_grids_o7", "stream_u8_matches_from_grids_o7",
    "bounded:" + _FB2_GEO + "orientation 7, two f32 channels (4x3 grid padded left/top, 3x2 grid shifted one column right) declared 8-bit and "
    "16-bit, every sample value, split after 5 samples, all 12 samples compared; [Vec::reserve -> no_reserve]",
    ["ImageStream::write_to_buffer", "<u8 as Sealed>::copy_from_grid", "<u8 as Sealed>::copy_from_f32", "FrameBuffer::from_grids"],
    "every u8 sample i of the stream == copy_from_f32(sample i of from_grids) (fast path for the 8-bit channel, generic path for the other); "
    "rounding/clamping itself is fb.copy_from_f32_u8", timeout=300)
_F2("fb2.stream_u16_matches_from_grids_o8", "stream_u16_matches_from_grids_o8",
    "bounded:copy region 2x1 at a symbolic origin (the 16-bit rounding is ~50x harder for the solver than the 8-bit one: 3x2 needs 660 s; "
    "the position logic is generic code shared with the f32 rows), orientation 8, 3x2 grid padded left/top (8-bit) and 2x1 grid shifted one "
    "column right (16-bit), every sample value, split after 3 samples; [Vec::reserve -> no_reserve]",
    ["ImageStream::write_to_buffer", "<u16 as Sealed>::copy_from_grid", "<u16 as Sealed>::copy_from_f32", "FrameBuffer::from_grids"],
    "every u16 sample i of the stream == copy_from_f32(sample i of from_grids) (fast path for the 16-bit channel, generic path for the other); "
    "rounding/clamping itself is fb.copy_from_f32_u16", tier="thorough", timeout=900)
# float fast paths of copy_from_grid (not registered in 40_region.py: > 14 GB without the model)
for _t, _c in [("u8", "8-bit fast path `(v * 255.0 + 0.5).clamp(0.0, 255.0) as u8`"), ("u16", "16-bit fast path `(v * 65535.0 + 0.5).clamp(..) as u16`")]:
    _F2("fb2.copy_from_grid_%s_f32" % _t, "copy_from_grid_%s_f32" % _t,
        "bounded:1x1 f32 grid (position lookup is AlignedGrid::try_get_ref), every f32 bit pattern, every position; [Vec::reserve -> no_reserve]",
        ["<%s as Sealed>::copy_from_grid" % _t],
        "1x1 AlignedGrid holding a symbolic float, read at (0,0) or at any position outside: the " + _c + " gives the same value as "
        "copy_from_f32 (which is under contract: fb.copy_from_f32_%s); 0 outside the grid" % _t, timeout=300)
