# ------------------------------------------------------------------------------------------------
# jxl-jbr: JPEG bitstream reconstruction (C17, C01) -- bit writer, Huffman code construction,
# reconstruction-header arithmetic, scan helpers. Spec: ITU-T T.81 (Annex C, F.1.2, E.1.4, G.1.2.2).
# ------------------------------------------------------------------------------------------------
JBW = "crates/jxl-jbr/src/bit_writer.rs"; JBWM = "kani/jxl-jbr/bit_writer.rs"
CANARIES["jxl-jbr"] = dict(anchor=JBW, module=JBWM, harness="canary", kind="complete", fns=[], timeout=60)

K("jb.has_ff_byte", ["C17", "C01"], "jxl-jbr", JBW, JBWM, "has_ff_byte_contract", "complete", ["has_ff_byte"],
  "for every u64: has_ff_byte(v) <=> one of the 8 bytes of v equals 0xFF (decides whether the stuffing slow path runs)")
K("jb.bw_new", ["C17", "C01"], "jxl-jbr", JBW, JBWM, "new_contract", "complete", ["BitWriter::new", "BitWriter::padding_bits"],
  "new() is well-formed, holds no bits, is byte aligned")
K("jb.bw_write_huffman", ["C17", "C01"], "jxl-jbr", JBW, JBWM, "write_huffman_contract", "complete",
  ["BitWriter::write_huffman", "BitWriter::flush_buf", "BitWriter::emit_byte", "has_ff_byte"],
  "inductive step from ANY well-formed writer state (pending bits 0..63, arbitrary earlier output): requires len <= 63 and a "
  "left-aligned code word; ensures invariant kept and abs(after) == T.81 reference writer (one bit at a time, MSB first, "
  "0x00 stuffed after each 0xFF) applied to abs(before) + the code's bits; earlier output untouched")
K("jb.bw_write_raw", ["C17", "C01"], "jxl-jbr", JBW, JBWM, "write_raw_contract", "complete",
  ["BitWriter::write_raw", "BitWriter::write_huffman", "BitWriter::flush_buf", "BitWriter::emit_byte"],
  "inductive step from any well-formed state: requires len <= 63; ensures the low len bits of the value are appended MSB first "
  "(bits above len ignored), stuffing as T.81 F.1.2.3")
K("jb.bw_padding_bits", ["C17", "C01"], "jxl-jbr", JBW, JBWM, "padding_bits_contract", "complete", ["BitWriter::padding_bits"],
  "for any well-formed state: result <= 7 and is exactly the number of bits missing to the next byte boundary of the abstract bit sequence")
K("jb.bw_finalize", ["C17", "C01"], "jxl-jbr", JBW, JBWM, "finalize_contract", "complete",
  ["BitWriter::finalize", "BitWriter::emit_byte", "has_ff_byte"],
  "for any well-formed state: returned bytes == earlier output + pending bits packed MSB first, incomplete last byte completed "
  "with 0-bits, 0x00 stuffed after each 0xFF (also when the 0xFF is the last byte)")
K("jb.bw_sequence", ["C17", "C01"], "jxl-jbr", JBW, JBWM, "bitwriter_sequence",
  "bounded:<= 4 writes (each write_huffman or write_raw, every bits value, every len <= 63)",
  ["BitWriter::new", "BitWriter::write_huffman", "BitWriter::write_raw", "BitWriter::flush_buf", "BitWriter::padding_bits", "BitWriter::finalize"],
  "end to end: bytes produced by new(); <= 4 writes; finalize() equal the bytes of the T.81 reference bit writer; padding_bits after every write")
