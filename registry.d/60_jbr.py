# ------------------------------------------------------------------------------------------------
# jxl-jbr: JPEG bitstream reconstruction (C17, C01) -- bit writer, Huffman code construction,
# reconstruction-header arithmetic, scan helpers. All stub models live in the bit_writer.rs harness module: it is
# the canary's module and therefore compiled into every run; other modules reference the models by path. Spec: ITU-T T.81 (Annex C, F.1.2, E.1.4, G.1.2.2);
# shared executable bit-stream spec: contracts/spec/jpeg_bits.rs.
#
# Every harness module of this crate is compiled together; bit_writer.rs / huffman.rs contain generic models
# of Vec::extend_from_slice / Vec::push (see the comments there) that need `#![feature(allocator_api)]`, so
# every row (and the canary) carries crate_attrs. NOTE: the attribute is inserted as line 1 of the scratch
# copy of crates/jxl-jbr/src/lib.rs, so line numbers reported for THAT file are +1 against /repo.
# ------------------------------------------------------------------------------------------------
JBW = "crates/jxl-jbr/src/bit_writer.rs"; JBWM = "kani/jxl-jbr/bit_writer.rs"
JHF = "crates/jxl-jbr/src/huffman.rs"; JHFM = "kani/jxl-jbr/huffman.rs"
JLB = "crates/jxl-jbr/src/lib.rs"; JLBM = "kani/jxl-jbr/lib.rs"
JSC = "crates/jxl-jbr/src/reconstruct/scan.rs"; JSCM = "kani/jxl-jbr/scan.rs"
_JB_CRATE_ATTRS = ["#![feature(allocator_api)]"]
CANARIES["jxl-jbr"] = dict(anchor=JBW, module=JBWM, harness="canary", kind="complete", fns=[], timeout=60,
                           crate_attrs=_JB_CRATE_ATTRS)


def _J(id, props, anchor, module, harness, kind, fns, contract, **kw):
    K(id, props, "jxl-jbr", anchor, module, harness, kind, fns, contract, **kw)
    OBLIGATIONS[-1]["crate_attrs"] = _JB_CRATE_ATTRS


_BW_STUBS = (" [emit_byte and Vec::extend_from_slice replaced by capacity-checked no-realloc models, justified by "
             "jb.emit_byte / jb.emit_byte_model / jb.vec_extend_real / jb.vec_extend_model]")

# ---- bit_writer.rs ------------------------------------------------------------------------------
_J("jb.has_ff_byte", ["C17", "C01"], JBW, JBWM, "has_ff_byte_contract", "complete", ["has_ff_byte"],
   "for every u64: has_ff_byte(v) <=> one of the 8 bytes of v equals 0xFF (decides whether the stuffing slow path runs)")
_J("jb.emit_byte", ["C17", "C01"], JBW, JBWM, "emit_byte_contract", "complete", ["BitWriter::emit_byte"],
   "T.81 F.1.2.3 for one byte, from any writer state with <= 2 earlier bytes: b is appended, followed by 0x00 iff b == 0xFF; "
   "earlier output and pending bits untouched")
_J("jb.emit_byte_model", ["C17"], JBW, JBWM, "emit_byte_model_contract", "complete", ["BitWriter::emit_byte"],
   "the no-realloc model used as kani::stub for emit_byte satisfies the same deterministic postcondition (=> model == real)")
_J("jb.vec_extend_real", ["C17"], JBW, JBWM, "extend_real_contract", "complete", ["BitWriter::flush_buf", "BitWriter::finalize"],
   "Vec::<u8>::extend_from_slice appends exactly the slice (<= 8 bytes) after <= 2 earlier bytes")
_J("jb.vec_extend_model", ["C17"], JBW, JBWM, "extend_model_contract", "complete", ["BitWriter::flush_buf", "BitWriter::finalize"],
   "the no-realloc model used as kani::stub for Vec::extend_from_slice satisfies the same postcondition (=> model == real)")
_J("jb.bw_new", ["C17", "C01"], JBW, JBWM, "new_contract", "complete", ["BitWriter::new", "BitWriter::padding_bits"],
   "new() is well-formed, holds no bytes and no bits, is byte aligned")
_J("jb.bw_new_reserved", ["C17"], JBW, JBWM, "new_reserved_contract", "complete", ["BitWriter::new"],
   "the capacity-reserving stand-in for new() used by the scan.rs obligations equals new() field by field")
_J("jb.bw_write_huffman", ["C17", "C01"], JBW, JBWM, "write_huffman_contract", "complete",
   ["BitWriter::write_huffman", "BitWriter::flush_buf", "has_ff_byte"],
   "inductive step from ANY well-formed writer state (0..63 pending bits, <= 2 arbitrary earlier bytes): requires len <= 63 and a "
   "left-aligned code word (call sites: len <= 16 from BuiltHuffmanTable::lookup); ensures invariant kept, pending count, earlier "
   "output untouched, and the bit sequence after == pending bits ++ code bits (MSB first); a completed 64-bit word is appended as "
   "8 raw bytes with 0x00 stuffed after each 0xFF and nothing else (T.81 F.1.2.3)" + _BW_STUBS)
_J("jb.bw_write_raw", ["C17", "C01"], JBW, JBWM, "write_raw_contract", "complete",
   ["BitWriter::write_raw", "BitWriter::write_huffman", "BitWriter::flush_buf"],
   "same inductive step for additional bits: requires len <= 63 (call sites: <= 16 coefficient bits, <= 14 EOBRUN bits, <= 7 padding, "
   "<= 63 refinement bits); the low len bits of the value are appended MSB first, bits above len are ignored" + _BW_STUBS)
_J("jb.bw_padding_bits", ["C17", "C01"], JBW, JBWM, "padding_bits_contract", "complete", ["BitWriter::padding_bits"],
   "for any well-formed state: result <= 7 and is exactly the number of bits missing to the next byte boundary")
_J("jb.bw_finalize", ["C17", "C01"], JBW, JBWM, "finalize_contract", "complete",
   ["BitWriter::finalize", "has_ff_byte"],
   "for any well-formed state: returned bytes == earlier output + ceil(pending/8) raw bytes holding the pending bits MSB first, "
   "incomplete last byte completed with 0-bits, 0x00 stuffed after each 0xFF (also a final one), nothing else" + _BW_STUBS)
_J("jb.bw_sequence2", ["C17", "C01"], JBW, JBWM, "bitwriter_sequence_2",
   "bounded:<= 2 writes (each write_huffman or write_raw, every bits value, every len <= 63)",
   ["BitWriter::new", "BitWriter::write_huffman", "BitWriter::write_raw", "BitWriter::flush_buf", "BitWriter::padding_bits", "BitWriter::finalize"],
   "end to end from new(): bytes of <= 2 writes + finalize == T.81 bit sequence (MSB-first packing, stuffing, 0-fill); "
   "padding_bits after every write" + _BW_STUBS, tier="thorough", timeout=900)
_J("jb.bw_sequence3", ["C17", "C01"], JBW, JBWM, "bitwriter_sequence_3",
   "bounded:<= 3 writes (each write_huffman or write_raw, every bits value, every len <= 63)",
   ["BitWriter::new", "BitWriter::write_huffman", "BitWriter::write_raw", "BitWriter::flush_buf", "BitWriter::padding_bits", "BitWriter::finalize"],
   "same, <= 3 writes (4 writes did not close in 20 min; any number of writes follows from the inductive step contracts)" + _BW_STUBS,
   tier="thorough", timeout=1200)

# ---- huffman.rs ---------------------------------------------------------------------------------
_HF_STUBS = (" [Vec::push and <[u8]>::fill replaced by a capacity-checked no-realloc push / an element-wise loop, "
             "justified by jb.vec_push_real / jb.vec_push_model]")
_J("jb.vec_push_real", ["C17"], JBW, JBWM, "push_real_contract", "complete", ["HuffmanCode::build"],
   "Vec::<u64>::push appends x after <= 3 earlier elements")
_J("jb.vec_push_model", ["C17"], JBW, JBWM, "push_model_contract", "complete", ["HuffmanCode::build"],
   "the no-realloc model used as kani::stub for Vec::push satisfies the same postcondition (=> model == real)")
for _n, _tier, _to in ((2, "quick", 300), (3, "thorough", 1200), (4, "thorough", 1200), (5, "thorough", 1200)):
    _J("jb.huff_build_spec_n%d" % _n, ["C17"], JHF, JHFM, "build_matches_annex_c_%d" % _n,
       "bounded:exactly %d values (%d symbols + sentinel); every counts[1..=16] with that sum, every symbol value" % (_n, _n - 1),
       ["HuffmanCode::build", "HuffmanCode::encoded_len", "BuiltHuffmanTable::lookup"],
       "requires an encoder-produced table (>= 1 symbol + the sentinel, counts[0] == 0); ensures for EVERY symbol value v: "
       "length == EHUFSI(v), code == EHUFCO(v) of T.81 Annex C (Figures C.1-C.3, transcribed), left-aligned in 64 bits with nothing "
       "below; no code -> (0, 0); lookup(v) == Ok((len, bits)) / Err(HuffmanLookup); encoded_len == 1 + 16 + symbols" + _HF_STUBS,
       tier=_tier, timeout=_to)
for _n, _what in ((1, "the sentinel only"), (2, "two values")):
    _J("jb.huff_build_total_n%d" % _n, ["C01", "C17"], JHF, JHFM, "build_total_%d" % _n,
       "bounded:exactly %d values; every counts[1..=16] with that sum, counts[0] == 0 (what HuffmanCode::parse admits)" % _n,
       ["HuffmanCode::build", "HuffmanCode::encoded_len", "BuiltHuffmanTable::lookup"],
       "panic-freedom of build / encoded_len / lookup on everything HuffmanCode::parse can return with %s" % _what + _HF_STUBS,
       timeout=300)
for _w, _what in (("a", "38 zero bits: counts all 0, no values"), ("b", "counts[1] = 1: sentinel only"),
                  ("c", "counts[0] = counts[1] = 1: a zero-length code + sentinel")):
    _J("jb.huff_parse_build_%s" % _w, ["C01", "C17"], JHF, JHFM, "parse_build_witness_%s" % _w,
       "bounded:one concrete 6-byte jbrd Huffman bundle (%s)" % _what,
       ["HuffmanCode::parse", "HuffmanCode::build", "HuffmanCode::encoded_len"],
       "the REAL parser on a concrete bundle, then what the DHT writer does with the result (reconstruct.rs:461-483): "
       "values non-empty (it slices values[..len-1]), encoded_len, build -- none may panic; a parser that rejects the bundle also satisfies it"
       + _HF_STUBS, timeout=300)

# ---- lib.rs -------------------------------------------------------------------------------------
_J("jb.app_marker_parse", ["C17", "C01"], JLB, JLBM, "app_marker_parse_contract", "complete", ["AppMarker::parse"],
   "for every input of 0..=3 bytes: Ok iff the bundle is complete AND admissible (ty 0..=3; ICC >= 17, Exif >= 9, XMP >= 32 bytes); "
   "ty == U32(0, 1, 2+u(1), 4+u(2)), length == u(16)+1, exactly those bits consumed; incomplete => unexpected-eof; inadmissible => hard error")
_J("jb.expected_lens_total", ["C01", "C17"], JLB, JLBM, "expected_lens_total",
   "bounded:<= 2 APPn entries, both produced by the real AppMarker::parse from 5 symbolic bytes (complete over ty and length)",
   ["JpegBitstreamHeader::expected_icc_len", "JpegBitstreamHeader::expected_exif_len", "JpegBitstreamHeader::expected_xmp_len",
    "JpegBitstreamHeader::expected_data_len", "AppMarker::parse"],
   "no panic (no subtraction underflow) for whatever the parser returned; where the entries describe real segments: icc == sum(length - 17), "
   "exif == length - 9 and xmp == length - 32 of the first such entry (0 if none), data == verbatim APPn bytes + tail")
_J("jb.expected_data_len", ["C17", "C01"], JLB, JLBM, "expected_data_len_contract",
   "bounded:exactly 2 APPn + 2 COM + 2 inter-marker entries (complete over their parser ranges and the tail length)",
   ["JpegBitstreamHeader::expected_data_len", "JpegBitstreamHeader::app_data_len", "JpegBitstreamHeader::com_data_len",
    "JpegBitstreamHeader::intermarker_data_len"],
   "expected_data_len == sum of type-0 APPn lengths + COM lengths (1..=65536) + inter-marker lengths (0..=65535) + tail (<= 65793 + 2^22 - 1), "
   "no overflow; the three section offsets used by the reconstructor add up to it")
_J("jb.expected_data_len_empty", ["C17", "C01"], JLB, JLBM, "expected_data_len_empty", "complete",
   ["JpegBitstreamHeader::expected_data_len"], "no APPn/COM/inter-marker entries: expected_data_len == tail_data_length")
_J("jb.app_marker_type_known", ["C01", "C17"], JLB, JLBM, "app_marker_type_known", "complete", ["AppMarker::parse"],
   "consumer precondition: the APPn writer (reconstruct.rs:699-757) matches ty 0..=3 and has `_ => unreachable!()`; the parser must "
   "therefore never return ty > 3 (for every 3-byte input)")

# ---- reconstruct/scan.rs ------------------------------------------------------------------------
_SC_STUBS = (" [BitWriter::new / emit_byte / Vec::extend_from_slice replaced by the models justified by jb.bw_new_reserved, "
             "jb.emit_byte(+_model), jb.vec_extend_real/_model]")
_J("jb.update_dc_pred", ["C17", "C01"], JSC, JSCM, "update_dc_pred_contract", "complete", ["ScanState::update_dc_pred"],
   "DIFF = DC - PRED (wrapping, never panics), PRED := DC for that component only (T.81 F.1.1.5.1)")
_J("jb.flush_ones", ["C17", "C01"], JSC, JSCM, "flush_ones_contract",
   "bounded:<= 24 pending bits in the scan's writer (every value)",
   ["ScanState::flush_bit_writer", "ScanState::emit_eobrun", "BitWriter::padding_bits", "BitWriter::write_raw", "BitWriter::finalize"],
   "no padding stream: the sink receives the segment's bits unchanged, completed to a byte boundary with 1-bits (T.81 F.1.2.3), stuffed; "
   "the scan continues with an empty byte-aligned writer" + _SC_STUBS)
_J("jb.flush_padding_stream", ["C17", "C01"], JSC, JSCM, "flush_padding_stream_contract",
   "bounded:<= 15 pending bits, fresh 2-byte padding stream (every value)",
   ["ScanState::flush_bit_writer", "BitWriter::padding_bits", "BitWriter::write_raw", "BitWriter::finalize"],
   "with a padding stream: exactly padding_bits() bits are consumed from it and the emitted padding consists of those bits "
   "(order-insensitive part); segment bits unchanged" + _SC_STUBS, timeout=300)
# jb.flush_padding_order (harness flush_padding_order_contract, kept in the module, NOT registered): it states that padding bits are
# emitted first-listed-first, as two independent readers recall libjxl's JumpToByteBoundary doing; the real code emits them in the
# reverse order (read_bits(n) LSB-first, write_raw MSB-first). The reference text is not available offline and no fixture exercises
# non-palindromic padding, so the obligation is left undecided rather than claimed (DESIGN.md 9.4, "suspected, not decided").
_J("jb.restart", ["C17", "C01"], JSC, JSCM, "restart_contract",
   "bounded:<= 15 pending bits (every value), every rst_m in 0..=7, 3 components",
   ["ScanState::restart", "ScanState::flush_bit_writer"],
   "sink receives the 1-padded stuffed segment followed by FF D0+m; m := (m+1) mod 8 (T.81 E.1.4); all DC predictions := 0 (F.1.1.5.1)"
   + _SC_STUBS)
_J("jb.emit_eobrun", ["C17", "C01"], JSC, JSCM, "emit_eobrun_contract",
   "bounded:one concrete 4-bit code table (symbol n<<4 -> code n, built by the real build()); every EOBRUN 0..=32767; <= 1 buffered correction-bit entry of <= 10 bits",
   ["ScanState::emit_eobrun", "BuiltHuffmanTable::lookup", "BitWriter::write_huffman", "BitWriter::write_raw"],
   "T.81 G.1.2.2 Encode_EOBRUN: EOBRUN == 0 -> nothing; else code of symbol (SSSS << 4) with SSSS = floor(log2 EOBRUN), then the SSSS "
   "low-order bits of EOBRUN, then the buffered correction bits (G.1.2.3); run and buffers reset" + _SC_STUBS + _HF_STUBS, tier="thorough", timeout=1200)
