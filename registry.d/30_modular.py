# jxl-modular: per-sample arithmetic core (sample.rs, predictor.rs, transform/rct.rs, transform/squeeze.rs)
MD_S = "crates/jxl-modular/src/sample.rs"; MD_SM = "kani/jxl-modular/sample.rs"
MD_P = "crates/jxl-modular/src/predictor.rs"; MD_PM = "kani/jxl-modular/predictor.rs"
MD_R = "crates/jxl-modular/src/transform/rct.rs"; MD_RM = "kani/jxl-modular/rct.rs"
MD_Q = "crates/jxl-modular/src/transform/squeeze.rs"; MD_QM = "kani/jxl-modular/squeeze.rs"
CANARIES["jxl-modular"] = dict(anchor=MD_S, module=MD_SM, harness="canary", kind="complete", fns=[], timeout=60)

# ---- sample.rs ---------------------------------------------------------------------------------
K("md.sample_i32_spec", ["C03", "C01"], "jxl-modular", MD_S, MD_SM, "sample_i32_spec", "complete",
  ["<i32 as Sealed>::unpack_signed_u32", "<i32 as Sealed>::add", "<i32 as Sealed>::wrapping_muladd_i32",
   "<i32 as Sealed>::grad_clamped", "<i32 as Sample>::{from_i32,from_u32,to_i32,to_i64,to_f32}"],
  "for every input (no precondition): unpack_signed_u32 == UnpackSigned (9.2.6) in mathematical integers; add == a+b wrapped "
  "to 32 bits (exact when the sum fits); wrapping_muladd_i32 == a*mul+add (i128) wrapped to 32 bits; grad_clamped == "
  "clamp(W+N-NW, min(W,N), max(W,N)) computed in i64; conversions are the identity / sign extension; no panic")
K("md.sample_unpack_inverse", ["C03", "C12"], "jxl-modular", MD_S, MD_SM, "sample_unpack_inverts_pack", "complete",
  ["<i32 as Sealed>::unpack_signed_u32", "<i16 as Sealed>::unpack_signed_u32"],
  "unpack_signed_u32(PackSigned(v)) == v for every i32 v (i32 impl, and bijective) and for every int16 v (i16 impl)")
K("md.sample_i16_eq_i32", ["C12", "C01"], "jxl-modular", MD_S, MD_SM, "sample_i16_matches_i32", "complete",
  ["<i16 as Sealed>::unpack_signed_u32", "<i16 as Sealed>::add", "<i16 as Sealed>::wrapping_muladd_i32",
   "<i16 as Sealed>::grad_clamped", "<i16 as Sample>::{from_i32,from_u32,to_i32,to_i64,to_f32}"],
  "premise 'truthfully 16 bit' = the result of the 32-bit method on the sign-extended inputs fits in int16 (the only thing "
  "the call site establishes is the header flag modular_16bit_buffers, jxl-render/src/lib.rs:280). Ensures, for ALL "
  "tokens / int16 samples / i32 multipliers and offsets: i16 method == i32 method truncated to 16 bits (wrapping ring "
  "homomorphism, so out-of-range intermediates cancel exactly as in the 32-bit path) and therefore == the i32 result "
  "whenever that fits; grad_clamped needs no premise (result lies between W and N); no panic")
