# jxl-modular: per-sample arithmetic core (sample.rs, predictor.rs, transform/rct.rs, transform/squeeze.rs)
MD_S = "crates/jxl-modular/src/sample.rs"; MD_SM = "kani/jxl-modular/sample.rs"
MD_P = "crates/jxl-modular/src/predictor.rs"; MD_PM = "kani/jxl-modular/predictor.rs"
MD_R = "crates/jxl-modular/src/transform/rct.rs"; MD_RM = "kani/jxl-modular/rct.rs"
MD_Q = "crates/jxl-modular/src/transform/squeeze.rs"; MD_QM = "kani/jxl-modular/squeeze.rs"
CANARIES["jxl-modular"] = dict(anchor=MD_S, module=MD_SM, harness="canary", kind="complete", fns=[], timeout=60)

# ---- sample.rs ---------------------------------------------------------------------------------
K("md.sample_i32_spec", ["C03", "C01"], "jxl-modular", MD_S, MD_SM, "sample_i32_spec", "complete",
  ["<i32 as Sealed>::unpack_signed_u32", "<i32 as Sealed>::add", "<i32 as Sealed>::wrapping_muladd_i32",
   "<i32 as Sealed>::grad_clamped", "<i32 as Sample>::{from_i32,from_u32,to_i32,to_i64,to_f32}"],
  "for every input (no precondition): unpack_signed_u32 == UnpackSigned (9.2.6) in mathematical integers; add == a+b wrapped "
  "to 32 bits (exact when the sum fits); wrapping_muladd_i32 == a*mul+add (i128) wrapped to 32 bits; grad_clamped == "
  "clamp(W+N-NW, min(W,N), max(W,N)) computed in i64; conversions are the identity / sign extension; no panic")
K("md.sample_unpack_inverse", ["C03", "C12"], "jxl-modular", MD_S, MD_SM, "sample_unpack_inverts_pack", "complete",
  ["<i32 as Sealed>::unpack_signed_u32", "<i16 as Sealed>::unpack_signed_u32"],
  "unpack_signed_u32(PackSigned(v)) == v for every i32 v (i32 impl, and bijective) and for every int16 v (i16 impl)")
K("md.sample_i16_eq_i32", ["C12", "C01"], "jxl-modular", MD_S, MD_SM, "sample_i16_matches_i32", "complete",
  ["<i16 as Sealed>::unpack_signed_u32", "<i16 as Sealed>::add", "<i16 as Sealed>::wrapping_muladd_i32",
   "<i16 as Sealed>::grad_clamped", "<i16 as Sample>::{from_i32,from_u32,to_i32,to_i64,to_f32}"],
  "premise 'truthfully 16 bit' = the result of the 32-bit method on the sign-extended inputs fits in int16 (the only thing "
  "the call site establishes is the header flag modular_16bit_buffers, jxl-render/src/lib.rs:280). Ensures, for ALL "
  "tokens / int16 samples / i32 multipliers and offsets: i16 method == i32 method truncated to 16 bits (wrapping ring "
  "homomorphism, so out-of-range intermediates cancel exactly as in the 32-bit path) and therefore == the i32 result "
  "whenever that fits; grad_clamped needs no premise (result lies between W and N); no panic")
K("md.sample_i16_muladd", ["C12", "C01"], "jxl-modular", MD_S, MD_SM, "sample_i16_muladd_matches_i32", "complete",
  ["<i16 as Sealed>::wrapping_muladd_i32", "<i32 as Sealed>::wrapping_muladd_i32"],
  "for every int16 sample and every i32 multiplier / offset of an MA-tree leaf (image.rs:887): i16 result == i32 result "
  "truncated to 16 bits, hence == the i32 result whenever that fits in int16 (solver: Z3; SAT does not close a 16x32 multiplier equivalence)")

# ---- transform/rct.rs --------------------------------------------------------------------------
for _t in range(7):
    K("md.rct_i32_t%d" % _t, ["C03", "C01"], "jxl-modular", MD_R, MD_RM, "rct_i32_type%d" % _t,
      "bounded:row length 1 and 2 (complete over all sample values)", ["inverse_row_i32_base::<%d>" % _t],
      "no precondition. (1) inverse_row_i32_base::<T>(forward RCT in Z/2^32 (v)) == v for every sample triple; the ring forward "
      "transform equals the forward transform in mathematical integers whenever that is representable in int32; "
      "(2) inverse_row_i32_base::<T> == H.6.3 evaluated in mathematical integers whenever every value H.6.3 names "
      "(incl. A+C, tmp) fits in int32", quick_props=["C03"])
    K("md.rct_i16_t%d" % _t, ["C03", "C12", "C01"], "jxl-modular", MD_R, MD_RM, "rct_i16_type%d" % _t,
      "bounded:row length 2 (complete over all sample values)",
      ["inverse_row_i16_base::<%d>" % _t, "inverse_row_i32_base::<%d>" % _t],
      "C03: inverse_row_i16_base::<T>(forward RCT in Z/2^16 (v)) == v for all int16 triples. C12 premise 'truthfully 16 bit' = "
      "every value of the 32-bit computation on the sign-extended input (outputs and the intermediates A+C, tmp) fits in int16 "
      "(call site establishes only the header flag modular_16bit_buffers, jxl-render/src/lib.rs:280); ensures i16 kernel == "
      "i32 kernel sample for sample; for T < 4 (no shift) i16 kernel == i32 kernel truncated, for ALL inputs",
      quick_props=["C03", "C12"])
K("md.rct_permutation", ["C03", "C12", "C01"], "jxl-modular", MD_R, MD_RM, "rct_permutation_contract",
  "bounded:row length 1 and 2; permutation 0..5 (the values the standard defines)", ["inverse_permute"],
  "channel[begin_c + permutation%3] = V[0], [(permutation+1+permutation/3)%3] = V[1], [(permutation+2-permutation/3)%3] = V[2] "
  "(H.6.3), is a permutation, undoes the encoder-side permutation; same assignment for i16 and i32 buffers",
  quick_props=["C03", "C12"])

# ---- transform/squeeze.rs ----------------------------------------------------------------------
K("md.sq_tendency_i32", ["C03", "C01"], "jxl-modular", MD_Q, MD_QM, "tendency_i32_contract", "complete", ["tendency_i32"],
  "total on all i32 triples; == smooth_tendency (H.6.2) in mathematical integers whenever the dividend 4A-3C-B+/-6 fits in int32 "
  "(tight: a witness outside the range with a different value exists; |A|,|B|,|C| < 2^28 is inside); |T| <= |dividend|/12")
K("md.sq_tendency_i16", ["C12", "C03", "C01"], "jxl-modular", MD_Q, MD_QM, "tendency_i16_contract", "complete",
  ["tendency_i16", "tendency_i32"],
  "for ALL int16 triples: tendency_i32 == smooth_tendency; premise 'truthfully 16 bit' = the dividend 4A-3C-B+/-6 of the 32-bit "
  "computation fits in int16 (holds for samples of <= 12 bits + sign: 8*4095+6 = 32766); ensures tendency_i16 == tendency_i32. "
  "Tight: int16 samples with a larger dividend make the two differ (cover)")
_SQ_STUB = (" Modular step: tendency_i32 / tendency_i16 and the spec's smooth_tendency are replaced by ONE abstract function "
            "(kani::stub + Ackermann table) on the range where md.sq_tendency_i32 / md.sq_tendency_i16 prove them equal, arbitrary elsewhere.")
for _n in range(1, 7):
    _tier = "quick" if _n <= 4 else "thorough"
    _to = 300 if _n <= 4 else 1200
    _gh = "width %d, %s (stride width+1); complete over sample values" % (_n, "2 rows" if _n <= 2 else "1 row")
    _gv = "height %d, %s (stride width+1); complete over sample values" % (_n, "2 columns" if _n <= 2 else "1 column")
    K("md.sq_h_roundtrip_%d" % _n, ["C03"], "jxl-modular", MD_Q, MD_QM, "sq_h_roundtrip_%d" % _n, "bounded:" + _gh,
      ["inverse_h_i32_base", "tendency_i32"],
      "requires: the forward squeeze of the row (avg = (A+B+(A>B))>>1, residu = A-B-smooth_tendency, mathematical integers) is "
      "representable in int32 (dividend, A-B, residu); ensures inverse_h_i32_base(coded row) == original row; padding untouched." + _SQ_STUB,
      tier=_tier, timeout=_to)
    K("md.sq_h_spec_%d" % _n, ["C03", "C01"], "jxl-modular", MD_Q, MD_QM, "sq_h_spec_%d" % _n, "bounded:" + _gh,
      ["inverse_h_i32_base", "tendency_i32"],
      "no precondition (no panic on any coded row); whenever every value of horiz_isqueeze (H.6.2: dividend, diff, first, second) "
      "fits in int32, inverse_h_i32_base == horiz_isqueeze in mathematical integers." + _SQ_STUB,
      tier=_tier, timeout=_to, quick_props=["C03"])
    K("md.sq_h_16_%d" % _n, ["C12", "C01"], "jxl-modular", MD_Q, MD_QM, "sq_h_16_%d" % _n, "bounded:" + _gh,
      ["inverse_h_i16_base", "inverse_h_i32_base", "tendency_i16", "tendency_i32"],
      "premise 'truthfully 16 bit' = every value of the 32-bit computation of the row (dividend of smooth_tendency, diff, first, "
      "second) fits in int16; ensures inverse_h_i16_base == inverse_h_i32_base on the sign-extended row; no panic without the premise." + _SQ_STUB,
      tier=_tier, timeout=_to, quick_props=["C12"])
    K("md.sq_v_roundtrip_%d" % _n, ["C03"], "jxl-modular", MD_Q, MD_QM, "sq_v_roundtrip_%d" % _n, "bounded:" + _gv,
      ["inverse_v_i32_base", "tendency_i32"],
      "as md.sq_h_roundtrip, along columns (vert_isqueeze)." + _SQ_STUB, tier=_tier, timeout=_to)
    K("md.sq_v_spec_%d" % _n, ["C03", "C01"], "jxl-modular", MD_Q, MD_QM, "sq_v_spec_%d" % _n, "bounded:" + _gv,
      ["inverse_v_i32_base", "tendency_i32"],
      "as md.sq_h_spec, along columns (vert_isqueeze)." + _SQ_STUB, tier=_tier, timeout=_to, quick_props=["C03"])
    K("md.sq_v_16_%d" % _n, ["C12", "C01"], "jxl-modular", MD_Q, MD_QM, "sq_v_16_%d" % _n, "bounded:" + _gv,
      ["inverse_v_i16_base", "inverse_v_i32_base", "tendency_i16", "tendency_i32"],
      "as md.sq_h_16, along columns." + _SQ_STUB, tier=_tier, timeout=_to, quick_props=["C12"])

# ---- predictor.rs ------------------------------------------------------------------------------
K("md.pred_numbering", ["C03", "C01"], "jxl-modular", MD_P, MD_PM, "predictor_numbering_contract", "complete",
  ["<Predictor as TryFrom<u32>>::try_from"], "Ok(k-th predictor of the standard's table) for k < 14, Err otherwise")
for _e, _h in (("edge", "predict_arith_edge_contract"), ("interior", "predict_arith_interior_contract")):
    K("md.pred_arith_" + _e, ["C03", "C01"], "jxl-modular", MD_P, MD_PM, _h, "complete",
      ["Predictor::predict", "Properties::new", "Properties::get"],
      "for arbitrary neighbour values held by a PredictorState (EDGE = %s): predict(k) for the 13 non-weighted predictors == the "
      "standard's predictor k on the neighbours the state reports, wrapped to 32 bits (exact when it fits); property vector 0..15 == "
      "the standard's properties wrapped to 32 bits; no panic" % ("true" if _e == "edge" else "false"))
for _g, _tier, _to in (("1x3", "quick", 300), ("2x3", "quick", 300), ("3x3", "quick", 300), ("4x3", "quick", 300),
                       ("5x3", "quick", 300), ("6x4", "thorough", 1200)):
    K("md.pred_neighbours_" + _g, ["C03", "C01"], "jxl-modular", MD_P, MD_PM, "neighbours_image_" + _g,
      "bounded:image %s (complete over sample values)" % _g,
      ["PredictorState::reset", "PredictorState::properties", "Properties::record", "PredictorState::{nn,ne,nee,ww}", "Properties::new"],
      "driving the state as decode_single_node_slow does (EDGE=false only for y>=2, width>4, 2<=x<width-2): at every position the "
      "state's W,N,NW,NE,NN,NEE,WW are the H.3 neighbours of the image (all edge rules) and properties 0..15 are the standard's "
      "(property 8 uses property 9 of the left sample, 0 at x=0); no panic", tier=_tier, timeout=_to, quick_props=["C03"])
K("md.wp_div_lookup", ["C03"], "jxl-modular", MD_P, MD_PM, "div_lookup_contract", "complete", ["DIV_LOOKUP"],
  "DIV_LOOKUP[i] == (1<<24) Idiv i for i in 1..=64")
K("md.wp_predict_total", ["C01", "C03"], "jxl-modular", MD_P, MD_PM, "wp_predict_total_contract", "complete",
  ["SelfCorrectingPredictor::predict"],
  "for EVERY state record() can store (any i32 true errors, any u32 error sums, header fields u(5)/u(4)) and all neighbour values: "
  "no DIV_LOOKUP index out of range, no shift overflow, no ilog2(0), no i64/u32 arithmetic overflow; max_error is one of the four "
  "true errors; subpred[0] == W3+NE3-N3; prediction far inside i64 (so (prediction+3)>>3 cannot overflow)")
K("md.pred_extra_i16", ["C03", "C12", "C01"], "jxl-modular", MD_P, MD_PM, "extra_properties_i16_contract",
  "bounded:previous channel 2x2, all positions (complete over sample values)", ["Properties::get", "Properties::get_extra", "<i16 as Sealed>::grad_clamped"],
  "properties 16.. == abs(rC), rC, abs(rC-rG), rC-rG of the standard for the nearest previous channel, 0 beyond; no panic")
K("md.wp_subpred_spec", ["C03"], "jxl-modular", MD_P, MD_PM, "wp_subpred_spec_contract", "complete",
  ["SelfCorrectingPredictor::predict"],
  "for every state and all neighbour values: the four sub-predictions and max_error == H.5 evaluated in overflow-checked i64 "
  "(= mathematical integers). The weighted combination (error2weight, normalisation, final rounding, clamp) is NOT decided: "
  "the equivalence does not close in 15 min", tier="thorough", timeout=1200)
K("md.pred_extra_i32_values", ["C03"], "jxl-modular", MD_P, MD_PM, "extra_properties_i32_values_contract",
  "bounded:previous channel 2x2, all positions (complete over sample values except -2^31)", ["Properties::get", "Properties::get_extra", "<i32 as Sealed>::grad_clamped"],
  "as md.pred_extra_i16 for 32-bit buffers, with the EXPLICIT exclusion rC != -2^31 (not a call-site guarantee: that single value "
  "is the totality defect reported by md.pred_extra_i32 under C01; without overflow checks the code returns the standard's wrapped value there)")
K("md.pred_extra_i32", ["C01"], "jxl-modular", MD_P, MD_PM, "extra_properties_i32_contract",
  "bounded:previous channel 2x2, all positions (complete over sample values)", ["Properties::get", "Properties::get_extra", "<i32 as Sealed>::grad_clamped"],
  "same as md.pred_extra_i16 for 32-bit buffers; previous-channel samples are any i32 the stream decoded (no precondition)")
