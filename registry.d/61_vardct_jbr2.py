# ------------------------------------------------------------------------------------------------
# jxl-vardct (ids "vd."): TransformType (unsafe transmute behind a range guard), the DctSelect tables, coefficient
# orders, dequantisation-matrix parameter validation. Properties C02 / C01 / C17 (exact VarDCT coefficient decoding is
# a prerequisite of byte-exact JPEG reconstruction; DCT8_NATURAL_ORDER is used by jxl-jbr directly).
# Shared spec tables: contracts/spec/vardct_tables.rs (18181-1 Table DctSelect; libjxl ac_strategy.h, quant_weights.h,
# coeff_order_fwd.h).
# jxl-jbr part 2 (ids "jb2."): ScanInfo / ScanMoreInfo bundle parsers, EOB-run accounting of progressive scans.
# ------------------------------------------------------------------------------------------------
VDS = "crates/jxl-vardct/src/dct_select.rs"; VDSM = "kani/jxl-vardct/dct_select.rs"
VHP = "crates/jxl-vardct/src/hf_pass.rs"; VHPM = "kani/jxl-vardct/hf_pass.rs"
VDQ = "crates/jxl-vardct/src/dequant.rs"; VDQM = "kani/jxl-vardct/dequant.rs"
VHM = "crates/jxl-vardct/src/hf_metadata.rs"; VHMM = "kani/jxl-vardct/hf_metadata.rs"
CANARIES["jxl-vardct"] = dict(anchor=VDS, module=VDSM, harness="canary", kind="complete", fns=[], timeout=60)

# ---- dct_select.rs ------------------------------------------------------------------------------
K("vd.try_from", ["C02", "C01", "C17"], "jxl-vardct", VDS, VDSM, "try_from_contract", "complete",
  ["<TransformType as TryFrom<u8>>::try_from"],
  "for every u8 v: Ok(t) iff v <= 26 (no invalid enum value is ever transmuted into existence), t's discriminant == v and t is the "
  "transform numbered v in 18181-1 Table DctSelect; otherwise Err(InvalidEnum) carrying v")
K("vd.tables", ["C01", "C02", "C17"], "jxl-vardct", VDS, VDSM, "tables_contract", "complete",
  ["TransformType::dct_select_size", "TransformType::dequant_matrix_param_index", "TransformType::dequant_matrix_size",
   "TransformType::order_id", "TransformType::need_transpose"],
  "for every transform: dct_select_size == (covered_blocks_x, covered_blocks_y) of Table DctSelect (powers of two <= 32); "
  "dequant_matrix_param_index == kQuantTable (< 17); order_id == kStrategyOrder (< 13); dequant_matrix_size == 8 * (longer, shorter side); "
  "need_transpose <=> not a special 8x8 transform and height >= width; transforms sharing a parameter set / order share the matrix size")

# ---- hf_pass.rs ---------------------------------------------------------------------------------
K("vd.dct8_zigzag", ["C17", "C01", "C02"], "jxl-vardct", VHP, VHPM, "dct8_order_is_jpeg_zigzag", "complete",
  ["const_compute_natural_order", "DCT8_NATURAL_ORDER"],
  "DCT8_NATURAL_ORDER has 64 entries (x, y) inside 8x8 and entry k is coefficient k of the ITU-T T.81 zig-zag sequence (Figure A.6), "
  "x = column, y = row -- the order in which jxl-jbr re-encodes AC coefficients")
K("vd.const_orders_small", ["C17", "C01", "C02"], "jxl-vardct", VHP, VHPM, "const_orders_small",
  "bounded:order ids 0, 1, 2, 4, 5 (8x8, 16x16, 16x8, 32x8 layouts); complete over the entry index",
  ["natural_order_lazy", "const_compute_natural_order", "BLOCK_SIZES"],
  "natural_order_lazy(id) has bw * bh entries: the LLF cells in raster order, then every HF cell exactly once in increasing zig-zag key "
  "(anti-diagonal of the bw x bw square, direction alternating), all inside bw x bh; BLOCK_SIZES[id] is the layout of Table DctSelect")
K("vd.const_orders_large", ["C17", "C01", "C02"], "jxl-vardct", VHP, VHPM, "const_orders_large",
  "bounded:order ids 3, 6, 7, 8 (32x32, 32x16, 64x64, 64x32 layouts); complete over the entry index",
  ["natural_order_lazy", "const_compute_natural_order", "BLOCK_SIZES"], "same contract as vd.const_orders_small")
K("vd.fill_order_16", ["C17", "C01", "C02"], "jxl-vardct", VHP, VHPM, "fill_order_8x8_16x8_16x16",
  "bounded:layouts 8x8, 16x8, 16x16 (the function is only called with 128 / 256 layouts; same code, no size-specific branch)",
  ["fill_natural_order"],
  "writes exactly bw * bh entries into the slice (no out-of-bounds index), the result is the natural order (recogniser) and equals "
  "the compile-time table")
K("vd.fill_order_32", ["C17", "C01", "C02"], "jxl-vardct", VHP, VHPM, "fill_order_32x8_32x16_32x32",
  "bounded:layouts 32x8, 32x16, 32x32", ["fill_natural_order"], "same contract as vd.fill_order_16", tier="thorough", timeout=900)
K("vd.lazy_order_128x64", ["C02", "C01", "C17"], "jxl-vardct", VHP, VHPM, "lazy_order_128x64",
  "bounded:order id 10 (128x64, the smallest lazily built order); complete over the entry index",
  ["natural_order_lazy", "fill_natural_order"],
  "the `static mut` table initialised under Once has 8192 initialised entries forming the natural order; a second call returns the same table",
  tier="thorough", timeout=1200)
K("vd.order_fits_varblock", ["C01", "C02", "C17"], "jxl-vardct", VHP, VHPM, "order_fits_varblock",
  "bounded:coordinates checked for order ids 0..=8 (transforms up to 64x64); sizes / ids for all 27 transforms",
  ["TransformType::order_id", "TransformType::dct_select_size", "TransformType::need_transpose", "natural_order_lazy", "BLOCK_SIZES"],
  "what write_hf_coeff relies on (hf_coeff.rs:105-108, 203-236): order_id < 13; the order has 64 entries per covered block; its layout, "
  "swapped when need_transpose(), is the varblock's coefficient area, and every entry (swapped likewise) lies inside 8*w8 x 8*h8")

# ---- dequant.rs ---------------------------------------------------------------------------------
K("vd.into_matrix_hornuss", ["C01", "C17", "C02"], "jxl-vardct", VDQ, VDQM, "into_matrix_hornuss",
  "complete", ["DequantMatrixParams::into_matrix"],
  "requires the 9 parameters in the finite binary16 range (what read_f16_as_f32 yields); ensures Ok iff every parameter > 0 "
  "(non-positive weights are rejected with a validation error); Ok => 3 x 64 multipliers, each == 1 / weight of the Hornuss layout, in (0, 1e8)")
K("vd.into_matrix_dct2", ["C01", "C17", "C02"], "jxl-vardct", VDQ, VDQM, "into_matrix_dct2",
  "complete", ["DequantMatrixParams::into_matrix"],
  "same for the DCT2 mode (18 parameters): cell (x, y), m = max, s = floor(log2 m): weight p[2s+1] if min >= 2^s else p[2s]; DC slot 1")
K("vd.set_get", ["C01", "C17"], "jxl-vardct", VDQ, VDQM, "set_get_contract", "complete",
  ["DequantMatrixSet::get", "DequantMatrixSet::get_transposed", "DequantMatrixSet::jpeg_quant_values"],
  "on a set of 17 x 3 matrices (what parse builds): get / get_transposed(channel, t) return matrix kQuantTable[t] of that channel for every "
  "transform and channel, never panic, and agree with dequant_matrix_param_index")
K("vd.parse_mode_guard", ["C01", "C17"], "jxl-vardct", VDQ, VDQM, "parse_mode_guard",
  "bounded:encoding modes 1..=5 on every non-8x8 parameter set, mode 1 on every 8x8 set; 20 symbolic input bytes",
  ["DequantMatrixParams::parse"],
  "the 8x8-only encodings (Hornuss, DCT2, DCT4, DCT4x8, AFV) are rejected with a validation error for every transform larger than 8x8; "
  "mode 1 on an 8x8 set: Ok iff the nine F16 fields are finite, parameters in channel-major field order, 147 bits consumed", timeout=600)

# ---- hf_metadata.rs -----------------------------------------------------------------------------
K("vd.block_info_occupied", ["C01", "C17"], "jxl-vardct", VHM, VHMM, "block_info_occupied_contract", "complete",
  ["BlockInfo::is_occupied"], "a cell is free iff it is Uninit (Data / Occupied block a new varblock); BlockInfo::default() is free")
