# ------------------------------------------------------------------------------------------------
# jxl-vardct (ids "vd."): TransformType (unsafe transmute behind a range guard), the DctSelect tables, coefficient
# orders, dequantisation-matrix parameter validation. Properties C02 / C01 / C17 (exact VarDCT coefficient decoding is
# a prerequisite of byte-exact JPEG reconstruction; DCT8_NATURAL_ORDER is used by jxl-jbr directly).
# Shared spec tables: contracts/spec/vardct_tables.rs (18181-1 Table DctSelect; libjxl ac_strategy.h, quant_weights.h,
# coeff_order_fwd.h).
# jxl-jbr part 2 (ids "jb2."): ScanInfo / ScanMoreInfo bundle parsers, EOB-run accounting of progressive scans.
# ------------------------------------------------------------------------------------------------
VDS = "crates/jxl-vardct/src/dct_select.rs"; VDSM = "kani/jxl-vardct/dct_select.rs"
VHP = "crates/jxl-vardct/src/hf_pass.rs"; VHPM = "kani/jxl-vardct/hf_pass.rs"
VDQ = "crates/jxl-vardct/src/dequant.rs"; VDQM = "kani/jxl-vardct/dequant.rs"
VHM = "crates/jxl-vardct/src/hf_metadata.rs"; VHMM = "kani/jxl-vardct/hf_metadata.rs"
CANARIES["jxl-vardct"] = dict(anchor=VDS, module=VDSM, harness="canary", kind="complete", fns=[], timeout=60)

# ---- dct_select.rs ------------------------------------------------------------------------------
K("vd.try_from", ["C02", "C01", "C17"], "jxl-vardct", VDS, VDSM, "try_from_contract", "complete",
  ["<TransformType as TryFrom<u8>>::try_from"],
  "for every u8 v: Ok(t) iff v <= 26 (no invalid enum value is ever transmuted into existence), t's discriminant == v and t is the "
  "transform numbered v in 18181-1 Table DctSelect; otherwise Err(InvalidEnum) carrying v")
K("vd.tables", ["C01", "C02", "C17"], "jxl-vardct", VDS, VDSM, "tables_contract", "complete",
  ["TransformType::dct_select_size", "TransformType::dequant_matrix_param_index", "TransformType::dequant_matrix_size",
   "TransformType::order_id", "TransformType::need_transpose"],
  "for every transform: dct_select_size == (covered_blocks_x, covered_blocks_y) of Table DctSelect (powers of two <= 32); "
  "dequant_matrix_param_index == kQuantTable (< 17); order_id == kStrategyOrder (< 13); dequant_matrix_size == 8 * (longer, shorter side); "
  "need_transpose <=> not a special 8x8 transform and height >= width; transforms sharing a parameter set / order share the matrix size")

# ---- hf_pass.rs ---------------------------------------------------------------------------------
K("vd.dct8_zigzag", ["C17", "C01", "C02"], "jxl-vardct", VHP, VHPM, "dct8_order_is_jpeg_zigzag", "complete",
  ["const_compute_natural_order", "DCT8_NATURAL_ORDER"],
  "DCT8_NATURAL_ORDER has 64 entries (x, y) inside 8x8 and entry k is coefficient k of the ITU-T T.81 zig-zag sequence (Figure A.6), "
  "x = column, y = row -- the order in which jxl-jbr re-encodes AC coefficients")
K("vd.const_orders_small", ["C17", "C01", "C02"], "jxl-vardct", VHP, VHPM, "const_orders_small",
  "bounded:order ids 0, 1, 2, 4, 5 (8x8, 16x16, 16x8, 32x8 layouts); complete over the entry index",
  ["natural_order_lazy", "const_compute_natural_order", "BLOCK_SIZES"],
  "natural_order_lazy(id) has bw * bh entries: the LLF cells in raster order, then every HF cell exactly once in increasing zig-zag key "
  "(anti-diagonal of the bw x bw square, direction alternating), all inside bw x bh; BLOCK_SIZES[id] is the layout of Table DctSelect")
K("vd.const_orders_large", ["C17", "C01", "C02"], "jxl-vardct", VHP, VHPM, "const_orders_large",
  "bounded:order ids 3, 6, 7, 8 (32x32, 32x16, 64x64, 64x32 layouts); complete over the entry index",
  ["natural_order_lazy", "const_compute_natural_order", "BLOCK_SIZES"], "same contract as vd.const_orders_small")
K("vd.fill_order_16", ["C17", "C01", "C02"], "jxl-vardct", VHP, VHPM, "fill_order_8x8_16x8_16x16",
  "bounded:layouts 8x8, 16x8, 16x16 (the function is only called with 128 / 256 layouts; same code, no size-specific branch)",
  ["fill_natural_order"],
  "writes exactly bw * bh entries into the slice (no out-of-bounds index), the result is the natural order (recogniser) and equals "
  "the compile-time table")
K("vd.fill_order_32", ["C17", "C01", "C02"], "jxl-vardct", VHP, VHPM, "fill_order_32x8_32x16_32x32",
  "bounded:layouts 32x8, 32x16, 32x32", ["fill_natural_order"], "same contract as vd.fill_order_16", tier="thorough", timeout=900)
# (hf_pass.rs harness lazy_order_128x64 -- natural_order_lazy for a lazily built order, `static mut` + Once -- is kept in the module but NOT
#  registered: 8192-entry Vec::resize + fill under CBMC exceeds 14 GB; the lazily built orders 9..=12 stay unverified)
K("vd.order_fits_varblock", ["C01", "C02", "C17"], "jxl-vardct", VHP, VHPM, "order_fits_varblock",
  "bounded:coordinates checked for order ids 0..=8 (transforms up to 64x64); sizes / ids for all 27 transforms",
  ["TransformType::order_id", "TransformType::dct_select_size", "TransformType::need_transpose", "natural_order_lazy", "BLOCK_SIZES"],
  "what write_hf_coeff relies on (hf_coeff.rs:105-108, 203-236): order_id < 13; the order has 64 entries per covered block; its layout, "
  "swapped when need_transpose(), is the varblock's coefficient area, and every entry (swapped likewise) lies inside 8*w8 x 8*h8")

# ---- dequant.rs ---------------------------------------------------------------------------------
# (dequant.rs harnesses into_matrix_hornuss / into_matrix_dct2 / parse_mode_guard are kept in the module but NOT registered:
#  they do not close under CBMC -- see the comments there; DequantMatrixParams::into_matrix and ::parse stay unverified)
K("vd.set_get", ["C01", "C17"], "jxl-vardct", VDQ, VDQM, "set_get_contract", "complete",
  ["DequantMatrixSet::get", "DequantMatrixSet::get_transposed", "DequantMatrixSet::jpeg_quant_values"],
  "on a set of 17 x 3 matrices (what parse builds): get / get_transposed(channel, t) return matrix kQuantTable[t] of that channel for every "
  "transform and channel, never panic, and agree with dequant_matrix_param_index")

# ---- hf_metadata.rs -----------------------------------------------------------------------------
K("vd.block_info_occupied", ["C01", "C17"], "jxl-vardct", VHM, VHMM, "block_info_occupied_contract", "complete",
  ["BlockInfo::is_occupied"], "a cell is free iff it is Uninit (Data / Occupied block a new varblock); BlockInfo::default() is free")

# ------------------------------------------------------------------------------------------------
# jxl-jbr, part 2 (extends the modules of 60_jbr.py; same crate_attrs / canary)
# ------------------------------------------------------------------------------------------------
# ---- lib.rs -------------------------------------------------------------------------------------
_ENOUGH = (" [ASSUMED, as in toc.*: Bitstream::read_bits replaced by its own body with the end-of-data Err pruned (peek_bits + skip_bits); the "
           "end-of-data outcome is not covered]")
_J("jb2.scan_info_parse", ["C17", "C01"], JLB, JLBM, "scan_info_parse_contract", "complete",
   ["ScanInfo::parse", "ScanComponentInfo::parse", "ScanInfo::num_comps"],
   "for every complete input (24 symbolic bytes; the bundle has <= 51 bits): Ok; num_comps = u(2) + 1 entries, Ss = u(6), Se = u(6), Al = u(4), Ah = u(4), "
   "per component comp_idx / ac_tbl_idx / dc_tbl_idx = u(2) each (table selectors <= 3), last_needed_pass = U32(0, 1, 2, 3 + u(3)); exactly "
   "those bits consumed" + _ENOUGH)
# (harnesses scan_info_spectral_range_pre / scan_info_comp_idx_pre are kept in the module but NOT registered. They state
#  preconditions of consumers -- process_scan slices DCT8_NATURAL_ORDER[Ss.max(1)..Se+1], the SOS writer indexes 3-entry tables
#  with comp_idx -- which ScanInfo::parse does not establish (witnesses: bundle 80 00 00.. gives Ss=32 > Se+1=1; FC FF FF EF FF..
#  gives comp_idx=3). The panics themselves sit behind JpegBitstreamReconstructor::new, which needs a JPEG-transcoded frame; none
#  is available offline, so the defect is not demonstrated on the real code and is recorded as an observation (DESIGN.md 9.5).)
_J("jb2.extra_zero_run_parse", ["C17", "C01"], JLB, JLBM, "extra_zero_run_parse_contract", "complete", ["ExtraZeroRun::parse"],
   "for every complete input: num_runs = U32(1, 2 + u(2), 5 + u(4), 20 + u(8)) in 1..=275 read first, block-index delta = "
   "U32(0, 1 + u(3), 9 + u(5), 41 + u(28)) read second; exactly those bits consumed" + _ENOUGH)
# (lib.rs harnesses scan_more_info_parse_rp2_ez1 / _rp1_ez2 -- the delta decoding of reset_points / extra_zero_runs in ScanMoreInfo::parse --
#  are kept in the module but NOT registered: HashSet / HashMap do not go through CBMC, see the comment there)

# ---- reconstruct/scan.rs ------------------------------------------------------------------------
_J("jb2.first_pass_eobrun", ["C17", "C01"], JSC, JSCM, "progressive_first_eobrun_contract",
   "bounded:bands [] and [0, 0, 0]; one 5-bit code table built by the real build(); every EOBRUN 0..=32766 on entry",
   ["process_progressive_first", "ScanState::emit_eobrun", "ScanState::update_ac_table"],
   "T.81 Figure G.3: an all-zero band adds 1 to EOBRUN and writes nothing; when the run reaches 32767 it is coded at once (EOB14 + 14 one-bits) "
   "and reset, so 0 <= EOBRUN <= 32766 between blocks; an empty band (DC scan) leaves the run alone" + _SC_STUBS + _HF_STUBS,
   tier="thorough", timeout=1200)
for _h, _band, _what in (
        ("z", "[0]", "zero run pending -> joins the run, an empty correction-bit entry is buffered"),
        ("n", "[2]", "NO zero, one correction bit pending -> still joins the run (the `R > 0 or BR > 0` rule), the bit is buffered"),
        ("p", "[1]", "newly nonzero +1 alone: pending run coded first, code(0 << 4 | 1), sign 1; no new run"),
        ("np", "[-2, 1]", "an already-nonzero coefficient is skipped: run 0, its correction bit follows the sign bit")):
    _J("jb2.refinement_band_%s" % _h, ["C17", "C01"], JSC, JSCM, "refinement_band_%s" % _h,
       "bounded:band %s (concrete); one 5-bit code table built by the real build(); every EOBRUN 0..=32766 and <= 1 earlier buffered "
       "correction-bit entry of <= 10 bits on entry" % _band,
       ["process_progressive_refinement", "ScanState::emit_eobrun", "ScanState::buffer_refinement_bits"],
       "T.81 Figure G.7 Encode_AC_coefficients_SA (executable transcription spec_refinement): written bit fields, EOBRUN and buffered correction "
       "bits after the block equal the figure's; at EOBRUN 32767 the run is coded (EOB14 + 14 one-bits + every buffered bit) and reset, so "
       "0 <= EOBRUN <= 32766 between blocks. This band: " + _what + _SC_STUBS + _HF_STUBS, tier="thorough", timeout=1200)

# promoted to the quick tier by the orchestrator: each guards a seeded defect class and runs in < 200 s
for _o in OBLIGATIONS:
    if _o["id"] in ['jb2.first_pass_eobrun']:
        _o["tier"] = "quick"
