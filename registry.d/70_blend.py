# Frame composition: blend kernels + mode mapping (jxl-render/blend.rs), frame-header predicates and geometry helpers
# (jxl-frame/header.rs), TOC section order (jxl-frame/data/toc.rs).   ids: bl.* / fh.* / toc.*
BL = "crates/jxl-render/src/blend.rs"; BLM = "kani/jxl-render/blend.rs"
FH = "crates/jxl-frame/src/header.rs"; FHM = "kani/jxl-frame/header.rs"
TOC = "crates/jxl-frame/src/data/toc.rs"; TOCM = "kani/jxl-frame/toc.rs"
CANARIES["jxl-frame"] = dict(anchor=FH, module=FHM, harness="canary", kind="complete", fns=[], timeout=120)

# ---- header.rs: composition predicates --------------------------------------------------------------------------
K("fh.full_image", ["C05", "C01"], "jxl-frame", FH, FHM, "full_image_contract", "complete",
  ["FrameHeader::test_full_image", "FrameHeader::resets_canvas"],
  "no precondition beyond image size >= 1 (all i32 offsets, all u32 sizes, all 5 blend modes, have_crop): "
  "test_full_image <=> every canvas sample [0,W)x[0,H) lies in the frame rectangle [x0,x0+w)x[y0,y0+h) (symbolic sample for =>, "
  "a corner of the canvas as witness for <=); resets_canvas <=> mode == kReplace && (!have_crop || full image)")
K("fh.predicates", ["C05", "C14", "C01"], "jxl-frame", FH, FHM, "predicates_contract", "complete",
  ["FrameHeader::is_keyframe", "FrameHeader::can_reference", "FrameType::is_normal_frame", "FrameType::is_progressive_frame",
   "BlendMode::use_alpha", "FrameHeader::default_with_context"],
  "over all frame types x is_last x duration (u32) x save_as_reference (0..3): is_keyframe <=> normal frame && (is_last || duration != 0); "
  "can_reference <=> !is_last && (duration == 0 || save_as_reference != 0) && frame_type != kLFFrame; the all_default frame header is a "
  "regular, last, uncropped, kReplace, VarDCT frame of the image size that resets the canvas")

# ---- header.rs: geometry helpers, 4 x 4 x 5 instantiations ---------------------------------------------------------
_GEOM_FNS = ["FrameHeader::sample_width", "FrameHeader::sample_height", "FrameHeader::color_sample_width",
             "FrameHeader::color_sample_height", "FrameHeader::num_groups", "FrameHeader::num_lf_groups",
             "FrameHeader::group_dim", "FrameHeader::lf_group_dim", "FrameHeader::groups_per_row", "FrameHeader::lf_groups_per_row",
             "FrameHeader::size_for", "FrameHeader::group_size_for", "FrameHeader::lf_group_size_for"]
_TILE_FNS = ["FrameHeader::size_for", "FrameHeader::group_size_for", "FrameHeader::lf_group_size_for",
             "FrameHeader::group_idx_from_coord", "FrameHeader::lf_group_idx_from_group_idx",
             "FrameHeader::is_group_collides_region", "FrameHeader::is_lf_group_collides_region", "is_aabb_collides",
             "FrameHeader::num_groups", "FrameHeader::groups_per_row", "FrameHeader::lf_groups_per_row"]
_GEOM_REQ = ("requires 1 <= w,h <= 2^30, w*h <= 2^40 (Frame::parse, jxl-frame/src/lib.rs:124-140,207), upsampling=%d, group_size_shift=%d, "
             "lf_level=%d fixed (enumerated: symbolic divisors do not close), w/h symbolic; ")
_GEOM_TXT = (_GEOM_REQ + "ensures no overflow / division by zero; sample size = ceil(ceil(s/up)/8^lf); group_dim = 128<<shift; groups per row = "
             "ceil(w'/dim); num_groups = ceil(w'/gd)*ceil(h'/gd), num_lf_groups likewise (u64 arithmetic); size_for never panics for ANY u32 index")
_TILE_TXT = (_GEOM_REQ + "and the frame has at most %d x %d groups; for every in-frame sample (x,y): group_idx_from_coord is Some(raster index of "
             "its cell), the sample lies in that group's rectangle of size group_size_for = group_dim clipped to the frame (groups cover the "
             "frame, are non-empty, disjoint and inside it), lf_group_idx_from_group_idx is the raster index of the 8x8-group cell containing it "
             "and lf_group_size_for its clipped size; outside the group grid group_idx_from_coord is None (requires the index product not to "
             "overflow u32: the caller jxl-jbr scan.rs:419 passes padded in-frame coordinates); is_(lf_)group_collides_region <=> region and "
             "cell share a sample (requires non-empty region with u32-representable far edges, valid index); no overflow / panic")
_GEOM_QUICK = {(1, 1, 0), (1, 0, 0), (2, 1, 0), (8, 3, 0), (1, 0, 4), (4, 2, 2), (8, 0, 1), (1, 3, 3)}
for _up in (1, 2, 4, 8):
    for _g in (0, 1, 2, 3):
        for _l in (0, 1, 2, 3, 4):
            _q = (_up, _g, _l) in _GEOM_QUICK
            _s = "u%d_g%d_l%d" % (_up, _g, _l)
            K("fh.geom_" + _s, ["C01", "C14"], "jxl-frame", FH, FHM, "geom_" + _s, "complete", _GEOM_FNS, _GEOM_TXT % (_up, _g, _l),
              tier="quick" if _q else "thorough", timeout=600)
            K("fh.tile_" + _s, ["C01", "C14"], "jxl-frame", FH, FHM, "tile_" + _s,
              "bounded:frame of at most 16 x 16 groups (complete over all sizes, coordinates, indices and regions inside that bound)",
              _TILE_FNS, _TILE_TXT % (_up, _g, _l, 16, 16), tier="quick" if _q else "thorough", timeout=600)
            if _q:
                K("fh.tile64_" + _s, ["C01", "C14"], "jxl-frame", FH, FHM, "tile64_" + _s,
                  "bounded:frame of at most 64 x 64 groups (complete over all sizes, coordinates, indices and regions inside that bound)",
                  _TILE_FNS, _TILE_TXT % (_up, _g, _l, 64, 64), tier="thorough", timeout=1200)

# ---- header.rs: small bundles --------------------------------------------------------------------------------------
K("fh.blending_info_roundtrip", ["C14", "C05"], "jxl-frame", FH, FHM, "blending_info_roundtrip",
  "bounded:buffer 0..8 bytes (the bundle is at most 12 bits), all contexts (extra channels, colour mode, crop geometry), all field values",
  ["BlendingInfo::parse", "BlendMode::parse", "FrameHeader::resets_canvas"],
  "parse(spec_enc(h)) == h for every BlendingInfo the conditional layout allows, num_read_bits == bits written, trailing bits ignored; "
  "alpha_channel present iff extra && mode in {kBlend,kMulAdd}; clamp iff that or kMul; source iff the frame does not reset the canvas; "
  "raw modes 5,6 -> InvalidEnum; truncated buffer -> unexpected-eof", timeout=600)
K("fh.passes_roundtrip", ["C14"], "jxl-frame", FH, FHM, "passes_roundtrip",
  "bounded:num_passes <= 4 (of 11), all num_ds 0..4, all field values, both encodings of last_pass 0..2",
  ["Passes::parse"],
  "parse(spec_enc(h)) == h, vector lengths num_passes-1 / num_ds / num_ds, num_read_bits == bits written", timeout=600)

# ---- blend.rs: mode tables (complete) ------------------------------------------------------------------------------
K("bl.frame_mode_table", ["C05", "C01"], "jxl-render", BL, BLM, "frame_mode_table_contract", "complete",
  ["BlendParams::from_blending_info", "source_and_alpha_from_blending_info"],
  "over all 5 BlendModes x clamp x source x alpha_channel x channel position (colour / alpha channel itself / other extra channel, "
  "1 or 3 colour channels, up to 256 extra channels) x alpha present or not x canvas alpha plane present or not x alpha_associated: "
  "the selected operation (abstracted by view()) == spec_frame_channel_blend: kReplace->Replace, kAdd->Add, kMul->Mul(clamp), "
  "kBlend->alpha compositing with (clamp, premultiplied=alpha_associated), on the alpha channel itself a+b(1-a); kMulAdd->old+alpha*new, alpha "
  "channel kept; no alpha => kReplace/kAdd; swapped never; alpha planes passed through unexchanged; source/alpha index as encoded")
K("bl.patch_mode_table", ["C05", "C01"], "jxl-render", BL, BLM, "patch_mode_table_contract", "complete",
  ["BlendParams::from_patch_blending_info", "PatchBlendMode::try_from", "PatchBlendMode::use_alpha"],
  "over all 8 PatchBlendModes x clamp x alpha_channel x channel position x alpha_associated: == spec_patch_channel_blend: kNone->None, "
  "kReplace/kAdd/kMul(clamp), kBlendAbove/Below -> kBlend with swapped <=> Below, kMulAddAbove/Below -> kMulAdd with swapped <=> Below, on the "
  "alpha channel itself Above keeps the canvas alpha and Below takes the patch alpha; planes passed through unexchanged")

# ---- blend.rs: kernels (bounded geometry, complete over sample values) ----------------------------------------------
_KB = "bounded:base and new grids up to 2x2 samples (row stride 2), all offsets / rectangle sizes 0..2 that fit; complete over all finite f32 samples"
_KTXT = ("requires the blended rectangle inside both grids, alpha planes with the geometry of their sample grids, finite samples; ensures for "
         "every position of the base buffer: inside the rectangle the sample == spec_blend_pixel(%s) BIT-EXACTLY (NaNs identified), outside "
         "(incl. stride padding) unchanged; no panic / out-of-bounds; plus the standard's formula at the exact points (alpha 0 / 1, clamp of "
         "out-of-range alpha) independent of operation order")
for _h, _what in [("replace", "kReplace: new_sample; also the no-alpha form of kBlend"),
                  ("add", "kAdd: old + new; also the no-alpha form of kMulAdd"),
                  ("skip", "keep old_sample"),
                  ("mul", "kMul: old * new, new clamped to [0,1] if clamp"),
                  ("mix_alpha", "alpha channel under kBlend: lower + upper*(1-lower), upper clamped if clamp, layers exchanged if swapped"),
                  ("muladd", "kMulAdd: lower + alpha_upper*upper, alpha clamped if clamp, layers exchanged if swapped, absent canvas alpha = 0"),
                  ("blend_premultiplied", "kBlend premultiplied: upper + lower*(1-alpha_upper), clamp, swapped, absent canvas alpha = 0"),
                  ("blend_straight", "kBlend straight alpha: (a*upper + a_low*lower*(1-a)) * (1/alpha_out or 0), alpha_out = 1-(1-a)(1-a_low) "
                                     "[operation order of the reference decoder, forced by rounding], clamp, swapped, absent canvas alpha = 0")]:
    K("bl.kernel_" + _h, ["C05", "C01", "C02"], "jxl-render", BL, BLM, "kernel_%s_contract" % _h, _KB, ["blend_single"], _KTXT % _what,
      timeout=600)
