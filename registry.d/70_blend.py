# Frame composition: blend kernels + mode mapping (jxl-render/blend.rs), frame-header predicates and geometry helpers
# (jxl-frame/header.rs), TOC section order (jxl-frame/data/toc.rs).   ids: bl.* / fh.* / toc.*
BL = "crates/jxl-render/src/blend.rs"; BLM = "kani/jxl-render/blend.rs"
FH = "crates/jxl-frame/src/header.rs"; FHM = "kani/jxl-frame/header.rs"
TOC = "crates/jxl-frame/src/data/toc.rs"; TOCM = "kani/jxl-frame/toc.rs"
CANARIES["jxl-frame"] = dict(anchor=FH, module=FHM, harness="canary", kind="complete", fns=[], timeout=120)

# ---- header.rs: composition predicates --------------------------------------------------------------------------
# (C14 added by the orchestrator: resets_canvas, derived from test_full_image, decides which header fields are present)
K("fh.full_image", ["C05", "C14", "C01"], "jxl-frame", FH, FHM, "full_image_contract", "complete",
  ["FrameHeader::test_full_image", "FrameHeader::resets_canvas"],
  "no precondition beyond image size >= 1 (all i32 offsets, all u32 sizes, all 5 blend modes, have_crop): "
  "test_full_image <=> every canvas sample [0,W)x[0,H) lies in the frame rectangle [x0,x0+w)x[y0,y0+h) (symbolic sample for =>, "
  "a corner of the canvas as witness for <=); resets_canvas <=> mode == kReplace && (!have_crop || full image)")
K("fh.predicates", ["C05", "C14", "C01"], "jxl-frame", FH, FHM, "predicates_contract", "complete",
  ["FrameHeader::is_keyframe", "FrameHeader::can_reference", "FrameType::is_normal_frame", "FrameType::is_progressive_frame",
   "BlendMode::use_alpha", "FrameHeader::default_with_context"],
  "over all frame types x is_last x duration (u32) x save_as_reference (0..3): is_keyframe <=> normal frame && (is_last || duration != 0); "
  "can_reference <=> !is_last && (duration == 0 || save_as_reference != 0) && frame_type != kLFFrame; the all_default frame header is a "
  "regular, last, uncropped, kReplace, VarDCT frame of the image size that resets the canvas")

# ---- header.rs: geometry helpers, 4 x 4 x 5 instantiations ---------------------------------------------------------
_GEOM_FNS = ["FrameHeader::sample_width", "FrameHeader::sample_height", "FrameHeader::color_sample_width",
             "FrameHeader::color_sample_height", "FrameHeader::num_groups", "FrameHeader::num_lf_groups",
             "FrameHeader::group_dim", "FrameHeader::lf_group_dim", "FrameHeader::groups_per_row", "FrameHeader::lf_groups_per_row",
             "FrameHeader::size_for", "FrameHeader::group_size_for", "FrameHeader::lf_group_size_for"]
_TILE_FNS = ["FrameHeader::size_for", "FrameHeader::group_size_for", "FrameHeader::lf_group_size_for",
             "FrameHeader::group_idx_from_coord", "FrameHeader::lf_group_idx_from_group_idx",
             "FrameHeader::is_group_collides_region", "FrameHeader::is_lf_group_collides_region", "is_aabb_collides",
             "FrameHeader::num_groups", "FrameHeader::groups_per_row", "FrameHeader::lf_groups_per_row"]
_GEOM_REQ = ("requires 1 <= w,h <= 2^30, w*h <= 2^40 (Frame::parse, jxl-frame/src/lib.rs:124-140,207), upsampling=%d, group_size_shift=%d, "
             "lf_level=%d fixed (enumerated: symbolic divisors do not close), w/h symbolic; ")
_GEOM_TXT = (_GEOM_REQ + "ensures no overflow / division by zero; sample size = ceil(ceil(s/up)/8^lf); group_dim = 128<<shift; groups per row = "
             "ceil(w'/dim); num_groups = ceil(w'/gd)*ceil(h'/gd), num_lf_groups likewise (u64 arithmetic); size_for never panics for ANY u32 index")
_TILE_TXT = (_GEOM_REQ + "and the frame has at most %d x %d groups; for every in-frame sample (x,y): group_idx_from_coord is Some(raster index of "
             "its cell), the sample lies in that group's rectangle of size group_size_for = group_dim clipped to the frame (groups cover the "
             "frame, are non-empty, disjoint and inside it), lf_group_idx_from_group_idx is the raster index of the 8x8-group cell containing it "
             "and lf_group_size_for its clipped size; outside the group grid group_idx_from_coord is None (requires the index product not to "
             "overflow u32: the caller jxl-jbr scan.rs:419 passes padded in-frame coordinates); is_(lf_)group_collides_region <=> region and "
             "cell share a sample (requires non-empty region with u32-representable far edges, valid index); no overflow / panic")
_GEOM_QUICK = {(1, 1, 0), (1, 0, 0), (2, 1, 0), (8, 3, 0), (1, 0, 4), (4, 2, 2), (8, 0, 1), (1, 3, 3)}
for _up in (1, 2, 4, 8):
    for _g in (0, 1, 2, 3):
        for _l in (0, 1, 2, 3, 4):
            _q = (_up, _g, _l) in _GEOM_QUICK
            _s = "u%d_g%d_l%d" % (_up, _g, _l)
            K("fh.geom_" + _s, ["C01", "C14"], "jxl-frame", FH, FHM, "geom_" + _s, "complete", _GEOM_FNS, _GEOM_TXT % (_up, _g, _l),
              tier="quick" if _q else "thorough", timeout=600)
            K("fh.tile_" + _s, ["C01", "C14"], "jxl-frame", FH, FHM, "tile_" + _s,
              "bounded:frame of at most 16 x 16 groups (complete over all sizes, coordinates, indices and regions inside that bound)",
              _TILE_FNS, _TILE_TXT % (_up, _g, _l, 16, 16), tier="quick" if _q else "thorough", timeout=600)
            if _q:
                K("fh.tile64_" + _s, ["C01", "C14"], "jxl-frame", FH, FHM, "tile64_" + _s,
                  "bounded:frame of at most 64 x 64 groups (complete over all sizes, coordinates, indices and regions inside that bound)",
                  _TILE_FNS, _TILE_TXT % (_up, _g, _l, 64, 64), tier="thorough", timeout=1200)

# ---- header.rs: small bundles --------------------------------------------------------------------------------------
K("fh.blending_info_roundtrip", ["C14", "C05"], "jxl-frame", FH, FHM, "blending_info_roundtrip",
  "bounded:buffer 0..8 bytes (the bundle is at most 12 bits), all contexts (extra channels, colour mode, crop geometry), all field values",
  ["BlendingInfo::parse", "BlendMode::parse", "FrameHeader::resets_canvas"],
  "parse(spec_enc(h)) == h for every BlendingInfo the conditional layout allows, num_read_bits == bits written, trailing bits ignored; "
  "alpha_channel present iff extra && mode in {kBlend,kMulAdd}; clamp iff that or kMul; source iff the frame does not reset the canvas; "
  "raw modes 5,6 -> InvalidEnum; truncated buffer -> unexpected-eof", timeout=600)
# (Passes round trip: does not close in CBMC -- Vec collects with symbolic lengths -- no obligation registered)

# ---- blend.rs: mode tables (complete) ------------------------------------------------------------------------------
K("bl.frame_mode_table", ["C05", "C01"], "jxl-render", BL, BLM, "frame_mode_table_contract", "complete",
  ["BlendParams::from_blending_info", "source_and_alpha_from_blending_info"],
  "over all 5 BlendModes x clamp x source x alpha_channel x channel position (colour / alpha channel itself / other extra channel, "
  "1 or 3 colour channels, up to 256 extra channels) x alpha present or not x canvas alpha plane present or not x alpha_associated: "
  "the selected operation (abstracted by view()) == spec_frame_channel_blend: kReplace->Replace, kAdd->Add, kMul->Mul(clamp), "
  "kBlend->alpha compositing with (clamp, premultiplied=alpha_associated), on the alpha channel itself a+b(1-a); kMulAdd->old+alpha*new, alpha "
  "channel kept; no alpha => kReplace/kAdd; swapped never; alpha planes passed through unexchanged; source/alpha index as encoded")
K("bl.patch_mode_table", ["C05", "C01"], "jxl-render", BL, BLM, "patch_mode_table_contract", "complete",
  ["BlendParams::from_patch_blending_info", "PatchBlendMode::try_from", "PatchBlendMode::use_alpha"],
  "over all 8 PatchBlendModes x clamp x alpha_channel x channel position x alpha_associated: == spec_patch_channel_blend: kNone->None, "
  "kReplace/kAdd/kMul(clamp), kBlendAbove/Below -> kBlend with swapped <=> Below, kMulAddAbove/Below -> kMulAdd with swapped <=> Below, on the "
  "alpha channel itself Above keeps the canvas alpha and Below takes the patch alpha; planes passed through unexchanged")

# ---- blend.rs: kernels ----------------------------------------------------------------------------------------------
_KREQ = ("requires the blended rectangle inside both grids, alpha planes with the geometry of their sample grids (what blend()/patch() "
         "establish by intersecting regions), finite samples; ")
_KB_ALL = ("bounded:base and new grids up to 2x2 samples (row stride 2), ALL offsets / rectangle sizes 0..2 that fit, all flags; "
           "complete over all finite f32 samples")
for _h, _what in [("replace", "kReplace: sample = new_sample"),
                  ("blend_no_alpha", "kBlend on an image without alpha (no new alpha plane, any flags) behaves as kReplace"),
                  ("skip", "kept channel (alpha under kMulAdd / kMulAddAbove): sample = old_sample")]:
    K("bl.kernel_" + _h, ["C05", "C01", "C02"], "jxl-render", BL, BLM, "kernel_%s_contract" % _h, _KB_ALL, ["blend_single"],
      _KREQ + "ensures for every position of the base buffer: inside the rectangle the sample == spec_blend_pixel (%s) bit for bit, outside "
      "(incl. stride padding) unchanged; no panic / out-of-bounds access" % _what, timeout=600)
K("bl.kernel_add_all_geometries", ["C05", "C01", "C02"], "jxl-render", BL, BLM, "kernel_add_all_geometries", _KB_ALL, ["blend_single"],
  _KREQ + "ensures inside the rectangle sample == old_sample + new_sample bit for bit (NaNs identified), outside unchanged",
  tier="thorough", timeout=1200)
_KB_Q = ("bounded:2 concrete geometries on 2x2 grids (one sample with offsets crossed in both axes; empty rectangle on a narrow grid), every "
         "buffer position checked; complete over all flags, canvas-alpha presence and all finite f32 samples")
_KB_W = ("bounded:3 concrete geometries on 2x2 grids (column of two from a narrow grid, row of two from a flat grid, empty rectangle), every "
         "buffer position checked; complete over all flags, canvas-alpha presence and all finite f32 samples")
_KFALL = (" [FALL-BACK: a bit-exact comparison with spec_blend_pixel does not close in CBMC for multiplications / divisions (two float circuits "
          "to be proved equivalent; > 20 min), nor does symbolic geometry with float arithmetic; values are pinned at the points where "
          "binary32 evaluation is exact and order-independent]")
for _h, _what, _fb in [
        ("add", "kAdd: sample == old + new BIT-EXACTLY", ""),
        ("muladd_no_alpha", "kMulAdd on an image without alpha (any flags): sample == old + new BIT-EXACTLY", ""),
        ("mul", "kMul: factor 1 keeps, factor 0 gives 0, clamp: factor >= 1 acts as 1 and <= 0 as 0, no clamp: factor -2 doubles and negates", _KFALL),
        ("mix_alpha", "alpha channel under kBlend, a = lower + upper(1-lower): upper 0 keeps lower, lower 0 gives (clamped) upper, lower 1 stays 1; "
                      "layers exchanged iff swapped", _KFALL),
        ("muladd", "kMulAdd, lower + alpha_upper*upper: (clamped) alpha 0 keeps lower, alpha 1 adds bit-exactly, clamp limits alpha > 1 to 1; layers and "
                   "the alpha plane exchanged iff swapped; absent canvas alpha = 0", _KFALL),
        ("blend_premultiplied", "premultiplied kBlend, upper + lower(1-alpha_upper): alpha 1 gives upper, alpha 0 gives upper+lower bit-exactly, clamp "
                                "limits alpha > 1 to 1; exchanged iff swapped", _KFALL),
        ("blend_straight", "straight-alpha kBlend (|values| <= 2^40 so that no intermediate overflows into NaN): alpha 1 gives upper, alpha 0 over an "
                           "opaque lower layer gives lower, both transparent gives 0, clamp limits alpha > 1 to 1; exchanged iff swapped", _KFALL)]:
    K("bl.kernel_" + _h, ["C05", "C01", "C02"], "jxl-render", BL, BLM, "kernel_%s_contract" % _h, _KB_Q, ["blend_single"],
      _KREQ + "ensures outside the rectangle every sample of the base buffer is unchanged (bit-exact); inside: " + _what + _fb, timeout=900)
    K("bl.kernel_%s_wide" % _h, ["C05", "C01", "C02"], "jxl-render", BL, BLM, "kernel_%s_wide" % _h, _KB_W, ["blend_single"],
      _KREQ + "same contract as bl.kernel_%s on rectangles of two samples" % _h, tier="thorough", timeout=1200)
K("bl.spec_clamp", ["C05"], "jxl-render", BL, BLM, "spec_clamp01_is_clamp", "complete", ["f32::clamp"],
  "the clamp used by the kernels and by spec_blend_pixel is the standard's case distinction: < 0 -> 0, > 1 -> 1, otherwise unchanged, over all f32")

# ---- toc.rs: section order -----------------------------------------------------------------------------------------
K("toc.section_order", ["C14", "C01"], "jxl-frame", TOC, TOCM, "section_order_contract",
  "bounded:4 table shapes (num_lf_groups, num_groups, num_passes) = (1,1,1) single section, (1,1,2), (1,2,1), (2,3,2); every permutation of each table, every section",
  ["Toc::group_index_bitstream_order", "Toc::is_single_entry", "TocGroupKind::cmp"],
  "requires the Toc invariant established by Toc::parse (table length 1 or 1+num_lf_groups+1+num_groups*num_passes, permutation empty or a "
  "permutation of the table) and a section the callers ask for (All iff single section; indices in range); ensures result == "
  "permutation[standard's section index] (LfGlobal, LfGroups in raster order, HfGlobal, PassGroups pass-major), result < table length, "
  "distinct sections -> distinct positions, unpermuted order == Ord of TocGroupKind", timeout=600)
