# decode_icc command interpreter: one obligation per command shape (concrete command stream, symbolic data stream)
_D = "crates/jxl-color/src/icc/decode.rs"; _DM = "kani/jxl-color/decode.rs"
K("icc.header_only", ["C18", "C01"], "jxl-color", _D, _DM, "icc_header_only",
  "bounded:output_size in {0,1,44,127,128}, all residual bytes", ["decode_icc", "predict_header"],
  "profile of <= 128 bytes: Ok, byte i == residual i + standard header prediction from the decoded bytes; one residual missing => Err")
K("icc.cmd_copy", ["C18", "C01"], "jxl-color", _D, _DM, "icc_cmd_copy",
  "bounded:128 header bytes + one command 1 of 5 bytes, all data bytes", ["decode_icc"],
  "whole profile == header ++ the 5 data bytes")
