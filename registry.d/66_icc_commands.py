# decode_icc command interpreter (E.4.3-E.4.5): one obligation per command shape.
# Concrete command stream (every interpreter branch / loop bound is concrete), symbolic data stream (hence symbolic
# previously decoded output); postcondition: whole decoded profile == executable spec written from the definition.
_D = "crates/jxl-color/src/icc/decode.rs"; _DM = "kani/jxl-color/decode.rs"
_F = ["decode_icc", "predict_header", "varint"]
# Kani's per-assertion reachability goals cost thousands of SAT iterations on these harnesses (270 s vs 40 s); vacuity is
# guarded by explicit kani::cover! / by asserting that the Ok (or Err) outcome is the one that occurs.
_NR = ["--no-assertion-reach-checks"]
K("icc.header_small", ["C18", "C01"], "jxl-color", _D, _DM, "icc_header_small",
  "bounded:output_size in {0,1,44}, all residual bytes", _F,
  "profile of <= 128 bytes: Ok, byte i == residual i + standard header prediction from the decoded bytes; one residual missing => Err", kani_args=_NR)
K("icc.header_127", ["C18", "C01"], "jxl-color", _D, _DM, "icc_header_127",
  "bounded:output_size 127, all residual bytes", _F,
  "Ok, every byte == residual + standard header prediction (size bytes, version, mntrRGB XYZ, acsp, platform completion, creator copy)", kani_args=_NR)
K("icc.header_128", ["C18", "C01"], "jxl-color", _D, _DM, "icc_header_128",
  "bounded:output_size 128, all residual bytes", _F,
  "Ok without reading any command, every byte == residual + prediction; 127 residuals => Err", kani_args=_NR)
K("icc.cmd_copy_shuffle", ["C18", "C01"], "jxl-color", _D, _DM, "icc_cmd_copy_shuffle",
  "bounded:command stream [no tags; 1 x5; 2 x5; 3 x7; 3 x2; 2 x1; 1 x0], all 148 data bytes", _F + ["shuffle2", "shuffle4"],
  "profile == header ++ raw bytes ++ column-wise reads of the 2-/4-row matrices (lengths not multiples of the width)", kani_args=_NR)
K("icc.cmd_xyz_common", ["C18", "C01"], "jxl-color", _D, _DM, "icc_cmd_xyz_common",
  "bounded:command stream [no tags; 10; 16..23; 10], all data bytes", _F,
  "command 10 == 'XYZ ' 0000 ++ 12 data bytes; command 16+k == k-th common type signature ++ 0000", kani_args=_NR)
_PRED = ("each run byte i == unshuffled payload[i] + byte (i mod width) of the big-endian order-N prediction (p1 | 2p1-p2 | 3p1-3p2+p3 "
         "mod 2^(8 width)) from the elements 1,2,3 strides before the start of the element containing i")
for _h, _b in (("predict_w1", "six command-4 runs of width 1 (orders 0,1,2 x implicit stride / explicit strides 2,5,31)"),
               ("predict_w2", "six command-4 runs of width 2 (orders 0,1,2 x implicit stride / explicit strides 3,5,8; odd lengths: partial last element)"),
               ("predict_w4_implicit", "three command-4 runs of width 4, implicit stride, orders 0,1,2, lengths 9,7,10 (partial last element)"),
               ("predict_w4_explicit", "three command-4 runs of width 4, explicit strides 5,7,12, orders 0,1,2, lengths 5,6,11 (partial last element)")):
    K("icc." + _h, ["C18", "C01"], "jxl-color", _D, _DM, "icc_" + _h, "bounded:" + _b + ", all data bytes",
      _F + ["shuffle2", "shuffle4"], _PRED, kani_args=_NR)
K("icc.predict_flags_reject", ["C18", "C01"], "jxl-color", _D, _DM, "icc_predict_flags_reject",
  "bounded:two concrete command streams (flags 2 = width 3; flags 12 = order 3), all data bytes", _F, "Err", kani_args=_NR)
K("icc.predict_stride_small", ["C18", "C01"], "jxl-color", _D, _DM, "icc_predict_stride_small",
  "bounded:two concrete command streams (width 2 stride 1; width 4 stride 3), all data bytes", _F,
  "explicit stride < width => Err (stride > width accepted in icc.predict_w*)", kani_args=_NR)
K("icc.predict_stride_far", ["C18", "C01"], "jxl-color", _D, _DM, "icc_predict_stride_far",
  "bounded:width 1 order 0 run of 3 bytes after exactly 128 decoded bytes, strides 31 and 32, all data bytes", _F,
  "stride 31 => Ok, byte i == payload[i] + byte 31 positions earlier; stride 32 (4*stride >= bytes decoded so far) => Err", kani_args=_NR)
K("icc.cmd_invalid", ["C18", "C01"], "jxl-color", _D, _DM, "icc_cmd_invalid",
  "bounded:main-content command bytes 0 and 24 after a complete profile, all data bytes", _F, "Err", kani_args=_NR)
K("icc.cmd_invalid_more", ["C18", "C01"], "jxl-color", _D, _DM, "icc_cmd_invalid_more",
  "bounded:main-content command bytes 5, 15, 129, 255 after a complete profile, all data bytes", _F, "Err", tier="thorough", timeout=1200, kani_args=_NR)
K("icc.short_payload_12", ["C18", "C01"], "jxl-color", _D, _DM, "icc_short_payload_12",
  "bounded:commands 1 and 2 with length 6 and 5 payload bytes, all data bytes", _F, "Err", kani_args=_NR)
K("icc.short_payload_34", ["C18", "C01"], "jxl-color", _D, _DM, "icc_short_payload_34",
  "bounded:command 3 (6 announced, 5 present) and command 4 (3 announced, 2 present), all data bytes", _F, "Err", kani_args=_NR)
K("icc.short_payload_10", ["C18", "C01"], "jxl-color", _D, _DM, "icc_short_payload_10",
  "bounded:command 10 with 11 payload bytes, all data bytes", _F, "Err", kani_args=_NR)
K("icc.end_size_mismatch", ["C18"], "jxl-color", _D, _DM, "icc_end_size_mismatch",
  "bounded:[no tags; 1 x6] with output_size 133 and 135, all data bytes", _F,
  "all commands and data consumed but decoded length != output_size => Err (both directions)", kani_args=_NR)
K("icc.cmd_truncated", ["C18", "C01"], "jxl-color", _D, _DM, "icc_cmd_truncated",
  "bounded:empty command stream (no tag count); complete profile followed by command 4 without flags; all data bytes", _F, "Err", kani_args=_NR)
K("icc.tag_literal", ["C18", "C01"], "jxl-color", _D, _DM, "icc_tag_literal",
  "bounded:command stream [1 tag; tagcode 1 without flags; end; 1 x20], all tag names and data bytes", _F,
  "entry == (name from the data stream, 128 + 12, 20 if the NAME is one of rXYZ gXYZ bXYZ kXYZ wtpt bkpt lumi else 0)", kani_args=_NR)
K("icc.tag_literal_overrun", ["C18", "C01"], "jxl-color", _D, _DM, "icc_tag_literal_overrun",
  "bounded:same with 4 bytes after the tag list, all tag names and data bytes", _F,
  "Err iff the literal name implies size 20 (140 + 20 > output_size 148); else Ok with size 0", kani_args=_NR)
K("icc.tag_flags_chain", ["C18", "C01"], "jxl-color", _D, _DM, "icc_tag_flags_chain",
  "bounded:five literal tags with flags (start+size | start | size | none | start+size ending exactly at output_size), concrete varints, all names and data bytes", _F,
  "explicit start/size are used verbatim (explicit size beats the name); missing start == previous start + previous size; "
  "missing size == 20 by name else previous size; start + size == output_size accepted", kani_args=_NR)
K("icc.tag_size_mismatch", ["C18", "C01"], "jxl-color", _D, _DM, "icc_tag_size_mismatch",
  "bounded:two concrete command streams (explicit 150+51 > 200; chained wtpt 184+20 > 200), all data bytes", _F,
  "tag start + size > output_size => Err (explicit and chained/implied)", kani_args=_NR)
K("icc.tag_triples", ["C18", "C01"], "jxl-color", _D, _DM, "icc_tag_triples",
  "bounded:seven tagcode-2/3 commands (no flags, start+size, size only, chaining after a triple) = 21 entries, all data bytes", _F,
  "tagcode 2 => rTRC gTRC bTRC all (start, size); tagcode 3 => rXYZ (start), gXYZ (start+size), bXYZ (start+2*size), implied size 20; "
  "the tag after a triple continues at start+size of its FIRST entry", kani_args=_NR)
K("icc.tag_shortcuts", ["C18", "C01"], "jxl-color", _D, _DM, "icc_tag_shortcuts",
  "bounded:tagcodes 4..=20 once each in order, first with explicit start 0, all header bytes", _F,
  "names == cprt wtpt bkpt rXYZ gXYZ bXYZ kXYZ rTRC gTRC bTRC kTRC chad desc chrm dmnd dmdd lumi; start chained; size 20 by name else inherited; "
  "commands ending inside the tag list with exactly output_size bytes is a valid end", kani_args=_NR)
K("icc.tag_num_bound", ["C18", "C01"], "jxl-color", _D, _DM, "icc_tag_num_bound",
  "bounded:output_size 164, tag-count varint 4 and 5, empty tag list, all data bytes", _F,
  "count written big-endian after the header; count > (output_size - 128) / 12 => Err", kani_args=_NR)
K("icc.tag_zero", ["C18", "C01"], "jxl-color", _D, _DM, "icc_tag_zero",
  "bounded:output_size 164, tag-count varint 1 (zero tags), all data bytes", _F,
  "count 0 is written, list terminated by tagcode 0, main content follows", kani_args=_NR)
K("icc.tag_invalid_code", ["C18", "C01"], "jxl-color", _D, _DM, "icc_tag_invalid_code",
  "bounded:tag command bytes 21 and 63|flags", _F, "Err", kani_args=_NR)
K("icc.tag_truncated", ["C18", "C01"], "jxl-color", _D, _DM, "icc_tag_truncated",
  "bounded:two concrete truncated tag commands (literal name missing, start varint missing)", _F, "Err", kani_args=_NR)
K("icc.tag_truncated_more", ["C18", "C01"], "jxl-color", _D, _DM, "icc_tag_truncated_more",
  "bounded:three more concrete tag commands (size varint missing x2, tagcode 40)", _F, "Err", tier="thorough", timeout=1200, kani_args=_NR)
K("icc.tag_list_end_size", ["C18"], "jxl-color", _D, _DM, "icc_tag_list_end_size",
  "bounded:output_size 200, command stream [1 tag] ending inside the tag list, all header bytes", _F,
  "Ok only if exactly output_size bytes were produced (libjxl: 'Wrong output size')", kani_args=_NR)
K("icc.mixed_profile", ["C18", "C01"], "jxl-color", _D, _DM, "icc_mixed_profile",
  "bounded:one command stream using all sections (2 tags; width-4 order-1 stride-12 run predicted from the tag entries; 2-shuffle; 10; 19), all names and data bytes", _F + ["shuffle2", "shuffle4"],
  "whole profile == header ++ tag count ++ entries ++ predicted run (from tag-list bytes) ++ shuffled ++ XYZ block ++ mluc signature", kani_args=_NR)
