#!/usr/bin/env python3
"""Confirms seeded changes independently of the agent that wrote them.

  seed_confirm.py <src dir with patch.diff, meta.json, demo files> <name>   -> /verif/seeded/<name>/

In a scratch worktree (/tmp/sconf, reused so that builds are incremental; removed with --cleanup):
  1. demo on unchanged HEAD must pass, 2. demo with the patch must fail,
  3. full offline suite with the patch: the set of passing tests must equal the unchanged tree's.
Writes confirm.json next to the copied files; keeps the seed only if all three hold.
"""
import json
import os
import re
import shutil
import subprocess
import sys

WT = "/tmp/sconf"
VERIF = os.path.dirname(os.path.dirname(os.path.abspath(__file__)))


def sh(cmd, cwd=WT, timeout=3600):
    p = subprocess.run(cmd, shell=True, cwd=cwd, stdout=subprocess.PIPE, stderr=subprocess.STDOUT, text=True, timeout=timeout)
    return p.returncode, p.stdout


def suite():
    rc, out = sh("cargo test -j 6 --workspace --no-fail-fast --offline 2>&1 | grep -E '^test ' | grep -v '^test result' | sort")
    return [l for l in out.splitlines() if l.startswith("test ")]


def main():
    if sys.argv[1] == "--cleanup":
        subprocess.call(["git", "-C", "/repo", "worktree", "remove", "--force", WT])
        return 0
    src, name = sys.argv[1], sys.argv[2]
    if not os.path.isdir(WT):
        subprocess.check_call(["git", "-C", "/repo", "worktree", "add", "-q", "--detach", WT, "HEAD"])
    sh("git reset -q --hard && git checkout -q --detach $(git -C /repo rev-parse HEAD) && git reset -q --hard && git clean -fdq -e target")
    base_file = "/tmp/sconf_baseline_%s.txt" % subprocess.check_output(["git", "-C", "/repo", "rev-parse", "--short", "HEAD"], text=True).strip()
    if not os.path.exists(base_file):
        open(base_file, "w").write("\n".join(suite()))
    baseline = open(base_file).read().splitlines()
    meta = json.load(open(os.path.join(src, "meta.json")))
    demo_cmd = meta["demo_cmd"]
    demo_cmd = re.sub(r"^\(at the repo root\)\s*", "", demo_cmd)
    # normalise `cp <wherever>/<demo file> <dest>`: take the file from the seed dir, make sure dest dir exists
    def fix_cp(m):
        a, b = m.group(1), m.group(2)
        base = os.path.basename(a)
        if os.path.exists(os.path.join(src, base)):
            a = os.path.join(os.path.abspath(src), base)
        d = b if b.endswith("/") or not b.endswith(".rs") else os.path.dirname(b)
        return "mkdir -p %s && cp %s %s" % (d, a, b)
    demo_cmd = re.sub(r"\bcp\s+(\S+)\s+(\S+)", fix_cp, demo_cmd)
    res = {"name": name, "property": meta["property"]}
    rc, out = sh(demo_cmd)
    res["demo_without_change"] = {"exit": rc, "tail": out[-600:]}
    sh("git reset -q --hard && git clean -fdq -e target")
    pf = os.path.join(os.path.abspath(src), "patch.diff")
    rc_a, out_a = sh("git apply %s || patch -p1 --fuzz=3 < %s" % (pf, pf))
    res["patch_applies"] = rc_a == 0
    rc_d, cur_diff = sh("git diff HEAD -- . ':!*/tests/*'")
    rc2, out2 = sh(demo_cmd)
    res["demo_with_change"] = {"exit": rc2, "tail": out2[-900:]}
    demo_failed_as_test = rc2 != 0 and ("test result: FAILED" in out2 or "panicked at" in out2)
    sh("git reset -q --hard && git clean -fdq -e target")
    sh("git apply %s || patch -p1 --fuzz=3 < %s" % (pf, pf))
    st = suite()
    res["suite_with_change"] = {"passed": sum(1 for l in st if l.endswith(" ok")), "failed": sum(1 for l in st if "FAILED" in l),
                                "same_as_unchanged": st == baseline,
                                "diff": [l for l in st if l not in baseline][:10] + ["MISSING " + l for l in baseline if l not in st][:10]}
    res["baseline"] = {"passed": sum(1 for l in baseline if l.endswith(" ok")), "failed": sum(1 for l in baseline if "FAILED" in l)}
    sh("git reset -q --hard && git clean -fdq -e target")
    ok = rc == 0 and rc_a == 0 and demo_failed_as_test and res["suite_with_change"]["same_as_unchanged"]
    res["confirmed"] = ok
    dst = os.path.join(VERIF, "seeded", name)
    if ok:
        os.makedirs(dst, exist_ok=True)
        for f in os.listdir(src):
            if f.startswith("suite"):
                continue
            shutil.copy(os.path.join(src, f), dst)
        # store the patch as it applies to the current HEAD of /repo
        open(os.path.join(dst, "patch.diff"), "w").write(cur_diff)
        meta["demo_cmd"] = demo_cmd.replace(os.path.abspath(src), dst).replace(src.rstrip("/"), dst)
        meta["what_i_ran"] = ("tools/seed_confirm.py: demo on unchanged HEAD (exit %d), patch applied, demo with change (exit %d), "
                              "full `cargo test --workspace --no-fail-fast --offline` with change: %d passed / %d failed, identical test-by-test "
                              "to the unchanged tree" % (rc, rc2, res["suite_with_change"]["passed"], res["suite_with_change"]["failed"]))
        json.dump(meta, open(os.path.join(dst, "meta.json"), "w"), indent=1)
        json.dump(res, open(os.path.join(dst, "confirm.json"), "w"), indent=1)
    print(json.dumps({k: res[k] for k in ("name", "confirmed")}), "demo_ok_without=%s demo_fails_with=%s suite_same=%s" %
          (rc == 0, rc2 != 0, res["suite_with_change"]["same_as_unchanged"]))
    if not ok:
        print(json.dumps(res, indent=1)[:3000])
    return 0


if __name__ == "__main__":
    sys.exit(main())
