#!/usr/bin/env python3
"""Regenerates the generated part of DESIGN.md (between the markers) from the registry and selftest results."""
import json, os, sys, subprocess
VERIF = os.path.dirname(os.path.dirname(os.path.abspath(__file__)))
sys.path.insert(0, VERIF)
import registry
out = []
out.append("### 9.7 What is under contract now (generated from the registry by tools/gen_design_tables.py)\n")
out.append("| property | obligations (complete / bounded / Verus) | in quick command | crates | real functions under contract |")
out.append("|---|---|---|---|---|")
props = sorted({p for o in registry.OBLIGATIONS for p in o["props"]})
for p in props:
    obs = [o for o in registry.OBLIGATIONS if p in o["props"]]
    c = sum(1 for o in obs if o["kind"] == "complete")
    v = sum(1 for o in obs if o["kind"] == "verus")
    b = len(obs) - c - v
    q = sum(1 for o in obs if o.get("tier", "quick") == "quick" and (o.get("quick_props") is None or p in o["quick_props"]))
    crates = sorted({o["crate"] for o in obs if o.get("crate")})
    fns = sorted({f for o in obs for f in o["fns"]})
    out.append("| %s | %d (%d / %d / %d) | %d | %s | %d, e.g. %s |" % (p, len(obs), c, b, v, q, ", ".join(x.replace("jxl-", "") for x in crates), len(fns), ", ".join("`%s`" % f for f in fns[:6])))
out.append("")
out.append("Total: %d obligations over %d distinct real functions. Deviations from section 4: the ANS alias-table and prefix table construction "
           "close only on concrete / bounded headers (with `--max-field-sensitivity-array-size 512`), compressed-form ANS histograms, `parse_complex`, the "
           "weighted-predictor combination, the `Passes` round trip and the feed-level C09 relation did not close in CBMC "
           "(listed as unverified in the evidence of C04/C03/C14/C09); blend kernels other than Replace/Add/Skip use the documented exact-point fallback; "
           "header geometry index functions are bounded to 16x16 / 64x64 group grids instead of complete.\n" % (len(registry.OBLIGATIONS), len({f for o in registry.OBLIGATIONS for f in o["fns"]})))
rp = os.path.join(VERIF, "selftest", "results.json")
if os.path.exists(rp):
    out.append("### 9.8 Which checks catch which seeded changes (generated from selftest/results.json)\n")
    out.append("Each seeded change was produced by a fresh agent that saw only the property text, was confirmed independently (demo passes on HEAD, "
               "fails with the change, the full offline suite is unchanged: `seeded/<name>/confirm.json`), and was then run against every quick-tier "
               "obligation anchored in the patched file that names the patched function (`tools/selftest.py`).\n")
    out.append(subprocess.check_output([sys.executable, os.path.join(VERIF, "tools", "gen_seed_table.py")], text=True))
    res = json.load(open(rp))
    ben = {k: v for k, v in res.items() if k.startswith("benign/")}
    if ben:
        out.append("\nBenign refactors (must stay exit 0): " + "; ".join("%s: %s" % (k[7:], "ok" if v["ok"] else "UNEXPECTED") for k, v in sorted(ben.items())) + "\n")
text = "\n".join(out)
p = os.path.join(VERIF, "DESIGN.md")
s = open(p).read()
B, E = "<!-- GENERATED-BEGIN -->", "<!-- GENERATED-END -->"
if B in s:
    s = s[:s.index(B)] + B + "\n" + text + "\n" + E + s[s.index(E) + len(E):]
else:
    s += "\n" + B + "\n" + text + "\n" + E + "\n"
open(p, "w").write(s)
print("DESIGN.md updated")
