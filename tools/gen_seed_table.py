#!/usr/bin/env python3
"""Markdown table of seeded changes vs. the checks that catch them, from selftest/results.json and seeded/*/meta.json."""
import glob, json, os
VERIF = os.path.dirname(os.path.dirname(os.path.abspath(__file__)))
res = json.load(open(os.path.join(VERIF, "selftest", "results.json")))
print("| seed | property | change (file: what) | needs | caught by (property: obligations) | quick tier |")
print("|---|---|---|---|---|---|")
for d in sorted(glob.glob(os.path.join(VERIF, "seeded", "*", "meta.json"))):
    name = os.path.basename(os.path.dirname(d))
    m = json.load(open(d))
    r = res.get("seeded/" + name, {})
    files = sorted({l[6:].strip().replace("crates/", "") for l in open(os.path.join(os.path.dirname(d), "patch.diff")) if l.startswith("+++ b/")})
    caught = r.get("caught_by", [])
    obl = ", ".join(r.get("failing_obligations", [])[:4])
    own = m["property"]
    verdict = ("**%s**: %s" % (",".join(caught), obl)) if caught else ("missed" + (" (undecided: %s)" % r["undecided"][0][:60] if r.get("undecided") else ""))
    if r.get("note"):
        verdict += " - " + r["note"][:160].replace("|", "/")
    print("| %s | %s | %s: %s | %s | %s | %s |" % (name, own, ", ".join(files), m.get("summary", "")[:110].replace("|", "/").replace("\n", " "),
          m.get("needs", "")[:90].replace("|", "/").replace("\n", " "), verdict, ",".join(r.get("caught_in_quick_tier", [])) or "-"))
