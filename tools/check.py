#!/usr/bin/env python3
"""Contract checker for jxl-oxide: runs the obligations of one property against /repo's working tree.

Usage:
  check.py <Cxx> [--tier quick|thorough] [--only OBLIGATION_ID[,..]] [--keep] [--jobs N]
  check.py --replay FILE
  check.py --list

Exit codes: 0 property held on everything decided; 1 a VIOLATION line was printed;
2 UNDECIDED / machinery problem (never accompanied by a VIOLATION line).
"""
import argparse
import json
import os
import re
import shutil
import signal
import subprocess
import sys
import tempfile
import threading
import time

VERIF = os.path.dirname(os.path.dirname(os.path.abspath(__file__)))
REPO = os.environ.get("VERIF_REPO", "/repo")
# evidence/replay output directory (redirect when checking a scratch worktree so /verif/evidence is not clobbered)
OUT = os.environ.get("VERIF_OUT", VERIF)
sys.path.insert(0, VERIF)
import registry  # noqa: E402

KANI_ENV = dict(os.environ, CARGO_NET_OFFLINE="true", CARGO_TERM_COLOR="never")
LIB_CRATES = [
    "jxl-bitstream", "jxl-coding", "jxl-color", "jxl-frame", "jxl-grid", "jxl-image", "jxl-jbr",
    "jxl-modular", "jxl-oxide", "jxl-oxide-common", "jxl-render", "jxl-threadpool", "jxl-vardct",
]
# CBMC check classes that express an out-of-bounds / invalid memory access (C02).
MEMSAFE_CLASSES = {"pointer_dereference", "array_bounds", "bounds_check", "pointer", "memory-leak",
                   "pointer_arithmetic", "pointer_primitives", "deallocated", "dead_object", "uninit"}
RSS_LIMIT_KB = int(os.environ.get("VERIF_RSS_LIMIT_GB", "14")) * 1024 * 1024


def log(*a):
    print(*a, file=sys.stderr, flush=True)


# --------------------------------------------------------------------------------------------
# scratch workspace
# --------------------------------------------------------------------------------------------

def make_scratch():
    d = tempfile.mkdtemp(prefix="jxlv.")
    os.makedirs(os.path.join(d, "crates"))
    for c in LIB_CRATES:
        src = os.path.join(REPO, "crates", c)
        if os.path.isdir(src):
            subprocess.check_call(["rsync", "-a", "--exclude", "target", "--exclude", "tests/",
                                   src, os.path.join(d, "crates") + "/"])
    shutil.copy(os.path.join(REPO, "Cargo.lock"), d)
    with open(os.path.join(REPO, "Cargo.toml")) as f:
        toml = f.read()
    toml = toml.replace('members = ["crates/*"]',
                        "members = [" + ", ".join('"crates/%s"' % c for c in LIB_CRATES) + "]")
    toml += '\n[patch.crates-io]\ntracing = { path = "%s/stubs/tracing" }\n' % VERIF
    with open(os.path.join(d, "Cargo.toml"), "w") as f:
        f.write(toml)
    os.makedirs(os.path.join(d, ".cargo"))
    with open(os.path.join(d, ".cargo", "config.toml"), "w") as f:
        f.write("[net]\noffline = true\n")
    return d


def module_path(anchor):
    """crates/<c>/src/a/b.rs -> a::b::verif_harness ; src/lib.rs -> verif_harness ; a/mod.rs -> a::verif_harness"""
    rel = anchor.split("/src/", 1)[1]
    parts = rel[:-3].split("/")
    if parts[-1] in ("lib", "mod"):
        parts = parts[:-1]
    return "::".join(parts + ["verif_harness"])


class Undecided(Exception):
    pass


def instrument(scratch, obligations, extra_tests=None):
    """Append harness modules and insert contract attributes. Append-only for modules; attribute
    insertion is keyed by an anchor string that must occur exactly once in the real file."""
    done_mod = set()
    done_attr = set()
    for ob in obligations:
        anchor = ob["anchor"]
        module = ob["module"]
        key = (anchor, module)
        if key not in done_mod:
            done_mod.add(key)
            path = os.path.join(scratch, anchor)
            if not os.path.exists(path):
                raise Undecided("anchor file %s no longer exists" % anchor)
            modsrc = os.path.join(VERIF, "contracts", module)
            # harness modules are copied so that replay tests can be appended without touching /verif
            dst = os.path.join(scratch, "verif_harness", module.replace("/", "__"))
            os.makedirs(os.path.dirname(dst), exist_ok=True)
            text = open(modsrc).read()
            text = text.replace("@SPEC@", os.path.join(VERIF, "contracts", "spec"))
            if extra_tests and module in extra_tests:
                text += "\n" + extra_tests[module]
            with open(dst, "w") as f:
                f.write(text)
            with open(path, "a") as f:
                f.write('\n#[cfg(kani)]\n#[path = "%s"]\nmod verif_harness;\n' % dst)
        for at in ob.get("attrs", []):
            akey = (at["file"], at["before"])
            if akey in done_attr:
                continue
            done_attr.add(akey)
            path = os.path.join(scratch, at["file"])
            src = open(path).read()
            n = src.count(at["before"])
            if n != 1:
                raise Undecided("contract anchor %r occurs %d times in %s (function renamed or "
                                "signature changed: update the registry)" % (at["before"], n, at["file"]))
            idx = src.index(at["before"])
            # insert at the start of the line containing the anchor
            ls = src.rfind("\n", 0, idx) + 1
            indent = re.match(r"[ \t]*", src[ls:]).group(0)
            ins = "".join("%s#[cfg_attr(kani, %s)]\n" % (indent, a) for a in at["attrs"])
            src = src[:ls] + ins + src[ls:]
            with open(path, "w") as f:
                f.write(src)
    # crate-level feature gates for loop contracts, when requested
    for ob in obligations:
        for lib in ob.get("crate_attrs", []):
            path = os.path.join(scratch, "crates", ob["crate"], "src", "lib.rs")
            src = open(path).read()
            if lib not in src:
                with open(path, "w") as f:
                    f.write(lib + "\n" + src)


# --------------------------------------------------------------------------------------------
# running Kani
# --------------------------------------------------------------------------------------------

class Watchdog(threading.Thread):
    """Kills cbmc processes whose RSS exceeds the limit (the harness then counts as UNDECIDED)."""

    def __init__(self, scratch=""):
        super().__init__(daemon=True)
        self.stop = False
        self.killed = []
        self.scratch = scratch

    def run(self):
        total_limit_kb = int(os.environ.get("VERIF_TOTAL_RSS_GB", "50")) * 1024 * 1024
        while not self.stop:
            try:
                out = subprocess.run(["ps", "-eo", "pid,rss,comm,args"], capture_output=True, text=True).stdout
                own = []
                for line in out.splitlines()[1:]:
                    parts = line.split(None, 3)
                    if len(parts) < 4:
                        continue
                    pid, rss, comm, args = parts
                    if not comm.startswith("cbmc"):
                        continue
                    mine = bool(self.scratch) and self.scratch in args
                    if mine:
                        own.append((int(rss), int(pid), args))
                    if int(rss) > RSS_LIMIT_KB:
                        # protect the box from any runaway cbmc, but only report our own
                        if mine:
                            self.killed.append(args[-200:])
                            os.kill(int(pid), signal.SIGKILL)
                        elif int(rss) > 2 * RSS_LIMIT_KB:
                            os.kill(int(pid), signal.SIGKILL)
                # aggregate guard: 62 GB box without swap
                if own and sum(r for r, _, _ in own) > total_limit_kb:
                    r, pid, args = max(own)
                    self.killed.append("aggregate RSS guard: " + args[-200:])
                    os.kill(pid, signal.SIGKILL)
            except Exception:
                pass
            time.sleep(2)


def discover_unwindset(scratch, obs):
    """For obligations with `unwindset=[(regex on the demangled function of a loop, bound), ..]`: look the loop ids up
    in the harness' goto binary (they contain crate hashes, so they cannot be written down) -> "id:bound,id:bound"."""
    sets = []
    for o in obs:
        pats = o.get("unwindset") or []
        if not pats:
            continue
        gotos = []
        for root, _, files in os.walk(os.path.join(scratch, "target", "kani")):
            for f in files:
                if f.endswith(o["harness"] + ".out") and "verif_harness" in f:
                    gotos.append(os.path.join(root, f))
        for g in gotos[:1]:
            txt = subprocess.run(["cbmc", "--show-loops", g], capture_output=True, text=True).stdout
            for m in re.finditer(r"^Loop (\S+):\n\s+file .*? function (.*)$", txt, re.M):
                for pat, bound in pats:
                    if re.search(pat, m.group(2)):
                        sets.append("%s:%d" % (m.group(1), bound))
    return ",".join(sorted(set(sets)))


def run_kani(scratch, crate, obs, jobs, playback=False, cbmc_args=None, prebuild=False):
    """crate: a crate name or a list of crate names (one cargo invocation, shared -j pool).
    Returns (json or None, stdout text, wall seconds)."""
    crates_ = [crate] if isinstance(crate, str) else list(crate)
    out_json = os.path.join(scratch, "kani_%s.json" % "+".join(crates_))
    if os.path.exists(out_json):
        os.remove(out_json)
    timeout = 5 if prebuild else max(ob.get("timeout", 300) for ob in obs)
    cmd = ["cargo", "kani"]
    for c_ in crates_:
        cmd += ["-p", c_]
    cmd += ["-Z", "function-contracts", "-Z", "stubbing",
            "-Z", "unstable-options", "--output-format=terse", "--exact",
            "--harness-timeout", "%ds" % timeout]
    zs = set()
    for ob in obs:
        for z in ob.get("zflags", []):
            zs.add(z)
    for z in sorted(zs):
        cmd += ["-Z", z]
    for ob in obs:
        for a in ob.get("kani_args") or []:
            if a not in cmd:
                cmd.append(a)
    for a in os.environ.get("VERIF_KANI_ARGS", "").split():
        if a not in cmd:
            cmd.append(a)
    if playback:
        cmd += ["-Z", "concrete-playback", "--concrete-playback=print"]
    else:
        cmd += ["-j", str(jobs), "--export-json", out_json]
    for ob in obs:
        cmd += ["--harness", module_path(ob["anchor"]) + "::" + ob["harness"]]
    if cbmc_args:
        cmd += ["--cbmc-args"] + list(cbmc_args)  # must be last
    t0 = time.time()
    p = subprocess.run(cmd, cwd=scratch, env=KANI_ENV, stdout=subprocess.PIPE, stderr=subprocess.STDOUT,
                       text=True, timeout=timeout * max(1, (len(obs) + jobs - 1) // jobs) + 1800)
    wall = time.time() - t0
    data = None
    if os.path.exists(out_json):
        try:
            data = json.load(open(out_json))
        except Exception:
            data = None
    return data, p.stdout, wall


def split_blocks(stdout):
    """terse output -> {harness_pretty_name: text block}"""
    blocks = {}
    cur = None
    for line in stdout.splitlines():
        m = re.search(r"Checking harness (\S+?)\.\.\.", line)
        if m:
            cur = m.group(1)
            blocks[cur] = []
        elif line.startswith("Manual Harness Summary") or line.startswith("Complete - "):
            cur = None
        if cur is not None:
            blocks[cur].append(line)
    return {k: "\n".join(v) for k, v in blocks.items()}


TAG_RE = re.compile(r"\[(C\d\d(?:,C\d\d)*)\]")


def classify_check(chk):
    """Returns (kind, tags) for a failed CBMC check. kind in unwind|unsupported|cover|property."""
    cat = chk.get("category", "")
    desc = chk.get("description", "")
    if cat == "unwind" or "unwinding assertion" in desc:
        return "unwind", set()
    if cat in ("unsupported_construct", "unsupported") or "is not currently supported by Kani" in desc \
            or "unsupported" in cat:
        return "unsupported", set()
    if cat == "cover":
        return "cover", set()
    m = TAG_RE.search(desc)
    tags = set(m.group(1).split(",")) if m else set()
    locf = (chk.get("location") or {}).get("file", "") or ""
    if not tags and "/verif_harness/" in locf:
        # an automatically generated check (overflow, pointer, unwrap) failing inside harness / spec code is a
        # defect of the harness, not of /repo: never a violation
        return "harness", set()
    return "property", tags


def attributable(prop, ob, chk, tags):
    """Does this failed property check count against `prop` for obligation `ob`?"""
    cat = chk.get("category", "")
    if prop == "ALL":  # maintenance run over every obligation (timing, regression): everything counts
        return True
    if tags:
        return prop in tags
    if prop == "C02":
        desc = chk.get("description", "") or ""
        # preconditions of unchecked accesses (get_unchecked, from_raw_parts, ptr::add ...) are asserted by Kani as
        # "Rust intrinsic assumption failed" / "unsafe precondition(s) violated": violating them is the memory-safety
        # defect itself (the later pointer_dereference check is cut off by the assume that follows the assert)
        if ob.get("c02_overflow") and (cat == "arithmetic_overflow" or "attempt to" in desc and "overflow" in desc):
            # raw-pointer geometry code: an arithmetic overflow that panics in this checked build wraps silently in an
            # optimised build and then yields out-of-range pointers/lengths (C02 is stated for optimised builds)
            return True
        return (cat in MEMSAFE_CLASSES or "Rust intrinsic assumption failed" in desc
                or "unsafe precondition" in desc or "undefined behavior" in desc.lower())
    return True


def site_of(chk):
    loc = chk.get("location") or {}
    f = loc.get("file", "")
    f = re.sub(r"^/tmp/jxlv\.[^/]+/", "", f)
    f = re.sub(r"^.*/verif_harness/", "contracts/", f)
    return "%s|%s|%s" % (chk.get("function", ""), chk.get("description", "").replace("\n", " ")[:160], f)


# --------------------------------------------------------------------------------------------
# known findings
# --------------------------------------------------------------------------------------------

def load_findings():
    res = []
    p = os.path.join(VERIF, "known_findings.txt")
    if not os.path.exists(p):
        return res
    for line in open(p):
        line = line.strip()
        if not line.startswith("finding:"):
            continue
        kv = dict(re.findall(r"(\w+)=(\"[^\"]*\"|\S+)", line))
        kv = {k: v.strip('"') for k, v in kv.items()}
        kv["_line"] = line
        res.append(kv)
    return res


def match_finding(findings, prop, ob_id, chk):
    s = site_of(chk)
    for f in findings:
        if f.get("property") == prop and f.get("obligation") == ob_id and f.get("site", "\0") in s:
            return f
    return None


# --------------------------------------------------------------------------------------------
# playback (replay against the real code, natively compiled, debug profile)
# --------------------------------------------------------------------------------------------

def extract_playback_tests(stdout):
    """The generated unit tests, without their doc comments (multi-line check descriptions break those). Matching on the
    test function itself rather than on the ``` fences: compiler output may contain stray fences."""
    tests, seen = [], set()
    for m in re.finditer(r"#\[test\]\nfn (kani_concrete_playback_\w+)\(\) \{\n.*?\n\}\n", stdout, re.S):
        if m.group(1) not in seen:  # Kani may print the same test once per failed check
            seen.add(m.group(1))
            tests.append(m.group(0))
    return tests


def run_playback(scratch, ob, tests, expect=None):
    """Appends the generated unit tests to the (scratch copy of the) harness module and runs them natively."""
    dst = os.path.join(scratch, "verif_harness", ob["module"].replace("/", "__"))
    have = open(dst).read()
    tests = [t for t in tests if re.search(r"fn (kani_concrete_playback_\w+)", t).group(1) not in have]
    with open(dst, "a") as f:
        f.write("\n" + "\n".join(tests) + "\n")
    cmd = ["cargo", "kani", "playback", "-Z", "concrete-playback", "-Z", "function-contracts", "-Z", "stubbing",
           "-p", ob["crate"], "--lib", "--", "kani_concrete_playback_" + ob["harness"], "--test-threads", "1"]
    try:
        p = subprocess.run(cmd, cwd=scratch, env=dict(KANI_ENV, RUST_BACKTRACE="0"), stdout=subprocess.PIPE,
                           stderr=subprocess.STDOUT, text=True, timeout=1500)
    except subprocess.TimeoutExpired:
        return False, "playback timed out"
    out = p.stdout
    panics = re.findall(r"panicked at [^\n]*\n[^\n]*", out)
    reproduced = p.returncode != 0 and bool(panics) and "test result: FAILED" in out
    if reproduced and expect:
        # the native panic must be the one the verifier reported (same message), not e.g. a harness assertion that fails
        # natively only because kani::stub replacements are not applied in a native build
        def norm(x):
            return re.sub(r"\s+", " ", x.strip().strip('"'))[:60]
        reproduced = any(norm(e) and norm(e) in re.sub(r"\s+", " ", out) for e in expect)
    k_ = out.find("running ")
    tail = (out[k_:] if k_ >= 0 else out)[-3000:]
    return reproduced, ("; ".join(panics[:3]) + "\n" + tail) if panics else tail


# --------------------------------------------------------------------------------------------
# main check
# --------------------------------------------------------------------------------------------

def select(prop, tier, only):
    obs = []
    for ob in registry.OBLIGATIONS:
        if prop != "ALL" and prop not in ob["props"]:
            continue
        if only and ob["id"] not in only:
            continue
        if tier == "quick" and ob.get("tier", "quick") != "quick":
            continue
        qp = ob.get("quick_props")
        if tier == "quick" and prop != "ALL" and qp is not None and prop not in qp and not only:
            continue
        obs.append(ob)
    return obs


def check_property(prop, tier, only, keep, jobs):
    t_start = time.time()
    obs = select(prop, tier, only)
    if not obs:
        log("no obligations registered for %s (tier %s)" % (prop, tier))
        return 2
    kani_obs = [o for o in obs if o["backend"] == "kani"]
    verus_obs = [o for o in obs if o["backend"] == "verus"]
    # memory-hungry obligations declare rss_gb: raise the watchdog limit for this run and lower the parallelism so that
    # the box (62 GB, no swap) is not exhausted
    global RSS_LIMIT_KB
    jobs_normal = jobs
    need_gb = max([0] + [o.get("rss_gb", 0) or 0 for o in kani_obs])
    if need_gb * 1024 * 1024 > RSS_LIMIT_KB:
        RSS_LIMIT_KB = need_gb * 1024 * 1024
        jobs = max(1, min(jobs, 52 // need_gb))
        log("[%s] memory-hungry obligations selected: RSS limit %d GB per cbmc, run %d at a time after the others" % (prop, need_gb, jobs))
    findings = load_findings()
    results = {}      # ob id -> dict
    violations = []   # (ob, chk, block)
    known = []
    undecided = []
    scratch = make_scratch()
    wd = Watchdog(scratch)
    wd.start()
    canary_ok = {}
    try:
        # one canary per crate: same pipeline, must FAIL
        crates = []
        for ob in kani_obs:
            if ob["crate"] not in crates:
                crates.append(ob["crate"])
        canaries = []
        for c in crates:
            can = registry.CANARIES.get(c)
            if can:
                canaries.append(dict(can, crate=c, backend="kani", id="canary." + c, props=[prop], _canary=True))
        try:
            instrument(scratch, kani_obs + canaries)
        except Undecided as e:
            log("UNDECIDED: %s" % e)
            return finish(prop, tier, obs, results, [], [], [("<instrumentation>", str(e))], t_start, wd)
        # one cargo invocation for all crates (shared job pool) when harness paths are unique across crates;
        # falls back to one invocation per crate if the combined build fails
        hids = [module_path(o["anchor"]) + "::" + o["harness"] for o in kani_obs + canaries]
        work = [list(crates)] if len(set(hids)) == len(hids) and os.environ.get("VERIF_PER_CRATE") != "1" else [[c] for c in crates]
        while work:
            c = work.pop(0)
            group = [o for o in kani_obs + canaries if o["crate"] in c]
            log("[%s] kani: crates %s, %d harnesses" % (prop, ",".join(c), len(group)))
            try:
                plain = [o for o in group if not o.get("unwindset") and not o.get("cbmc_args") and not o.get("rss_gb")]
                hungry = [o for o in group if not o.get("unwindset") and not o.get("cbmc_args") and o.get("rss_gb")]
                special = [o for o in group if o.get("unwindset") or o.get("cbmc_args")]
                data, stdout = None, ""

                def merge(d2):
                    nonlocal data
                    if d2 is None:
                        return
                    if data is None:
                        data = d2
                        return
                    for key in ("property_details", "cbmc", "error_details", "harness_metadata"):
                        data.setdefault(key, []).extend(d2.get(key, []))
                    data.setdefault("verification_results", {}).setdefault("results", []).extend(
                        d2.get("verification_results", {}).get("results", []))

                if plain:
                    data, stdout, wall = run_kani(scratch, c, plain, jobs_normal)
                if hungry and (data is not None or not plain):
                    # memory-hungry harnesses run in their own invocation with reduced parallelism
                    d2, s2, _ = run_kani(scratch, c, hungry, jobs)
                    stdout += s2
                    merge(d2)
                    if d2 is None and data is not None:
                        for o in hungry:
                            undecided.append((o["id"], "memory-hungry run produced no result"))
                # rows whose per-loop bounds / CBMC options differ cannot share an invocation (a loop id would get two bounds):
                # one invocation per distinct (unwindset, cbmc_args) signature
                special_groups = {}
                for o in special:
                    sig = (tuple(tuple(x) for x in (o.get("unwindset") or [])), tuple(o.get("cbmc_args") or []))
                    special_groups.setdefault(sig, []).append(o)
                for special in (special_groups.values() if (data is not None or not plain) else []):
                    # two-phase: generate the goto binaries (5 s per harness), look the loop ids up, run with --unwindset
                    run_kani(scratch, c, special, jobs, prebuild=True)
                    us = discover_unwindset(scratch, special)
                    extra = []  # registry `cbmc_args` of the special rows (shared by the invocation, like the unwindset)
                    for o in special:
                        ca = list(o.get("cbmc_args") or [])
                        if ca and not any(extra[i:i + len(ca)] == ca for i in range(len(extra))):
                            extra += ca
                    d2, s2, _ = run_kani(scratch, c, special, jobs, cbmc_args=((["--unwindset", us] if us else []) + extra) or None)
                    stdout += s2
                    if d2 is not None:
                        merge(d2)
                    elif data is not None:
                        for o in special:
                            undecided.append((o["id"], "unwindset run produced no result"))
            except subprocess.TimeoutExpired:
                for o in group:
                    undecided.append((o["id"], "cargo kani invocation timed out"))
                continue
            blocks = split_blocks(stdout)
            if data is None and len(c) > 1:
                log("[%s] combined invocation gave no result; retrying per crate" % prop)
                work = [[x] for x in c] + work
                continue
            if data is None:
                tail = "\n".join(stdout.splitlines()[-40:])
                errs = "\n".join(l for l in stdout.splitlines() if l.startswith("error"))[:2000]
                log(tail)
                for o in group:
                    if not o.get("_canary"):
                        undecided.append((o["id"], "kani produced no result for crate %s (compile error / ICE): %s" % (",".join(c), errs)))
                continue
            by_h = {r["harness_id"]: r for r in data.get("verification_results", {}).get("results", [])}
            pd = {r["harness_id"]: r["property_details"] for r in data.get("property_details", [])}
            stats = {r["harness_id"]: (r.get("cbmc_stats") or {}) for r in data.get("cbmc", [])}
            for o in group:
                hid = module_path(o["anchor"]) + "::" + o["harness"]
                r = by_h.get(hid)
                block = blocks.get(hid, "")
                if r is not None:
                    bad = [c_ for c_ in r.get("checks", []) if c_.get("status") not in ("Success", "Satisfied", "Unreachable", "SUCCESS", "SATISFIED", "UNREACHABLE")]
                    block = "harness %s: status %s, %d checks\n" % (hid, r.get("status"), len(r.get("checks", []))) + "\n".join(
                        "  %s [%s] %s :: %s @ %s:%s" % (c_.get("status"), c_.get("category"), c_.get("function"), (c_.get("description") or "").replace("\n", " "),
                                                      (c_.get("location") or {}).get("file"), (c_.get("location") or {}).get("line")) for c_ in bad[:40])
                if o.get("_canary"):
                    canary_ok[o["crate"]] = bool(r and r["status"] == "Failure")
                    continue
                res = {"id": o["id"], "harness": hid, "kind": o["kind"], "backend": "kani/cbmc+cadical",
                       "fns": o["fns"], "status": None, "time_s": None, "checks": 0, "covers": 0}
                results[o["id"]] = res
                if r is None:
                    res["status"] = "undecided"
                    undecided.append((o["id"], "no result reported (timeout / killed / crashed): " + block[-400:]))
                    continue
                res["time_s"] = r.get("duration_ms", 0) / 1000.0
                d = pd.get(hid, {})
                res["checks"] = d.get("total_properties", len(r.get("checks", [])))
                res["covers"] = d.get("satisfied", 0)
                res["solver_s"] = (stats.get(hid) or {}).get("runtime_decision_procedure_s")
                failed = [c_ for c_ in r.get("checks", []) if c_.get("status") in ("Failure", "FAILURE")]
                unsat_cover = [c_ for c_ in r.get("checks", []) if c_.get("category") == "cover"
                               and c_.get("status") not in ("Satisfied", "SATISFIED", "Success")]
                undet = [c_ for c_ in r.get("checks", []) if c_.get("status") in ("Undetermined", "UNDETERMINED")]
                if r["status"] == "Success" and not unsat_cover and not failed:
                    res["status"] = "discharged"
                    continue
                if r["status"] == "Success" and unsat_cover:
                    res["status"] = "undecided"
                    undecided.append((o["id"], "vacuity guard: cover not satisfied: %s" %
                                      "; ".join(c_.get("description", "") for c_ in unsat_cover[:3])))
                    continue
                # failure: classify
                prop_fail = []
                soft = []
                for c_ in failed:
                    kind, tags = classify_check(c_)
                    if kind == "property":
                        if attributable(prop, o, c_, tags):
                            prop_fail.append(c_)
                        else:
                            soft.append(("other-property", c_))
                    else:
                        soft.append((kind, c_))
                if not failed:
                    res["status"] = "undecided"
                    undecided.append((o["id"], "harness failed without a failed check (timeout/oom/undetermined=%d): %s"
                                      % (len(undet), block[-600:])))
                    continue
                if any(k in ("unwind", "unsupported") for k, _ in soft) and not o.get("trust_with_unwind_fail"):
                    # an unwinding failure makes every other result of the harness unreliable only in the
                    # direction of missed failures; failed property checks found before the bound remain real.
                    pass
                if prop_fail:
                    newv = []
                    for c_ in prop_fail:
                        f = match_finding(findings, prop, o["id"], c_)
                        if f:
                            known.append((o, c_, f))
                        else:
                            newv.append(c_)
                    if newv:
                        res["status"] = "violated"
                        violations.append((o, newv, block))
                    else:
                        res["status"] = "known-finding"
                    continue
                res["status"] = "undecided" if any(k != "other-property" for k, _ in soft) else "discharged-for-this-property"
                if res["status"] == "undecided":
                    undecided.append((o["id"], "; ".join("%s: %s" % (k, c_.get("description", "")[:100]) for k, c_ in soft[:4])))
        for c in crates:
            if registry.CANARIES.get(c) and not canary_ok.get(c, False):
                # only meaningful when kani did produce results for this crate
                if any(results.get(o["id"], {}).get("status") for o in kani_obs if o["crate"] == c):
                    undecided.append(("canary." + c, "canary harness (assert false under the same pipeline) did not fail: run is void"))
        # Verus obligations
        if verus_obs:
            import verus_run
            for o in verus_obs:
                res, viol, und = verus_run.run(o, REPO, scratch, prop)
                results[o["id"]] = res
                if viol:
                    f = None
                    for fd in findings:
                        if fd.get("property") == prop and fd.get("obligation") == o["id"]:
                            f = fd
                    if f:
                        known.append((o, {"description": viol[:200], "function": o["fns"][0]}, f))
                        res["status"] = "known-finding"
                    else:
                        violations.append((o, [{"description": viol, "function": ",".join(o["fns"]), "category": "verus",
                                                "location": {"file": o["anchor"]}}], viol))
                if und:
                    undecided.append((o["id"], und))
        # replay for violations
        vio_out = []
        for (o, chks, block) in violations:
            replay_path = os.path.join(OUT, "replay", "%s__%s.json" % (prop, o["id"].replace("/", "_")))
            os.makedirs(os.path.dirname(replay_path), exist_ok=True)
            rp = {"property": prop, "obligation": o["id"], "harness": o.get("harness"), "crate": o.get("crate"),
                  "backend": o["backend"], "fns": o["fns"], "kind": o["kind"],
                  "failed_checks": [{"function": c_.get("function"), "description": c_.get("description"),
                                     "category": c_.get("category"), "location": c_.get("location")} for c_ in chks],
                  "verifier_output": block[-6000:], "playback_tests": [], "replayed": False, "replay_output": ""}
            noinput = True
            if o["backend"] == "kani":
                try:
                    _, pout, _ = run_kani(scratch, o["crate"], [o], 1, playback=True, cbmc_args=(o.get("cbmc_args") or None))
                    k_ = pout.find("Checking harness")
                    rp["verifier_output"] += "\n--- cargo kani (concrete playback run) ---\n" + (pout[k_:] if k_ >= 0 else pout)[-5000:]
                    tests = extract_playback_tests(pout)
                    rp["playback_tests"] = tests
                    if tests:
                        ok, rout = run_playback(scratch, o, tests, expect=[c_.get("description", "") for c_ in chks])
                        rp["replayed"] = ok
                        rp["replay_output"] = rout
                        noinput = not ok
                        if not ok:
                            rp["replay_note"] = ("the verifier's concrete input did not make the natively compiled real code panic "
                                                 "(failed check is not a trapping condition natively, or depends on a stub)")
                except Exception as e:  # replay is best effort; the violation stands on the failed obligation
                    rp["replay_output"] = "replay machinery failed: %r" % (e,)
            with open(replay_path, "w") as f:
                json.dump(rp, f, indent=1)
            vio_out.append((replay_path, noinput, o, chks))
        return finish(prop, tier, obs, results, vio_out, known, undecided, t_start, wd)
    finally:
        wd.stop = True
        if keep:
            log("scratch kept at " + scratch)
        else:
            shutil.rmtree(scratch, ignore_errors=True)


def scan_assumptions(obs):
    found = []
    seen = set()
    pats = [r"kani::assume\(", r"#\[kani::stub\(", r"#\[kani::stub_verified\(", r"external_body", r"assume_specification",
            r"\badmit\(", r"\bassume\("]
    for o in obs:
        files = []
        if o["backend"] == "kani":
            files.append(os.path.join(VERIF, "contracts", o["module"]))
        else:
            files.append(os.path.join(VERIF, "contracts", o["spec"]))
        for fp in files:
            if fp in seen or not os.path.exists(fp):
                continue
            seen.add(fp)
            txt = open(fp).read()
            for p in pats:
                n = len(re.findall(p, txt))
                if n:
                    found.append("%s: %d x %s (preconditions of harnesses / stubs; see file)" %
                                 (os.path.relpath(fp, VERIF), n, p.replace("\\", "")))
    return found


def finish(prop, tier, obs, results, vio_out, known, undecided, t_start, wd):
    complete = [o for o in obs if o["kind"] == "complete" or o["kind"] == "verus"]
    bounded = [o for o in obs if o["kind"].startswith("bounded")]
    n_ob = len(complete)
    n_dis = sum(1 for o in complete if results.get(o["id"], {}).get("status") in ("discharged", "discharged-for-this-property"))
    b_dis = sum(1 for o in bounded if results.get(o["id"], {}).get("status") in ("discharged", "discharged-for-this-property"))
    cbmc_checks = sum(r.get("checks", 0) or 0 for r in results.values())
    samples = []
    for o in obs[:6]:
        r = results.get(o["id"], {})
        samples.append({"obligation": o["id"], "functions": o["fns"], "kind": o["kind"], "contract": o.get("contract", ""),
                        "status": r.get("status"), "time_s": r.get("time_s"), "cbmc_checks": r.get("checks")})
    fns = sorted({f for o in obs for f in o["fns"]})
    pinfo = registry.PROPERTIES.get(prop, {})
    assumptions = list(registry.STANDING_ASSUMPTIONS) + scan_assumptions(obs) + [
        "unverified surroundings: " + u for u in pinfo.get("unverified", [])]
    if wd.killed:
        undecided.append(("<watchdog>", "cbmc killed for exceeding RSS limit: %s" % wd.killed[:2]))
    ev = {
        "property_id": prop,
        "tier": tier,
        "seed": int(os.environ.get("VERIF_SEED", "0") or 0),
        # proof-level only when every complete (unbounded / full-domain) obligation of this run is discharged;
        # bounded stand-ins are reported separately and never counted as proved
        "level": "proof" if (n_ob >= 1 and n_dis == n_ob) else "other",
        "coverage": {
            "obligations": n_ob,
            "discharged": n_dis,
            "bounded_obligations": len(bounded),
            "bounded_discharged": b_dis,
            "cbmc_or_verus_checks_total": cbmc_checks,
            "checker_cmd": "cargo kani -p <crate> -Z function-contracts -Z stubbing --exact --harness <h> (CBMC 6.11 + CaDiCaL) on a scratch copy of /repo's working tree; verus <extracted>.rs for Verus rows",
            "trusted_base": ["rustc/kani-compiler 0.68 codegen", "CBMC 6.11 + CaDiCaL", "Verus 0.2026.09.13 + Z3 (Verus rows)",
                             "Kani models of std/alloc", "no-op tracing stub (/verif/stubs/tracing)"],
            "explanation": pinfo.get("explanation", "") + " | this run: %d/%d complete proof obligations discharged, %d/%d bounded stand-ins passed (bounded ones are labelled with their bound in obligation_table and are not counted as proved), %d undecided, %d violated" % (n_dis, n_ob, b_dis, len(bounded), len(undecided), len(vio_out)),
            "functions_under_contract": fns,
            "obligation_table": [dict(id=o["id"], kind=o["kind"], backend=results.get(o["id"], {}).get("backend", o["backend"]),
                                      status=results.get(o["id"], {}).get("status"),
                                      time_s=results.get(o["id"], {}).get("time_s"),
                                      solver_s=results.get(o["id"], {}).get("solver_s"),
                                      checks=results.get(o["id"], {}).get("checks"),
                                      covers_satisfied=results.get(o["id"], {}).get("covers"),
                                      functions=o["fns"]) for o in obs],
            "samples": samples,
            "undecided": [{"obligation": i, "reason": r[:600]} for i, r in undecided],
            "known_findings_hit": [f["_line"] for (_, _, f) in known],
            "exhaustive": False,
        },
        "assumptions": assumptions,
        "wall_s": round(time.time() - t_start, 1),
        "violations": len(vio_out),
    }
    os.makedirs(os.path.join(OUT, "evidence"), exist_ok=True)
    with open(os.path.join(OUT, "evidence", prop + ".json"), "w") as f:
        json.dump(ev, f, indent=1)
    seen_k = set()
    for (o, c_, f) in known:
        if f["_line"] in seen_k:
            continue
        seen_k.add(f["_line"])
        print("KNOWN-FINDING: property=%s %s" % (prop, f["_line"][len("finding:"):].strip()))
    for (path, noinput, o, chks) in vio_out:
        d = chks[0].get("description", "").replace("\n", " ")[:140]
        print("VIOLATION property=%s replay=%s obligation=%s failed=\"%s\"%s" %
              (prop, path, o["id"], d, " no-failing-input-found" if noinput else ""))
    sys.stdout.flush()
    log("[%s] tier=%s proof obligations %d/%d discharged, bounded %d/%d, violations %d, undecided %d, wall %.0fs" %
        (prop, tier, n_dis, n_ob, b_dis, len(bounded), len(vio_out), len(undecided), time.time() - t_start))
    for i, r in undecided:
        log("UNDECIDED %s: %s" % (i, r[:500]))
    if vio_out:
        return 1
    if undecided:
        return 2
    return 0


def replay(path):
    rp = json.load(open(path))
    print("property=%s obligation=%s backend=%s" % (rp["property"], rp["obligation"], rp["backend"]))
    for c_ in rp["failed_checks"]:
        print("failed check: %s :: %s" % (c_.get("function"), c_.get("description")))
    if rp["backend"] != "kani" or not rp.get("playback_tests"):
        print("no concrete input recorded (no-failing-input-found); verifier output follows")
        print(rp.get("verifier_output", ""))
        return 1
    ob = [o for o in registry.OBLIGATIONS if o["id"] == rp["obligation"]]
    if not ob:
        print("obligation no longer registered")
        return 2
    ob = ob[0]
    scratch = make_scratch()
    try:
        instrument(scratch, [ob])
        ok, out = run_playback(scratch, ob, rp["playback_tests"])
        print(out)
        print("REPRODUCED on the real code (native debug build)" if ok else "NOT reproduced natively")
        return 1 if ok else 0
    finally:
        shutil.rmtree(scratch, ignore_errors=True)


def main():
    ap = argparse.ArgumentParser()
    ap.add_argument("prop", nargs="?")
    ap.add_argument("--tier", default=os.environ.get("VERIF_TIER", "quick"))
    ap.add_argument("--only", default="")
    ap.add_argument("--keep", action="store_true")
    ap.add_argument("--jobs", type=int, default=int(os.environ.get("VERIF_JOBS", "12")))
    ap.add_argument("--replay")
    ap.add_argument("--list", action="store_true")
    a = ap.parse_args()
    if a.list:
        for o in registry.OBLIGATIONS:
            print("%-40s %-8s %-10s %-28s %s" % (o["id"], o["backend"], o.get("tier", "quick"), o["kind"][:28], ",".join(o["props"])))
        return 0
    if a.replay:
        return replay(a.replay)
    if not a.prop:
        ap.error("property id required")
    if a.tier not in ("quick", "thorough"):
        a.tier = "quick"
    only = set(x for x in a.only.split(",") if x)
    return check_property(a.prop, a.tier, only, a.keep, a.jobs)


if __name__ == "__main__":
    sys.exit(main())
