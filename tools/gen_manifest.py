#!/usr/bin/env python3
"""Regenerates /verif/MANIFEST.json from the registry (run after changing registry fragments)."""
import json, os, sys
VERIF = os.path.dirname(os.path.dirname(os.path.abspath(__file__)))
sys.path.insert(0, VERIF)
import registry

NA = {
    "C07": "Property over schedules / thread-pool sizes: Kani has no threads and Verus would need the code rewritten over its permission types; no contract within reach can express it (the geometric half - disjoint fixed-geometry subgrids - is proved under C02).",
    "C16": "Closeness in IEEE arithmetic of recursive float DCTs built on transcendental tables: Verus has no float semantics, bit-blasting even a 1-D DCT-8 error bound is beyond CBMC, and the vector kernels are unreachable for Kani.",
    "C19": "Tolerances over powf/exp-based transfer curves and float matrix inversion: no float reasoning in Verus; transcendental calls are not modelled by CBMC.",
    "C20": "All-interleavings property of the render-handle protocol: Kani is sequential and the protocol would have to be rewritten over Verus ghost permissions (its sequential core is C08).",
}
ALL = ["C%02d" % i for i in range(1, 21)]
claimed = sorted({p for o in registry.OBLIGATIONS for p in o["props"]})
checks = []
na = []
for p in ALL:
    if p in NA:
        na.append({"property_id": p, "reason": NA[p]})
        continue
    if p not in claimed:
        na.append({"property_id": p, "reason": "no contract obligation closes for this property yet with the installed verifiers; not claimed"})
        continue
    info = registry.PROPERTIES[p]
    quick = [o for o in registry.OBLIGATIONS if p in o["props"] and o.get("tier", "quick") == "quick" and (o.get("quick_props") is None or p in o["quick_props"])]
    has_proof = any(o["kind"] in ("complete", "verus") for o in quick)
    checks.append({
        "property_id": p,
        "quick_cmd": "./check %s --tier quick" % p,
        "thorough_cmd": "./check %s --tier thorough" % p,
        "evidence_file": "/verif/evidence/%s.json" % p,
        "replay_cmd_template": "./check --replay {path}",
        "engine": "contracts",
        "level_claimed": {"category": "proof" if has_proof else "other", "text": info["explanation"], "design_ref": "DESIGN.md section 4 (%s)" % p},
        "level_note": info.get("note", "") + " Trusted: rustc/kani-compiler, CBMC+CaDiCaL, Verus+Z3, Kani's std models, no-op tracing stub. "
                      "Bounded obligations are labelled and never counted in obligations/discharged. Unverified surroundings: " + "; ".join(info["unverified"]),
        "technique": info.get("technique", ""),
    })
m = {
    "version": 1,
    "setup_cmd": "python3 tools/check.py --list > /dev/null",
    "hooks": {
        "guard": "kani",
        "enable": "no source hooks in /repo: contract attributes (#[cfg_attr(kani, kani::requires/ensures)]) and #[cfg(kani)] harness modules are attached to a scratch copy of the working tree at run time; cfg(kani) is set only by the verifier",
        "baseline_off_cmd": "cd /repo && cargo nextest run --workspace --no-fail-fast --tool-config-file pb:/w/lib/nextest.toml --profile pb --test-threads 8 --offline || cargo test --workspace --no-fail-fast --offline",
        "source_commits": [],
        "add_only": True,
    },
    "engines": [{"name": "contracts", "path": "/verif/tools/check.py", "serves_properties": [c["property_id"] for c in checks],
                 "kind_free_text": "contract-based deductive verification: Kani function contracts / harness contracts (CBMC) and Verus on mechanically extracted functions"}],
    "checks": checks,
    "not_applicable": na,
    "notes": "Exit 2 from a check means UNDECIDED (tool limit, timeout, lost anchor): never a violation. See DESIGN.md.",
}
json.dump(m, open(os.path.join(VERIF, "MANIFEST.json"), "w"), indent=1)
print("claimed:", [c["property_id"] for c in checks])
