"""Verus back end: cut the named functions out of the REAL source file on every run, splice the
contract clauses from a .spec file in, wrap in verus!{} and run `verus`.

What the extraction changes (complete list):
  * attributes directly above the function (`#[inline]` …) and the visibility qualifier are dropped;
  * the return type `-> T` is rewritten to `-> (ret: T)` so that `ensures` can name the result;
  * `requires/ensures` text is inserted between the signature and the body, `invariant/decreases`
    text between the n-th loop header and its `{`  (loops numbered in source order inside the function);
  * `@@itername` names the ghost iterator of a `for` loop, `@@before` inserts `proof { … }` blocks: ghost code only;
  * comments inside the function are kept; the body is otherwise byte-identical to /repo's working tree.
A function Verus no longer accepts (syntax it rejects, lost anchor) is UNDECIDED, never a violation.

.spec format (sections start with @@):
  @@prelude              verus code placed before the functions (spec fns, proof fns)
  @@fn NAME              start of a function block (NAME is looked up in the obligation's anchor file)
  @@sig                  clauses for the signature
  @@loop N               clauses for loop ordinal N
  @@itername N NAME      give the ghost iterator of `for` loop N a name (`for p in e` -> `for p in NAME: e`)
  @@before <text>        ghost code (proof blocks) inserted before the unique body line containing <text>
  @@epilogue             verus code placed after the functions (lemmas that use the contracts)
"""
import json
import os
import re
import subprocess
import time

VERIF = os.path.dirname(os.path.dirname(os.path.abspath(__file__)))


def strip_comments_mask(src):
    """Returns a string of same length where comment and string-literal characters are replaced by spaces."""
    out = list(src)
    i = 0
    n = len(src)
    while i < n:
        c = src[i]
        if src.startswith("//", i):
            j = src.find("\n", i)
            j = n if j < 0 else j
            for k in range(i, j):
                out[k] = " "
            i = j
        elif src.startswith("/*", i):
            j = src.find("*/", i + 2)
            j = n if j < 0 else j + 2
            for k in range(i, j):
                if out[k] != "\n":
                    out[k] = " "
            i = j
        elif c == '"':
            j = i + 1
            while j < n and src[j] != '"':
                j += 2 if src[j] == "\\" else 1
            for k in range(i + 1, min(j, n)):
                if out[k] != "\n":
                    out[k] = " "
            i = j + 1
        elif c == "'" and i + 2 < n and (src[i + 2] == "'" or (src[i + 1] == "\\" and src.find("'", i + 2) - i <= 6)):
            j = src.find("'", i + 2 if src[i + 1] != "\\" else i + 3)
            for k in range(i + 1, j):
                out[k] = " "
            i = j + 1
        else:
            i += 1
    return "".join(out)


def extract_fn(src, name):
    mask = strip_comments_mask(src)
    ms = [m for m in re.finditer(r"(?m)^([ \t]*)((?:pub(?:\([a-z: ]+\))?[ \t]+)?(?:const[ \t]+)?(?:unsafe[ \t]+)?)fn[ \t]+%s\b" % re.escape(name), mask)]
    if len(ms) != 1:
        raise LookupError("fn %s found %d times" % (name, len(ms)))
    m = ms[0]
    start = m.start() + len(m.group(1)) + len(m.group(2))
    # find body open brace: first '{' at paren depth 0
    depth = 0
    i = start
    while i < len(mask):
        c = mask[i]
        if c in "([":
            depth += 1
        elif c in ")]":
            depth -= 1
        elif c == "{" and depth == 0:
            break
        i += 1
    body_open = i
    depth = 0
    while i < len(mask):
        if mask[i] == "{":
            depth += 1
        elif mask[i] == "}":
            depth -= 1
            if depth == 0:
                break
        i += 1
    end = i + 1
    return src[start:body_open], src[body_open:end], mask[body_open:end]


def splice(sig, body, bmask, clauses):
    # named return
    m = re.search(r"->\s*(.+?)\s*$", sig, re.S)
    if m and not m.group(1).startswith("("):
        sig = sig[:m.start()] + "-> (ret: %s)" % m.group(1) + "\n"
    sig = sig.rstrip() + "\n" + clauses.get("sig", "")
    # loops
    inserts = []
    idx = 0
    for m in re.finditer(r"\b(for|while|loop)\b", bmask):
        # body start of this loop: next '{' at paren depth 0
        depth = 0
        i = m.end()
        while i < len(bmask):
            c = bmask[i]
            if c in "([":
                depth += 1
            elif c in ")]":
                depth -= 1
            elif c == "{" and depth == 0:
                break
            i += 1
        key = "loop %d" % idx
        if key in clauses:
            inserts.append((i, "\n" + clauses[key]))
        nm = clauses.get("itername %d" % idx)
        if nm and m.group(1) == "for":
            mi = re.search(r"\bin\b", bmask[m.end():i])
            if mi:
                inserts.append((m.end() + mi.end(), " %s:" % nm.strip()))
        idx += 1
    for k, v in clauses.items():
        if k.startswith("before "):
            needle = k[len("before "):]
            if body.count(needle) != 1:
                raise LookupError("@@before anchor %r occurs %d times" % (needle, body.count(needle)))
            pos = body.rfind("\n", 0, body.index(needle)) + 1
            inserts.append((pos, v))
    for pos, text in sorted(inserts, reverse=True):
        body = body[:pos] + text + body[pos:]
    return sig, body, idx


def parse_spec(path):
    sections = {"prelude": "", "epilogue": "", "fns": []}
    cur = None
    curfn = None
    for line in open(path):
        if line.startswith("@@"):
            parts = line[2:].split()
            if parts[0] in ("prelude", "epilogue"):
                cur = ("top", parts[0])
            elif parts[0] == "fn":
                curfn = {"name": parts[1], "clauses": {}}
                sections["fns"].append(curfn)
                cur = None
            elif parts[0] == "sig":
                cur = ("fn", "sig")
            elif parts[0] == "loop":
                cur = ("fn", "loop %s" % parts[1])
            elif parts[0] == "itername":
                curfn["clauses"]["itername %s" % parts[1]] = parts[2]
                cur = None
            elif parts[0] == "before":
                cur = ("fn", "before " + line[len("@@before "):].strip())
            continue
        if cur is None:
            continue
        if cur[0] == "top":
            sections[cur[1]] += line
        else:
            curfn["clauses"][cur[1]] = curfn["clauses"].get(cur[1], "") + line
    return sections


def run(o, repo, scratch, prop):
    res = {"id": o["id"], "kind": "verus", "backend": "verus+z3", "fns": o["fns"], "status": None, "time_s": None,
           "checks": 0, "covers": 0}
    spec_path = os.path.join(VERIF, "contracts", o["spec"])
    try:
        src = open(os.path.join(repo, o["anchor"])).read()
        spec = parse_spec(spec_path)
        parts = []
        for f in spec["fns"]:
            sig, body, bmask = extract_fn(src, f["name"])
            sig, body, nloops = splice(sig, body, bmask, f["clauses"])
            for k in f["clauses"]:
                if k.startswith("loop ") and int(k.split()[1]) >= nloops:
                    raise LookupError("fn %s has %d loops, spec names loop %s" % (f["name"], nloops, k.split()[1]))
            parts.append(sig + body + "\n")
    except (LookupError, OSError) as e:
        res["status"] = "undecided"
        return res, None, "extraction failed (function renamed/restructured: update the spec): %s" % e
    text = ("// GENERATED on every run from %s by /verif/tools/verus_run.py -- do not edit\n"
            "#![allow(unused)]\nuse vstd::prelude::*;\nverus! {\n%s\n%s\n%s\n} // verus!\nfn main() {}\n"
            % (o["anchor"], spec["prelude"], "\n".join(parts), spec["epilogue"]))
    out_rs = os.path.join(scratch, "verus_%s.rs" % o["id"].replace("/", "_").replace(".", "_"))
    with open(out_rs, "w") as f:
        f.write(text)
    t0 = time.time()
    try:
        p = subprocess.run(["verus", out_rs, "--output-json", "--time", "--multiple-errors", "20"] + o.get("verus_args", []),
                           capture_output=True, text=True, timeout=o.get("timeout", 120), cwd=scratch)
    except subprocess.TimeoutExpired:
        res["status"] = "undecided"
        return res, None, "verus timed out"
    res["time_s"] = round(time.time() - t0, 2)
    js = None
    try:
        js = json.loads(p.stdout[p.stdout.index("{"):])
    except Exception:
        pass
    vr = (js or {}).get("verification-results", {})
    res["checks"] = vr.get("verified", 0) + vr.get("errors", 0)
    res["verus_results"] = vr
    if js and "times-ms" in js:
        try:
            res["solver_s"] = js["times-ms"]["smt"]["total"] / 1000.0
        except Exception:
            pass
    stderr = p.stderr
    if vr.get("success") and vr.get("errors", 1) == 0 and vr.get("verified", 0) > 0 and p.returncode == 0:
        res["status"] = "discharged"
        return res, None, None
    # failure: proof failure vs. tool rejection
    proof_fail = re.findall(r"error: (postcondition not satisfied|invariant not satisfied[^\n]*|precondition not satisfied|"
                            r"assertion failed|possible arithmetic underflow/overflow|possible division by zero|"
                            r"decreases not satisfied[^\n]*|loop invariant not preserved|"
                            r"possible bit shift underflow/overflow|index out of bounds|[^\n]*may be out of bounds[^\n]*)", stderr)
    rlimit = "Resource limit (rlimit) exceeded" in stderr or "rlimit" in stderr
    other_err = [l for l in stderr.splitlines() if l.startswith("error") and not any(pf in l for pf in proof_fail)]
    if proof_fail and not rlimit and vr.get("errors", 0) > 0:
        res["status"] = "violated"
        blocks = [b for b in re.split(r"\n\s*\n", stderr) if b.lstrip().startswith("error")]
        return res, "verus: " + "; ".join(sorted(set(proof_fail))) + "\n" + "\n\n".join(blocks)[:5000], None
    res["status"] = "undecided"
    return res, None, "verus did not accept the extracted text (%s): %s" % ("rlimit" if rlimit else "tool error", (other_err or [stderr[-300:]])[0][:300])
