#!/usr/bin/env python3
"""Run the registered checks against a seeded change.

  seed_eval.py /verif/seeded/<name> [--props C04,C01] [--tier quick] [--jobs N]

Applies <name>/patch.diff to a scratch worktree of /repo (never to /repo itself while other jobs use it),
runs ./check for the property named in meta.json (or --props) with VERIF_REPO pointing at the worktree, and
writes <name>/result.json: per property exit code, VIOLATION lines, failed obligations.
"""
import argparse
import json
import os
import subprocess
import sys
import tempfile

VERIF = os.path.dirname(os.path.dirname(os.path.abspath(__file__)))


def main():
    ap = argparse.ArgumentParser()
    ap.add_argument("dir")
    ap.add_argument("--props", default="")
    ap.add_argument("--tier", default="quick")
    ap.add_argument("--jobs", default="8")
    ap.add_argument("--only", default="")
    a = ap.parse_args()
    d = os.path.abspath(a.dir)
    meta = json.load(open(os.path.join(d, "meta.json")))
    props = [p for p in a.props.split(",") if p] or [meta["property"]]
    wt = tempfile.mkdtemp(prefix="seval.")
    os.rmdir(wt)
    subprocess.check_call(["git", "-C", "/repo", "worktree", "add", "-q", "--detach", wt, "HEAD"])
    out = tempfile.mkdtemp(prefix="seval_out.")
    results = {}
    try:
        subprocess.check_call(["git", "-C", wt, "apply", os.path.join(d, "patch.diff")])
        for p in props:
            cmd = [os.path.join(VERIF, "check"), p, "--tier", a.tier, "--jobs", a.jobs]
            if a.only:
                cmd += ["--only", a.only]
            r = subprocess.run(cmd, cwd=VERIF, env=dict(os.environ, VERIF_REPO=wt, VERIF_OUT=out),
                               capture_output=True, text=True)
            vio = [l for l in r.stdout.splitlines() if l.startswith("VIOLATION")]
            und = [l for l in r.stderr.splitlines() if l.startswith("UNDECIDED")]
            results[p] = {"exit": r.returncode, "violations": vio, "undecided": und[:10],
                          "summary": [l for l in r.stderr.splitlines() if "proof obligations" in l]}
            print(p, "exit", r.returncode)
            for l in vio:
                print("  ", l[:300])
            for l in und[:5]:
                print("  ", l[:300])
    finally:
        subprocess.call(["git", "-C", "/repo", "worktree", "remove", "--force", wt])
        subprocess.call(["rm", "-rf", out])
    json.dump(results, open(os.path.join(d, "result.json"), "w"), indent=1)
    return 0


if __name__ == "__main__":
    sys.exit(main())
