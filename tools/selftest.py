#!/usr/bin/env python3
"""Self-test of the machinery (not part of quick/thorough): every benign refactor must keep exit 0, every seeded
property-breaking change must give exit 1 for its property.

  selftest.py [--benign] [--seeded] [--only NAME] [--jobs N]

Results are written to /verif/selftest/results.json (committed as a record of which checks catch which changes).
"""
import argparse
import glob
import json
import os
import subprocess
import sys
import tempfile

VERIF = os.path.dirname(os.path.dirname(os.path.abspath(__file__)))
BENIGN_PROPS = {
    "bitstream_refactor": ["C14", "C11"],
    "box_header_refactor": ["C10"],
    "unpack_signed_refactor": ["C04"],
    "icc_refactor": ["C18"],
    "state_refactor": ["C08"],
}


def run_with_patch(patch, props, jobs, only=""):
    wt = tempfile.mkdtemp(prefix="stest.")
    os.rmdir(wt)
    subprocess.check_call(["git", "-C", "/repo", "worktree", "add", "-q", "--detach", wt, "HEAD"])
    out = tempfile.mkdtemp(prefix="stest_out.")
    res = {}
    try:
        subprocess.check_call(["git", "-C", wt, "apply", patch])
        for p in props:
            cmd = [os.path.join(VERIF, "check"), p, "--jobs", str(jobs)]
            if only:
                cmd += ["--only", only]
            r = subprocess.run(cmd, cwd=VERIF, env=dict(os.environ, VERIF_REPO=wt, VERIF_OUT=out), capture_output=True, text=True)
            res[p] = {"exit": r.returncode,
                      "violations": [l[:400] for l in r.stdout.splitlines() if l.startswith("VIOLATION")],
                      "undecided": [l[:300] for l in r.stderr.splitlines() if l.startswith("UNDECIDED")][:8]}
    finally:
        subprocess.call(["git", "-C", "/repo", "worktree", "remove", "--force", wt])
        subprocess.call(["rm", "-rf", out])
    return res


def main():
    ap = argparse.ArgumentParser()
    ap.add_argument("--benign", action="store_true")
    ap.add_argument("--seeded", action="store_true")
    ap.add_argument("--only", default="")
    ap.add_argument("--jobs", default="8")
    ap.add_argument("--own-only", action="store_true", help="check only the property named in meta.json")
    ap.add_argument("--thorough", action="store_true")
    ap.add_argument("--redo", action="store_true", help="re-run seeds that already have a result")
    ap.add_argument("--all-anchored", action="store_true", help="run every obligation anchored in a patched file, not only those naming a patched function")
    a = ap.parse_args()
    path = os.path.join(VERIF, "selftest", "results.json")
    results = json.load(open(path)) if os.path.exists(path) else {}
    ok = True
    if a.benign or not a.seeded:
        for f in sorted(glob.glob(os.path.join(VERIF, "selftest", "benign", "*.diff"))):
            name = os.path.basename(f)[:-5]
            if a.only and a.only != name:
                continue
            r = run_with_patch(f, BENIGN_PROPS.get(name, []), a.jobs)
            good = all(v["exit"] == 0 for v in r.values())
            results["benign/" + name] = {"expected": "exit 0", "ok": good, "runs": r}
            print("benign", name, "OK" if good else "UNEXPECTED", {k: v["exit"] for k, v in r.items()})
            ok &= good
    if a.seeded or not a.benign:
        for d in sorted(glob.glob(os.path.join(VERIF, "seeded", "*", "patch.diff"))):
            name = os.path.basename(os.path.dirname(d))
            if a.only and a.only != name:
                continue
            meta = json.load(open(os.path.join(os.path.dirname(d), "meta.json")))
            if ("seeded/" + name) in results and not a.redo and not a.only:
                continue
            # run every obligation anchored in a patched file once (pseudo-property ALL), then attribute each failed check to
            # properties exactly as a per-property run would (tags, C02 class filter); fall back to the seed's own property.
            patched = set(l[6:].strip() for l in open(d) if l.startswith("+++ b/"))
            sys.path.insert(0, VERIF)
            sys.path.insert(0, os.path.join(VERIF, "tools"))
            import registry
            import check as chk
            obs = [o for o in registry.OBLIGATIONS if o["anchor"] in patched]
            if not a.all_anchored and obs:
                # narrow to the obligations whose functions are named in the patch (hunk headers / changed fn lines); the full
                # anchored set is used when nothing matches (or with --all-anchored)
                import re as _re
                toks = set()
                cur_file, old_line = None, 0
                for l in open(d):
                    if l.startswith("--- a/"):
                        cur_file = l[6:].strip()
                        continue
                    m_ = _re.match(r"@@ -(\d+)", l)
                    if m_:
                        old_line = int(m_.group(1))
                        continue
                    if l.startswith("+++") or cur_file is None:
                        continue
                    if l.startswith("-") or l.startswith("+"):
                        # enclosing function of this changed line in the unchanged source: nearest `fn name` above it
                        try:
                            src = open(os.path.join("/repo", cur_file)).read().splitlines()
                        except OSError:
                            src = []
                        i = min(old_line, len(src)) - 1
                        while i >= 0:
                            mm = _re.search(r"\bfn\s+(\w+)", src[i])
                            if mm:
                                toks.add(mm.group(1))
                                break
                            i -= 1
                    if not l.startswith("+"):
                        old_line += 1
                toks |= set(meta.get("functions", []))
                narrowed = [o for o in obs if any(_re.search(r"\b%s\b" % _re.escape(t), " ".join(o["fns"])) for t in toks)]
                if narrowed:
                    obs = narrowed
            extra = meta.get("obligations_elsewhere", [])  # obligations anchored in another file that exercise the patched code
            obs += [o for o in registry.OBLIGATIONS if o["id"] in extra and o not in obs]
            if not obs:
                results["seeded/" + name] = {"expected": "exit 1 for " + meta["property"], "caught_by": [], "failing_obligations": [],
                                             "note": "no registered obligation reaches the patched code (outside every function core)"}
                print("seeded", name, "MISSED (no obligation reaches the patched code)")
                json.dump(results, open(path, "w"), indent=1)
                continue
            wt = tempfile.mkdtemp(prefix="stest."); os.rmdir(wt)
            subprocess.check_call(["git", "-C", "/repo", "worktree", "add", "-q", "--detach", wt, "HEAD"])
            out = tempfile.mkdtemp(prefix="stest_out.")
            try:
                subprocess.check_call(["git", "-C", wt, "apply", d])
                tier = "thorough" if a.thorough else "quick"
                rr = subprocess.run([os.path.join(VERIF, "check"), "ALL", "--tier", tier, "--jobs", str(a.jobs), "--only", ",".join(o["id"] for o in obs)],
                                    cwd=VERIF, env=dict(os.environ, VERIF_REPO=wt, VERIF_OUT=out), capture_output=True, text=True)
                by_prop = {}
                failing = []
                byid = {o["id"]: o for o in obs}
                for f in glob.glob(os.path.join(out, "replay", "ALL__*.json")):
                    rp = json.load(open(f))
                    o = byid.get(rp["obligation"])
                    if not o:
                        continue
                    failing.append(rp["obligation"])
                    for c_ in rp["failed_checks"]:
                        kind, tags = chk.classify_check(c_)
                        for pp in o["props"]:
                            qp = o.get("quick_props")
                            in_quick = o.get("tier", "quick") == "quick" and (qp is None or pp in qp)
                            if chk.attributable(pp, o, c_, tags):
                                by_prop.setdefault(pp, {"quick": False, "obligations": set()})
                                by_prop[pp]["obligations"].add(o["id"])
                                by_prop[pp]["quick"] |= in_quick
                und = [l[:200] for l in rr.stderr.splitlines() if l.startswith("UNDECIDED")][:6]
            finally:
                subprocess.call(["git", "-C", "/repo", "worktree", "remove", "--force", wt])
                subprocess.call(["rm", "-rf", out])
            caught = sorted(by_prop)
            results["seeded/" + name] = {"expected": "exit 1 for " + meta["property"], "exit": rr.returncode, "caught_by": caught,
                                         "caught_in_quick_tier": sorted(p for p, v in by_prop.items() if v["quick"]),
                                         "failing_obligations": sorted(set(failing)), "undecided": und,
                                         "obligations_run": len(obs), "tier": tier}
            json.dump(results, open(path, "w"), indent=1)
            own = meta["property"]
            print("seeded", name, ("CAUGHT own=%s by %s via %s" % (own in caught, ",".join(caught), ",".join(sorted(set(failing))[:4]))) if caught else "MISSED",
                  "exit", rr.returncode, und[:2])
    json.dump(results, open(path, "w"), indent=1)
    return 0 if ok else 1


if __name__ == "__main__":
    sys.exit(main())
