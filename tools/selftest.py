#!/usr/bin/env python3
"""Self-test of the machinery (not part of quick/thorough): every benign refactor must keep exit 0, every seeded
property-breaking change must give exit 1 for its property.

  selftest.py [--benign] [--seeded] [--only NAME] [--jobs N]

Results are written to /verif/selftest/results.json (committed as a record of which checks catch which changes).
"""
import argparse
import glob
import json
import os
import subprocess
import sys
import tempfile

VERIF = os.path.dirname(os.path.dirname(os.path.abspath(__file__)))
BENIGN_PROPS = {
    "bitstream_refactor": ["C14", "C11"],
    "box_header_refactor": ["C10"],
    "unpack_signed_refactor": ["C04"],
    "icc_refactor": ["C18"],
    "state_refactor": ["C08"],
}


def run_with_patch(patch, props, jobs, only=""):
    wt = tempfile.mkdtemp(prefix="stest.")
    os.rmdir(wt)
    subprocess.check_call(["git", "-C", "/repo", "worktree", "add", "-q", "--detach", wt, "HEAD"])
    out = tempfile.mkdtemp(prefix="stest_out.")
    res = {}
    try:
        subprocess.check_call(["git", "-C", wt, "apply", patch])
        for p in props:
            cmd = [os.path.join(VERIF, "check"), p, "--jobs", str(jobs)]
            if only:
                cmd += ["--only", only]
            r = subprocess.run(cmd, cwd=VERIF, env=dict(os.environ, VERIF_REPO=wt, VERIF_OUT=out), capture_output=True, text=True)
            res[p] = {"exit": r.returncode,
                      "violations": [l[:400] for l in r.stdout.splitlines() if l.startswith("VIOLATION")],
                      "undecided": [l[:300] for l in r.stderr.splitlines() if l.startswith("UNDECIDED")][:8]}
    finally:
        subprocess.call(["git", "-C", "/repo", "worktree", "remove", "--force", wt])
        subprocess.call(["rm", "-rf", out])
    return res


def main():
    ap = argparse.ArgumentParser()
    ap.add_argument("--benign", action="store_true")
    ap.add_argument("--seeded", action="store_true")
    ap.add_argument("--only", default="")
    ap.add_argument("--jobs", default="8")
    a = ap.parse_args()
    path = os.path.join(VERIF, "selftest", "results.json")
    results = json.load(open(path)) if os.path.exists(path) else {}
    ok = True
    if a.benign or not a.seeded:
        for f in sorted(glob.glob(os.path.join(VERIF, "selftest", "benign", "*.diff"))):
            name = os.path.basename(f)[:-5]
            if a.only and a.only != name:
                continue
            r = run_with_patch(f, BENIGN_PROPS.get(name, []), a.jobs)
            good = all(v["exit"] == 0 for v in r.values())
            results["benign/" + name] = {"expected": "exit 0", "ok": good, "runs": r}
            print("benign", name, "OK" if good else "UNEXPECTED", {k: v["exit"] for k, v in r.items()})
            ok &= good
    if a.seeded or not a.benign:
        for d in sorted(glob.glob(os.path.join(VERIF, "seeded", "*", "patch.diff"))):
            name = os.path.basename(os.path.dirname(d))
            if a.only and a.only != name:
                continue
            meta = json.load(open(os.path.join(os.path.dirname(d), "meta.json")))
            props = [meta["property"]] + meta.get("also_check", [])
            r = run_with_patch(d, props, a.jobs)
            caught = [p for p, v in r.items() if v["exit"] == 1]
            results["seeded/" + name] = {"expected": "exit 1 for " + meta["property"], "caught_by": caught, "runs": r}
            print("seeded", name, "CAUGHT by " + ",".join(caught) if caught else "MISSED", {k: v["exit"] for k, v in r.items()})
    json.dump(results, open(path, "w"), indent=1)
    return 0 if ok else 1


if __name__ == "__main__":
    sys.exit(main())
