//! Demonstration for seeded change 3 (property C01).
//!
//! A hand-built 1x1, single-channel Modular image (32-bit samples) with one Palette transform
//! (1 colour, no deltas).  The MA tree is a single leaf with the Zero predictor and
//! offset = i32::MIN, and every distribution is a single-symbol prefix code, so every decoded
//! sample -- in particular the palette index -- equals i32::MIN.  Decoding and undoing the
//! transform must complete without panicking.

use jxl_bitstream::Bitstream;
use jxl_modular::{ChannelShift, Modular, ModularParams};
use jxl_oxide_common::Bundle;
use jxl_threadpool::JxlThreadPool;

/// LSB-first bit writer matching `jxl_bitstream::Bitstream`.
#[derive(Default)]
struct BitWriter {
    bytes: Vec<u8>,
    nbits: usize,
}

impl BitWriter {
    fn put(&mut self, value: u32, bits: usize) {
        for i in 0..bits {
            if self.nbits % 8 == 0 {
                self.bytes.push(0);
            }
            let bit = ((value >> i) & 1) as u8;
            *self.bytes.last_mut().unwrap() |= bit << (self.nbits % 8);
            self.nbits += 1;
        }
    }

    fn finish(mut self) -> Vec<u8> {
        self.bytes.extend_from_slice(&[0u8; 16]);
        self.bytes
    }
}

fn build(offset_bits: u32) -> Vec<u8> {
    let mut w = BitWriter::default();

    // ModularHeader
    w.put(0, 1); // use_global_tree = false
    w.put(1, 1); // wp_params.default_wp = true
    w.put(1, 2); // nb_transforms: selector 1 => 1
    // TransformInfo
    w.put(1, 2); // Palette
    w.put(0, 2); // begin_c: selector 0, u(3)
    w.put(0, 3); //   = 0
    w.put(3, 2); w.put(16, 13);
    w.put(0, 2); // nb_colours: selector 0, u(8)
    w.put(0, 8);
    w.put(0, 2); // nb_deltas: selector 0 => 0
    w.put(0, 4); // d_pred = Zero

    // MA tree: entropy decoder with 6 distributions
    w.put(0, 1); // lz77.enabled = false
    w.put(1, 1); // cluster map: simple
    w.put(1, 2); //   nbits = 1
    for ctx in 0..6 {
        // context 3 (leaf offset) gets its own cluster
        w.put((ctx == 3) as u32, 1);
    }
    w.put(1, 1); // use_prefix_code
    w.put(0, 4); // cluster 0: split_exponent = 0 (msb/lsb zero-width)
    w.put(0, 4); // cluster 1: split_exponent = 0
    w.put(0, 1); // cluster 0: alphabet size 1
    w.put(1, 1); // cluster 1: alphabet size = 1 + (1 << 5) + 0 = 33
    w.put(5, 4);
    w.put(0, 5);
    // cluster 0 histogram: empty (single symbol 0)
    // cluster 1 histogram: simple code, one symbol = 32
    w.put(1, 2); // hskip = 1 => simple
    w.put(0, 2); // nsym = 1
    w.put(0, 6); // symbol 32 (alphabet_bits = 6)

    // MA tree nodes: a single leaf.
    //   property (ctx 1) = 0 => leaf, predictor (ctx 2) = 0 => Zero: no bits
    //   offset (ctx 3): token 32 with split_exponent 0 => 31 extra bits follow;
    //   value = (1 << 31) | extra, then UnpackSigned.
    let _ = offset_bits;
    //   mul_log (ctx 4) = 0, mul_bits (ctx 5) = 0: no bits

    // Sample entropy decoder with 1 distribution
    w.put(0, 1); // lz77.enabled = false
    w.put(1, 1); // use_prefix_code
    w.put(0, 4); // split_exponent = 0
    w.put(0, 1); // alphabet size 1 => single symbol 0

    w.finish()
}

fn decode(buf: &[u8]) -> Vec<i32> {
    let mut bitstream = Bitstream::new(buf);
    let params = ModularParams::new(
        1,
        1,
        256,
        8,
        vec![ChannelShift::from_shift(0); 17],
        None,
        None,
    );
    let mut modular = Modular::<i32>::parse(&mut bitstream, params).expect("valid header");
    let image = modular.image_mut().expect("has a channel");
    let mut subimage = image.prepare_gmodular().expect("valid transform");
    subimage
        .decode(&mut bitstream, 0, false)
        .expect("valid stream");
    let pool = JxlThreadPool::none();
    subimage.finish(&pool);

    let image = modular.into_image().unwrap();
    image
        .image_channels()
        .iter()
        .map(|g| *g.get_ref(0, 0))
        .collect()
}

#[test]
fn palette_index_is_small_negative() {
    // offset = UnpackSigned(0x8000_0001) = -(1 << 30) - 1: an ordinary "delta palette" index.
    let buf = build(1);
    let out = decode(&buf);
    eprintln!("{out:?}");
}

#[test]
fn palette_index_is_i32_min() {
    // offset = UnpackSigned(0xffff_ffff) = i32::MIN
    let buf = build(0x7fff_ffff);
    let out = decode(&buf);
    // -(i32::MIN + 1) % 143 = 23 => +DELTA_PALETTE[12][0] = 0
    eprintln!("{out:?}");
}
