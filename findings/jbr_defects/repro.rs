//! Native reproduction (public API) of the app-marker length defect in JPEG reconstruction data (C17/C01).
//! Copy to crates/jxl-jbr/tests/jbrd_app_marker.rs and run
//!     cargo test --offline -p jxl-jbr --test jbrd_app_marker
//! Before the fix the header parses and `expected_icc_len()` (called by JxlImage::jpeg_reconstruction_status)
//! panics with "attempt to subtract with overflow"; after it the hostile header is rejected with an error.
use jxl_jbr::JpegBitstreamData;

#[test]
fn short_icc_app_marker_is_an_error_not_a_panic() {
    // header: is_gray=0, marker list = [0xe0 (APP0), 0xd9 (EOI)], one app marker of type 1 (ICC) with length 4
    let mut jbrd = vec![0xc4u8, 0xac, 0x01];
    jbrd.extend_from_slice(&[0u8; 22]);
    match JpegBitstreamData::try_parse(&jbrd) {
        Err(_) => {} // rejected while parsing: fine
        Ok(None) => panic!("25 bytes are enough for this header"),
        Ok(Some(data)) => {
            // must not panic
            let _ = data.header().expected_icc_len();
            let _ = data.header().expected_exif_len();
            let _ = data.header().expected_xmp_len();
        }
    }
}
