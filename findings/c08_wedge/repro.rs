//! Reproduction: after `JxlImage::render_frame` fails inside the blend/composite step
//! (allocation limit hit), a later `render_frame` call on the same image never returns.
//!
//! Only the public API of `jxl-oxide` is used.
//!
//! Environment variables:
//!   WEDGE_POOL       "none" (default, single-threaded, deterministic) or "rayon"
//!   WEDGE_LIMITS     comma separated list of limits to test instead of sweeping
//!   WEDGE_STEPS      number of sweep points below the peak (default 600)
//!   WEDGE_TIMEOUT    watchdog timeout in seconds (default 20)
//!   WEDGE_HOLD_SECS  after the first hang, keep the process alive this many seconds
//!                    (so that a debugger can be attached), default 0
//!   WEDGE_MAX_HANGS  stop after this many hanging limits were found (default 1)

use std::path::PathBuf;
use std::sync::Arc;
use std::sync::mpsc;
use std::time::{Duration, Instant};

use jxl_oxide::{AllocTracker, JxlImage, JxlThreadPool};

fn fixture() -> Vec<u8> {
    let mut path = PathBuf::from(env!("CARGO_MANIFEST_DIR"));
    path.push("tests/cms/cmyk_layers.jxl");
    std::fs::read(path).unwrap()
}

fn pool() -> JxlThreadPool {
    #[cfg(feature = "rayon")]
    if std::env::var("WEDGE_POOL").as_deref() == Ok("rayon") {
        return JxlThreadPool::rayon(None);
    }
    JxlThreadPool::none()
}

fn open(data: &[u8], limit: usize) -> jxl_oxide::Result<JxlImage> {
    JxlImage::builder()
        .pool(pool())
        .alloc_tracker(AllocTracker::with_limit(limit))
        .read(std::io::Cursor::new(data))
}

#[derive(Debug)]
enum Outcome {
    OpenFailed(String),
    FirstOk,
    /// first call failed, all follow-up calls returned (with these results)
    Returned { first: String, later: Vec<String> },
    /// first call failed, the follow-up call #n (1-based) did not return within the timeout
    Hang { first: String, later: Vec<String>, stuck_call: usize },
}

fn try_limit(data: &[u8], limit: usize, timeout: Duration, retries: usize) -> Outcome {
    let image = match open(data, limit) {
        Ok(image) => Arc::new(image),
        Err(e) => return Outcome::OpenFailed(e.to_string()),
    };

    let first = match image.render_frame(0) {
        Ok(_) => return Outcome::FirstOk,
        Err(e) => e.to_string(),
    };

    let mut later = Vec::new();
    for n in 1..=retries {
        let (tx, rx) = mpsc::channel();
        let image = Arc::clone(&image);
        std::thread::Builder::new()
            .name(format!("second-render-L{limit}"))
            .spawn(move || {
                let r = image.render_frame(0).map(|_| ()).map_err(|e| e.to_string());
                let _ = tx.send(r);
            })
            .unwrap();
        match rx.recv_timeout(timeout) {
            Ok(Ok(())) => later.push("Ok".to_string()),
            Ok(Err(e)) => later.push(format!("Err({e})")),
            Err(_) => {
                return Outcome::Hang {
                    first,
                    later,
                    stuck_call: n + 1,
                };
            }
        }
    }
    Outcome::Returned { first, later }
}

fn env_usize(name: &str, default: usize) -> usize {
    std::env::var(name)
        .ok()
        .and_then(|x| x.parse().ok())
        .unwrap_or(default)
}

#[test]
fn wedge_after_failed_blend() {
    let data = fixture();
    let timeout = Duration::from_secs(env_usize("WEDGE_TIMEOUT", 20) as u64);
    let hold = Duration::from_secs(env_usize("WEDGE_HOLD_SECS", 0) as u64);
    let max_hangs = env_usize("WEDGE_MAX_HANGS", 1);
    let steps = env_usize("WEDGE_STEPS", 600);
    println!("pid = {}", std::process::id());

    // Image facts and normal render time with an ample limit.
    let ample = 1usize << 32;
    {
        let image = open(&data, ample).unwrap();
        println!(
            "image: {}x{}, loaded frames = {}, loaded keyframes = {}",
            image.width(),
            image.height(),
            image.num_loaded_frames(),
            image.num_loaded_keyframes()
        );
        for idx in 0..image.num_loaded_frames() {
            let h = image.frame(idx).unwrap().header();
            println!(
                "  frame {idx}: type={:?} enc={:?} {}x{} at ({},{}) is_last={} save_as_reference={} blend={:?}",
                h.frame_type,
                h.encoding,
                h.width,
                h.height,
                h.x0,
                h.y0,
                h.is_last,
                h.save_as_reference,
                h.blending_info.mode,
            );
        }
        let begin = Instant::now();
        image.render_frame(0).unwrap();
        let t1 = begin.elapsed();
        let begin = Instant::now();
        image.render_frame(0).unwrap();
        let t2 = begin.elapsed();
        println!("normal render time with ample limit: first {t1:?}, second {t2:?}");
    }

    let limits: Vec<usize> = if let Ok(list) = std::env::var("WEDGE_LIMITS") {
        list.split(',').map(|x| x.trim().parse().unwrap()).collect()
    } else {
        // Bisection: smallest limit for which open succeeds, and smallest for which render
        // succeeds ("peak").
        let bisect = |pred: &dyn Fn(usize) -> bool| {
            let (mut lo, mut hi) = (0usize, ample);
            while hi - lo > 1 {
                let mid = lo + (hi - lo) / 2;
                if pred(mid) {
                    hi = mid;
                } else {
                    lo = mid;
                }
            }
            hi
        };
        let min_open = bisect(&|l| open(&data, l).is_ok());
        let peak = bisect(&|l| {
            open(&data, l)
                .map(|image| image.render_frame(0).is_ok())
                .unwrap_or(false)
        });
        println!("smallest limit that opens the image: {min_open}");
        println!("smallest limit that renders keyframe 0 (peak usage): {peak}");

        let span = peak - min_open;
        (0..steps)
            .map(|i| peak - 1 - (span as u128 * i as u128 / steps as u128) as usize)
            .collect()
    };

    let mut hangs = Vec::new();
    let mut histogram = std::collections::BTreeMap::<String, (usize, usize, usize)>::new();
    for &limit in &limits {
        let outcome = try_limit(&data, limit, timeout, 3);
        let key = match &outcome {
            Outcome::OpenFailed(e) => format!("open failed: {e}"),
            Outcome::FirstOk => "first render ok".to_string(),
            Outcome::Returned { first, later } => {
                format!("first: Err({first}); later: {later:?}")
            }
            Outcome::Hang {
                first,
                later,
                stuck_call,
            } => format!("HANG at call #{stuck_call}; first: Err({first}); later: {later:?}"),
        };
        let entry = histogram.entry(key.clone()).or_insert((0, limit, limit));
        entry.0 += 1;
        entry.1 = entry.1.min(limit);
        entry.2 = entry.2.max(limit);

        if let Outcome::Hang { .. } = &outcome {
            println!("L = {limit}: {key}  (no return within {timeout:?})");
            hangs.push(limit);
            if hangs.len() >= max_hangs {
                break;
            }
        } else if limits.len() <= 32 {
            println!("L = {limit}: {key}");
        }
    }

    println!("--- outcome summary (count, min L, max L) ---");
    for (key, (count, lo, hi)) in &histogram {
        println!("{count:5}  L in [{lo}, {hi}]  {key}");
    }

    if hangs.is_empty() {
        println!("RESULT: no hang observed for {} limits", limits.len());
    } else {
        println!("RESULT: HANG reproduced, limits = {hangs:?}");
        if !hold.is_zero() {
            println!("holding process {} for {hold:?}", std::process::id());
            std::thread::sleep(hold);
        }
        // Stuck threads can never be joined; leave the process forcibly.
        use std::io::Write;
        std::io::stdout().flush().unwrap();
        std::process::exit(3);
    }
}
