//! Native reproduction of the C18 finding of obligation icc.tag_list_end_size (decode_icc, crates/jxl-color/src/icc/decode.rs).
//! Copy to crates/jxl-color/tests/icc_taglist_end.rs and run
//!     cargo test --offline -p jxl-color --test icc_taglist_end
//! A command stream that ends inside the tag list makes `decode_icc` return Ok early (`return Ok(out)` in the tag loop)
//! without the "decoded ICC profile size mismatch" check that guards the end of the main section: a stream announcing
//! a 200-byte profile yields a 132-byte "profile" whose own header says 200. libjxl (UnpredictICC) leaves the tag loop,
//! finds the main section empty and fails with "Wrong output size".
use jxl_color::icc::decode_icc;

fn stream(output_size: u8, commands: &[u8], data: &[u8]) -> Vec<u8> {
    assert!(output_size >= 128);
    let mut s = vec![output_size, 0x01, commands.len() as u8]; // varint(output_size) (two bytes), varint(commands_size)
    s.extend_from_slice(commands);
    s.extend_from_slice(data);
    s
}

#[test]
fn commands_end_after_the_tag_count() {
    // output_size = 200, commands = [2] (tag count 1, then the command stream ends), data = 128 header residuals
    let r = decode_icc(&stream(200, &[2], &[0u8; 128]));
    match r {
        Ok(out) => assert_eq!(out.len(), 200, "Ok must mean a profile of exactly output_size bytes"),
        Err(_) => {}
    }
}

#[test]
fn commands_end_after_one_tag_entry() {
    // same, one 'cprt' entry (tagcode 4) and then the end of the commands: 144 of 200 bytes
    let r = decode_icc(&stream(200, &[2, 4], &[0u8; 128]));
    match r {
        Ok(out) => assert_eq!(out.len(), 200, "Ok must mean a profile of exactly output_size bytes"),
        Err(_) => {}
    }
}

#[test]
fn short_main_section_is_rejected() {
    // for comparison: the same shortfall in the main section is rejected today
    assert!(decode_icc(&stream(200, &[2, 4, 0], &[0u8; 128])).is_err());
}
