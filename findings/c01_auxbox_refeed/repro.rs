//! Native reproduction of a C01 defect (DESIGN.md section 7 item 5): panic on a later feed after the finalisation
//! of a Brotli-compressed aux box failed.
//! Copy to crates/jxl-oxide/tests/auxbox_refeed.rs and run
//!     cargo test --offline -p jxl-oxide --test auxbox_refeed
//! On the unrepaired tree the second feed panics with "explicit panic" in AuxBoxReader::ensure_raw
//! (crates/jxl-oxide/src/aux_box.rs:59).
//!
//! Event history seen by AuxBoxList::handle_event (exactly what the container parser emits for this file):
//!     AuxBoxStart { ty: Exif, brotli_compressed: true, last_box: false }
//!     AuxBoxEnd(Exif)            -> Err(InvalidData): the empty Brotli stream is incomplete; AuxBoxList::finalize returns
//!                                   before replacing `current_box`, which stays (DataKind::Brotli, not done)
//!     AuxBoxStart { ty: xml, brotli_compressed: false, .. }   -> ensure_raw on a Brotli reader -> panic!()
use jxl_oxide::JxlImage;

#[test]
fn feeding_again_after_a_failed_brob_finalisation_returns() {
    let mut file: Vec<u8> = vec![0, 0, 0, 0x0c, b'J', b'X', b'L', b' ', 0x0d, 0x0a, 0x87, 0x0a]; // signature box
    file.extend_from_slice(&[0, 0, 0, 12, b'b', b'r', b'o', b'b', b'E', b'x', b'i', b'f']); // brob(Exif), empty compressed payload
    file.extend_from_slice(&[0, 0, 0, 9, b'x', b'm', b'l', b' ', b'x']); // plain xml box
    let mut image = JxlImage::builder().build_uninit();
    let first = image.feed_bytes(&file);
    assert!(first.is_err(), "the truncated Brotli stream is reported");
    let consumed = image.reader().previous_consumed_bytes();
    assert_eq!(consumed, 24, "the parser consumed the signature and the brob box");
    // the caller only logs metadata errors and feeds the rest of the file: must return (Ok or Err), not panic
    let _ = image.feed_bytes(&file[consumed..]);
}
