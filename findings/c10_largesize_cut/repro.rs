//! Native reproduction of the C09/C10 defect fixed by the "fix: 64-bit box header split across feeds" commit.
//! Copy to crates/jxl-bitstream/tests/largesize_cut.rs and run
//!     cargo test --offline -p jxl-bitstream --test largesize_cut
//! Before the fix `split_inside_largesize_header` fails with Err(InvalidBox); after it both tests pass.
use jxl_bitstream::{ContainerParser, ParseEvent};

fn file() -> Vec<u8> {
    let mut v = vec![0, 0, 0, 0xc, b'J', b'X', b'L', b' ', 0xd, 0xa, 0x87, 0xa]; // signature box
    v.extend_from_slice(&[0, 0, 0, 0x14, b'f', b't', b'y', b'p', b'j', b'x', b'l', b' ', 0, 0, 0, 0, b'j', b'x', b'l', b' ']);
    // jxlc box with a 64-bit size: size field 1, type, largesize = 16 + 3
    v.extend_from_slice(&[0, 0, 0, 1, b'j', b'x', b'l', b'c', 0, 0, 0, 0, 0, 0, 0, 19]);
    v.extend_from_slice(&[0xff, 0x0a, 0x42]);
    v
}

/// feeds `chunks` as the API prescribes (unconsumed bytes are offered again) and returns the codestream
fn feed(chunks: &[&[u8]]) -> Result<Vec<u8>, jxl_bitstream::Error> {
    let mut parser = ContainerParser::new();
    let mut pending: Vec<u8> = Vec::new();
    let mut codestream = Vec::new();
    for chunk in chunks {
        pending.extend_from_slice(chunk);
        for ev in parser.feed_bytes(&pending) {
            if let ParseEvent::Codestream(b) = ev? {
                codestream.extend_from_slice(b);
            }
        }
        let used = parser.previous_consumed_bytes();
        pending.drain(..used);
    }
    Ok(codestream)
}

#[test]
fn whole_file_at_once() {
    assert_eq!(feed(&[&file()]).unwrap(), vec![0xff, 0x0a, 0x42]);
}

#[test]
fn split_inside_largesize_header() {
    let f = file();
    // cut 10 bytes into the 16-byte header of the jxlc box: only 2 of the 8 largesize bytes have arrived
    let cut = 12 + 20 + 10;
    let got = feed(&[&f[..cut], &f[cut..]]);
    assert_eq!(got.expect("a chunk boundary inside a 64-bit box header must mean 'need more data'"), vec![0xff, 0x0a, 0x42]);
}
