//! Native reproductions of four defects in crates/jxl-image/src/lib.rs found by contract obligations
//! (im.parse_integer_sample_31, im.oriented_dims, im.preview_header_parse, im.parse_float_sample_zero).
//! Copy to crates/jxl-image/tests/image_defects.rs and run (debug profile = checked build)
//!     cargo test --offline -p jxl-image --test image_defects
use jxl_bitstream::Bitstream;
use jxl_image::{BitDepth, ImageHeader, PreviewHeader};
use jxl_oxide_common::Bundle;

/// LSB-first bit writer (18181-1 section 9)
struct W(Vec<u8>, usize);
impl W {
    fn u(&mut self, n: usize, v: u64) {
        for i in 0..n {
            if self.1 % 8 == 0 { self.0.push(0); }
            if (v >> i) & 1 == 1 { *self.0.last_mut().unwrap() |= 1 << (self.1 % 8); }
            self.1 += 1;
        }
    }
}

/// C01: a 31-bit integer sample depth is accepted by BitDepth::parse; converting any sample overflowed `(1i32 << 31) - 1`.
#[test]
fn integer_sample_31_bits() {
    let d = BitDepth::IntegerSample { bits_per_sample: 31 };
    let v = d.parse_integer_sample(i32::MAX);
    assert!((v - 1.0).abs() < 1e-6);
}

/// C15: an all-zero float sample narrower than 32 bits (here IEEE binary16) is 0.0, not 2^-15.
#[test]
fn float16_zero_is_zero() {
    let d = BitDepth::FloatSample { bits_per_sample: 16, exp_bits: 5 };
    assert_eq!(d.parse_integer_sample(0x0000), 0.0);
    assert_eq!(d.parse_integer_sample(0x3c00), 1.0);
    // smallest binary16 subnormal = 2^-24
    assert_eq!(d.parse_integer_sample(0x0001), f32::from_bits((127 - 24) << 23));
}

/// C14: PreviewHeader with an aspect-ratio code: width is derived from the height, no width field is present.
#[test]
fn preview_header_with_ratio() {
    let mut w = W(Vec::new(), 0);
    w.u(1, 1); // div8
    w.u(2, 0); // h_div8: selector 0 = 16 -> height 128
    w.u(3, 1); // ratio 1 = 1:1
    let written = w.1;
    w.u(8, 0xa5); // following fields of the enclosing header
    let mut bs = Bitstream::new(&w.0);
    let p = PreviewHeader::parse(&mut bs, ()).unwrap();
    assert_eq!((p.width, p.height), (128, 128));
    assert_eq!(bs.num_read_bits(), written, "parsing stops at the bit the writer stopped at");
}

/// C01: SizeHeader ratio 7 (2:1) with height 2^30 gives width 2^31; asking for the oriented size must not panic.
#[test]
fn oriented_width_of_a_huge_image() {
    let mut w = W(Vec::new(), 0);
    w.u(8, 0xff); w.u(8, 0x0a); // signature
    w.u(1, 0); // div8 = false
    w.u(2, 3); w.u(30, (1u64 << 30) - 1); // height = 1 + u(30) = 2^30
    w.u(3, 7); // ratio 7 = 2:1 -> width 2^31
    w.u(1, 0); // metadata: all_default = false
    w.u(1, 1); // extra_fields
    w.u(3, 1); // orientation - 1 = 1 -> orientation 2 (flip horizontally)
    w.u(1, 0); w.u(1, 0); w.u(1, 0); // have_intr_size, have_preview, have_animation
    w.u(1, 0); w.u(2, 0); // bit_depth: integer, 8 bits
    w.u(1, 1); // modular_16bit_buffers
    w.u(2, 0); // num_extra = 0
    w.u(1, 1); // xyb_encoded
    w.u(1, 1); // colour_encoding all_default
    w.u(1, 1); // tone_mapping all_default
    w.u(2, 0); // extensions = 0
    w.u(1, 1); // default_m
    w.u(16, 0);
    let mut bs = Bitstream::new(&w.0);
    let h = ImageHeader::parse(&mut bs, ()).unwrap();
    assert_eq!(h.size.width as u64, 1u64 << 31);
    assert_eq!(h.metadata.orientation, 2);
    assert_eq!(h.width_with_orientation(), h.size.width);
    let (ow, _oh, left, _top) = h.metadata.apply_orientation(h.size.width, h.size.height, 0, 0, false);
    assert_eq!(ow, h.size.width);
    assert_eq!(left as u32, h.size.width - 1);
}
