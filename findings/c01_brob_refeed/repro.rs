//! Native reproduction of a C01 defect (panic on a later feed after a rejected Brotli-compressed box).
//! Copy to crates/jxl-bitstream/tests/brob_refeed.rs and run (debug profile = checked build)
//!     cargo test --offline -p jxl-bitstream --test brob_refeed
//! Before the fix the second feed panics with "attempt to subtract with overflow" (parse.rs, `*bytes_left -= 4`);
//! in a release build `bytes_left` wraps to a huge value instead.
use jxl_bitstream::ContainerParser;

#[test]
fn feeding_again_after_a_rejected_brob_box_returns() {
    let mut file = vec![0, 0, 0, 0xc, b'J', b'X', b'L', b' ', 0xd, 0xa, 0x87, 0xa]; // signature box
    file.extend_from_slice(&[0, 0, 0, 0x0c, b'b', b'r', b'o', b'b']); // brob box, payload = 4 bytes
    file.extend_from_slice(b"jxl\x0c"); // compressed box type is a reserved "jxl?" type -> must be rejected
    let mut parser = ContainerParser::new();
    let mut saw_err = false;
    for ev in parser.feed_bytes(&file) {
        if ev.is_err() {
            saw_err = true;
        }
    }
    assert!(saw_err, "a Brotli-compressed jxl* box is rejected");
    // the caller feeds the next chunk anyway (e.g. it only logs errors): must return, not panic
    let more = [0u8, 0, 0, 0x0c];
    for ev in parser.feed_bytes(&more) {
        let _ = ev;
    }
}
