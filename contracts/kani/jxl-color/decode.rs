// Contracts for crates/jxl-color/src/icc/decode.rs (ICC profile decompression, 18181-1 Annex E.4).
use super::*;

// ------------------------------------------------------------------------------------------------
// E.4.1 context function:  ctx = 0 for the first 129 bytes; otherwise 1 + p1(b1) + 8 * p2(b2)
// ------------------------------------------------------------------------------------------------
fn is_alpha(b: u8) -> bool { (b >= b'a' && b <= b'z') || (b >= b'A' && b <= b'Z') }
fn is_num(b: u8) -> bool { (b >= b'0' && b <= b'9') || b == b'.' || b == b',' }

fn spec_icc_ctx(i: usize, b1: u8, b2: u8) -> u32 {
    if i <= 128 { return 0; }
    let p1 = if is_alpha(b1) { 0 } else if is_num(b1) { 1 } else if b1 < 2 { 2 + b1 as u32 } else if b1 < 16 { 4 }
             else if b1 > 240 && b1 < 255 { 5 } else if b1 == 255 { 6 } else { 7 };
    let p2 = if is_alpha(b2) { 0 } else if is_num(b2) { 1 } else if b2 < 16 { 2 } else if b2 > 240 { 3 } else { 4 };
    1 + p1 + 8 * p2
}

#[kani::proof]
fn icc_ctx_contract() {
    let i: usize = kani::any();
    let b1: u8 = kani::any();
    let b2: u8 = kani::any();
    let c = get_icc_ctx(i, b1, b2);
    assert!(c == spec_icc_ctx(i, b1, b2), "[C18] ICC context = the standard's IccContext(i, b1, b2)");
    assert!(c < 41, "[C18,C01] one of the 41 ICC contexts");
    kani::cover!(c == 40);
    kani::cover!(c == 0 && i == 128);
}

// ------------------------------------------------------------------------------------------------
// E.4.2 header prediction. `header` holds the bytes already decoded (positions whose prediction is 0
// coincide with the transmitted residuals, which is what decode_icc passes).
// ------------------------------------------------------------------------------------------------
fn spec_icc_predict_header(i: usize, size: u32, h: &[u8; 128]) -> u8 {
    const MNTR: [u8; 12] = *b"mntrRGB XYZ ";
    const ACSP: [u8; 4] = *b"acsp";
    if i < 4 { return (size >> (8 * (3 - i))) as u8; }
    if i == 8 { return 4; }
    if i >= 12 && i <= 23 { return MNTR[i - 12]; }
    if i >= 36 && i <= 39 { return ACSP[i - 36]; }
    if i >= 41 && i <= 43 {
        let k = i - 41;
        if h[40] == b'A' { return [b'P', b'P', b'L'][k]; }
        if h[40] == b'M' { return [b'S', b'F', b'T'][k]; }
        if h[40] == b'S' && i >= 42 && h[41] == b'G' { return [0, b'I', b' '][k]; }
        if h[40] == b'S' && i >= 42 && h[41] == b'U' { return [0, b'N', b'W'][k]; }
        return 0;
    }
    if i == 70 { return 246; }
    if i == 71 { return 214; }
    if i == 73 { return 1; }
    if i == 78 { return 211; }
    if i == 79 { return 45; }
    if i >= 80 && i <= 83 { return h[4 + i - 80]; }
    0
}

#[kani::proof]
fn icc_predict_header_contract() {
    let h: [u8; 128] = kani::any();
    let i: usize = kani::any();
    kani::assume(i < 128);
    let size: u32 = kani::any();
    // decode_icc passes header_data of length min(output_size, 128) and only indices below that length;
    // positions 40, 41 and 4..8 are read when predicting 41..43 and 80..83, all smaller than the index predicted.
    let len: usize = kani::any();
    kani::assume(i < len && len <= 128);
    let p = predict_header(i, size, &h[..len]);
    assert!(p == spec_icc_predict_header(i, size, &h), "[C18] predicted ICC header byte = the standard's table");
    kani::cover!(i == 43 && h[40] == b'S' && h[41] == b'U');
    kani::cover!(i == 83);
}

// ------------------------------------------------------------------------------------------------
// Varint (LEB128 limited to 63 bits: at most 9 bytes)
// ------------------------------------------------------------------------------------------------
#[kani::proof]
#[kani::unwind(11)]
fn icc_varint_contract() {
    let data: [u8; 10] = kani::any();
    let len: usize = kani::any();
    kani::assume(len <= 10);
    let slice: &[u8] = &data[..len];
    let mut cur = Cursor::new(slice);
    let r = varint(&mut cur);
    // specification
    let mut value = 0u64;
    let mut n = 0usize;
    let mut complete = false;
    while n < 9 && n < len {
        value |= ((data[n] & 0x7f) as u64) << (7 * n);
        n += 1;
        if data[n - 1] & 0x80 == 0 { complete = true; break; }
    }
    if n == 9 { complete = true; }
    match r {
        Ok(v) => {
            assert!(complete, "[C18] varint succeeds only on a complete value");
            assert!(v == value, "[C18] varint = little-endian base-128 value (at most 9 bytes / 63 bits)");
            assert!(cur.position() == n as u64, "[C18] varint consumes exactly its bytes");
        }
        Err(_) => assert!(!complete, "[C18,C01] varint fails only when the stream ends inside the value"),
    }
    kani::cover!(matches!(r, Ok(v) if v >= (1u64 << 62)));
}

// ------------------------------------------------------------------------------------------------
// Shuffle: bounded companion of the unbounded Verus rows (verus/icc_shuffle.spec); its job is to give a
// concrete failing input when a change breaks the kernels. Independent formulation: write the input
// row by row into a w x ceil(n/w) matrix whose last column lacks its bottom elements, read it column-wise.
// ------------------------------------------------------------------------------------------------
fn spec_shuffle(input: &[u8], w: usize) -> Vec<u8> {
    let n = input.len();
    let cols = (n + w - 1) / w;
    let missing = cols * w - n; // bottom `missing` rows lack the last column
    let mut m = [[None::<u8>; 4]; 4]; // m[row][col], n <= 13 => cols <= 4 for w = 4; w = 2 => n <= 8
    let mut k = 0;
    for r in 0..w {
        let row_len = if r < w - missing { cols } else { cols - 1 };
        for c in 0..row_len {
            m[r][c] = Some(input[k]);
            k += 1;
        }
    }
    let mut out = Vec::new();
    for c in 0..cols {
        for r in 0..w {
            if let Some(b) = m[r][c] { out.push(b); }
        }
    }
    out
}

#[kani::proof]
#[kani::unwind(16)]
fn icc_shuffle2_bounded() {
    let data: [u8; 8] = kani::any();
    // every length 0..=8, concretely (a symbolic length makes the Vec growth paths intractable for CBMC)
    let mut n = 0;
    while n <= 8 {
        let out = shuffle2(&data[..n]);
        let spec = spec_shuffle(&data[..n], 2);
        assert!(out.len() == n && spec.len() == n, "[C18] shuffle keeps the length");
        let mut j = 0;
        while j < n {
            assert!(out[j] == spec[j], "[C18] 2-way shuffle = transposition of the 2-row matrix");
            j += 1;
        }
        n += 1;
    }
}

#[kani::proof]
#[kani::unwind(16)]
fn icc_shuffle4_bounded() {
    let data: [u8; 13] = kani::any();
    let mut n = 0;
    while n <= 13 {
        let out = shuffle4(&data[..n]);
        let spec = spec_shuffle(&data[..n], 4);
        assert!(out.len() == n && spec.len() == n, "[C18] shuffle keeps the length");
        let mut j = 0;
        while j < n {
            assert!(out[j] == spec[j], "[C18] 4-way shuffle = transposition of the 4-row matrix");
            j += 1;
        }
        n += 1;
    }
}

#[kani::proof]
fn canary() {
    let b: u8 = kani::any();
    assert!(get_icc_ctx(200, b, 0) != 17, "canary: must fail");
}

// ================================================================================================
// decode_icc as a command interpreter (18181-1 E.4.3 header, E.4.4 tag list, E.4.5 main content).
// One harness per command SHAPE: the command stream is concrete (every loop bound and branch of the
// interpreter is then concrete), the data stream -- and therefore every previously decoded output
// byte -- is symbolic, and the whole decoded profile is compared with an executable specification
// written from the definition (reference semantics: libjxl UnpredictICC / LinearPredictICCValue).
// Layout of an encoded stream:  varint(output_size) varint(commands_size) commands data.
//
// The stream is assembled in a [[u8; 64]; N] (viewed flat): CBMC keeps arrays of at most 64 elements
// field-sensitive, so the concrete command bytes really are constants during symbolic execution.
// ================================================================================================
const ICC_H: usize = 128;

struct IccStream { buf: [[u8; 64]; 12], len: usize }

impl IccStream {
    fn new() -> Self { IccStream { buf: [[0u8; 64]; 12], len: 0 } }
    fn push(&mut self, b: u8) { self.buf[self.len / 64][self.len % 64] = b; self.len += 1; }
    fn varint(&mut self, mut v: u64) {
        loop {
            let b = (v & 0x7f) as u8;
            v >>= 7;
            if v == 0 { self.push(b); break; }
            self.push(b | 0x80);
        }
    }
    fn bytes(&mut self, s: &[u8]) { let mut i = 0; while i < s.len() { self.push(s[i]); i += 1; } }
    fn build(output_size: u64, commands: &[u8], data: &[u8]) -> Self {
        let mut s = Self::new();
        s.varint(output_size);
        s.varint(commands.len() as u64);
        s.bytes(commands);
        s.bytes(data);
        s
    }
    fn as_slice(&self) -> &[u8] { &self.buf.as_flattened()[..self.len] }
}

/// E.4.3: header byte i = residual + prediction from the bytes decoded so far (at most 128 of them).
fn spec_icc_header(size: u32, resid: &[u8], exp: &mut [u8]) {
    let mut h = [0u8; 128];
    let n = if resid.len() < 128 { resid.len() } else { 128 };
    let mut i = 0;
    while i < n {
        h[i] = resid[i].wrapping_add(spec_icc_predict_header(i, size, &h));
        exp[i] = h[i];
        i += 1;
    }
}

fn icc_same(out: &[u8], exp: &[u8]) -> bool {
    if out.len() != exp.len() { return false; }
    let mut i = 0;
    while i < exp.len() {
        if out[i] != exp[i] { return false; }
        i += 1;
    }
    true
}

/// Expected profile under construction.
struct IccExp { b: [u8; 420], n: usize }

impl IccExp {
    /// starts with the 128-byte header decoded from the residuals `resid` (E.4.3)
    fn with_header(output_size: usize, resid: &[u8]) -> Self {
        let mut e = IccExp { b: [0u8; 420], n: ICC_H };
        spec_icc_header(output_size as u32, &resid[..ICC_H], &mut e.b);
        e
    }
    fn push(&mut self, v: u8) { self.b[self.n] = v; self.n += 1; }
    fn bytes(&mut self, s: &[u8]) { let mut i = 0; while i < s.len() { self.push(s[i]); i += 1; } }
    fn be32(&mut self, v: u32) {
        self.push((v >> 24) as u8); self.push((v >> 16) as u8); self.push((v >> 8) as u8); self.push(v as u8);
    }
    /// one 12-byte tag-list entry: signature, offset, size (big endian)
    fn tag(&mut self, name: &[u8], start: u32, size: u32) { self.bytes(&name[..4]); self.be32(start); self.be32(size); }
    /// E.4.5 command 4: `payload.len()` bytes, element width `width`, predictor `order`, distance `stride`:
    /// the payload is un-shuffled (width > 1), then byte i of the run = payload'[i] + byte (i mod width) of the
    /// big-endian width-byte prediction of the element containing i; the prediction is made from the elements
    /// 1, 2, 3 strides before the START of that element: p1, 2*p1 - p2, 3*p1 - 3*p2 + p3 modulo 2^(8*width).
    fn predicted_run(&mut self, payload: &[u8], width: usize, order: u8, stride: usize) {
        let start = self.n;
        let un = if width == 1 { payload.to_vec() } else { spec_shuffle(payload, width) };
        let mut i = 0;
        while i < payload.len() {
            let elem = start + (i / width) * width;
            let p1 = self.be_value(elem - stride, width);
            let pred: i64 = if order == 0 {
                p1
            } else if order == 1 {
                2 * p1 - self.be_value(elem - 2 * stride, width)
            } else {
                3 * p1 - 3 * self.be_value(elem - 2 * stride, width) + self.be_value(elem - 3 * stride, width)
            };
            let modulus = 1i64 << (8 * width);
            let m = ((pred % modulus) + modulus) % modulus;
            let byte = ((m >> (8 * (width - 1 - i % width))) & 0xff) as u8;
            self.b[start + i] = un[i].wrapping_add(byte);
            i += 1;
        }
        self.n = start + payload.len();
    }
    fn be_value(&self, pos: usize, width: usize) -> i64 {
        let mut v = 0i64;
        let mut k = 0;
        while k < width { v = v * 256 + self.b[pos + k] as i64; k += 1; }
        v
    }
    fn as_slice(&self) -> &[u8] { &self.b[..self.n] }
}

/// concrete command stream under construction (at most 64 bytes: stays field-sensitive)
struct IccCmds { b: [u8; 64], n: usize }
impl IccCmds {
    fn new() -> Self { IccCmds { b: [0u8; 64], n: 0 } }
    fn push(&mut self, v: u8) -> &mut Self { self.b[self.n] = v; self.n += 1; self }
    fn as_slice(&self) -> &[u8] { &self.b[..self.n] }
}

fn icc_decode(output_size: usize, commands: &[u8], data: &[u8]) -> Result<Vec<u8>> {
    let s = IccStream::build(output_size as u64, commands, data);
    decode_icc(s.as_slice())
}

fn icc_expect_ok(r: &Result<Vec<u8>>, exp: &IccExp) {
    kani::cover!(r.is_ok());
    match r {
        Ok(out) => assert!(icc_same(out, exp.as_slice()), "[C18] decoded profile = the profile the command stream describes, byte for byte"),
        Err(_) => assert!(false, "[C18] a consistent ICC command stream decodes"),
    }
}

// ---- header-only profiles -----------------------------------------------------------------------
fn icc_check_header_only(size: usize, resid: &[u8; 128]) {
    let r = icc_decode(size, &[], &resid[..size]);
    let mut exp = [0u8; 128];
    spec_icc_header(size as u32, &resid[..size], &mut exp);
    match &r {
        Ok(out) => assert!(icc_same(out, &exp[..size]), "[C18] profile of at most 128 bytes = residuals + header prediction"),
        Err(_) => assert!(false, "[C18] a header-only stream with all its residuals decodes"),
    }
}

#[kani::proof]
#[kani::unwind(150)]
fn icc_header_small() {
    let resid: [u8; 128] = kani::any();
    icc_check_header_only(0, &resid);
    icc_check_header_only(1, &resid);
    icc_check_header_only(44, &resid);
    // one residual missing: rejected
    assert!(icc_decode(1, &[], &resid[..0]).is_err(), "[C18,C01] data stream shorter than the header is rejected");
    assert!(icc_decode(44, &[], &resid[..43]).is_err(), "[C18,C01] data stream shorter than the header is rejected");
    kani::cover!(resid[40] == b'S' && resid[41] == b'U');
}

#[kani::proof]
#[kani::unwind(150)]
fn icc_header_127() {
    let resid: [u8; 128] = kani::any();
    icc_check_header_only(127, &resid);
}

#[kani::proof]
#[kani::unwind(150)]
fn icc_header_128() {
    let resid: [u8; 128] = kani::any();
    icc_check_header_only(128, &resid);
    assert!(icc_decode(128, &[], &resid[..127]).is_err(), "[C18,C01] data stream shorter than the header is rejected");
}

// ---- main content ---------------------------------------------------------------------------------
#[kani::proof]
#[kani::unwind(200)]
fn icc_cmd_copy_shuffle() {
    // no tag list; copy 5, 2-shuffle 5, 4-shuffle 7, 4-shuffle 2 (shorter than the width), 2-shuffle 1, copy 0
    const P: usize = 5 + 5 + 7 + 2 + 1;
    let data: [u8; ICC_H + P] = kani::any();
    let r = icc_decode(ICC_H + P, &[0, 1, 5, 2, 5, 3, 7, 3, 2, 2, 1, 1, 0], &data);
    let mut exp = IccExp::with_header(ICC_H + P, &data);
    let d = &data[ICC_H..];
    exp.bytes(&d[..5]);
    exp.bytes(&spec_shuffle(&d[5..10], 2));
    exp.bytes(&spec_shuffle(&d[10..17], 4));
    exp.bytes(&spec_shuffle(&d[17..19], 4));
    exp.bytes(&spec_shuffle(&d[19..20], 2));
    icc_expect_ok(&r, &exp);
}

#[kani::proof]
#[kani::unwind(240)]
fn icc_cmd_xyz_common() {
    // command 10, then every common-type command 16..=23, then 10 again
    const OUT: usize = ICC_H + 20 + 8 * 8 + 20;
    let data: [u8; ICC_H + 24] = kani::any();
    let r = icc_decode(OUT, &[0, 10, 16, 17, 18, 19, 20, 21, 22, 23, 10], &data);
    let mut exp = IccExp::with_header(OUT, &data);
    exp.bytes(b"XYZ "); exp.be32(0); exp.bytes(&data[ICC_H..ICC_H + 12]);
    let types: [&[u8; 4]; 8] = [b"XYZ ", b"desc", b"text", b"mluc", b"para", b"curv", b"sf32", b"gbd "];
    let mut k = 0;
    while k < 8 { exp.bytes(types[k]); exp.be32(0); k += 1; }
    exp.bytes(b"XYZ "); exp.be32(0); exp.bytes(&data[ICC_H + 12..]);
    icc_expect_ok(&r, &exp);
}

fn icc_predict_flags(width: usize, order: u8, explicit_stride: bool) -> u8 {
    (width as u8 - 1) | (order << 2) | if explicit_stride { 16 } else { 0 }
}

/// Predicted runs `lo..hi` of the six runs of element width `w`, all in one profile: orders 0, 1, 2 with the implicit
/// stride (= width) and orders 0, 1, 2 with explicit strides > width; every run length leaves a partial last element (w > 1).
fn icc_predict_orders(w: usize, nums: [usize; 6], strides: [usize; 3], lo: usize, hi: usize) {
    let mut total = 0;
    let mut k = lo;
    while k < hi { total += nums[k]; k += 1; }
    let data_all: [u8; ICC_H + 60] = kani::any();
    let data = &data_all[..ICC_H + total];
    let mut c = IccCmds::new();
    c.push(0);
    let mut exp = IccExp::with_header(ICC_H + total, data);
    let mut pos = ICC_H;
    let mut k = lo;
    while k < hi {
        let order = (k % 3) as u8;
        if k < 3 {
            c.push(4).push(icc_predict_flags(w, order, false)).push(nums[k] as u8);
            exp.predicted_run(&data[pos..pos + nums[k]], w, order, w);
        } else {
            c.push(4).push(icc_predict_flags(w, order, true)).push(strides[k - 3] as u8).push(nums[k] as u8);
            exp.predicted_run(&data[pos..pos + nums[k]], w, order, strides[k - 3]);
        }
        pos += nums[k];
        k += 1;
    }
    let r = icc_decode(ICC_H + total, c.as_slice(), data);
    icc_expect_ok(&r, &exp);
}

#[kani::proof]
#[kani::unwind(200)]
fn icc_predict_w1() { icc_predict_orders(1, [3, 2, 4, 2, 3, 3], [2, 5, 31], 0, 6); }

#[kani::proof]
#[kani::unwind(200)]
fn icc_predict_w2() { icc_predict_orders(2, [5, 3, 7, 3, 5, 5], [3, 5, 8], 0, 6); }

#[kani::proof]
#[kani::unwind(200)]
fn icc_predict_w4_implicit() { icc_predict_orders(4, [9, 7, 10, 5, 6, 11], [5, 7, 12], 0, 3); }

#[kani::proof]
#[kani::unwind(200)]
fn icc_predict_w4_explicit() { icc_predict_orders(4, [9, 7, 10, 5, 6, 11], [5, 7, 12], 3, 6); }

#[kani::proof]
#[kani::unwind(200)]
fn icc_predict_flags_reject() {
    let data: [u8; ICC_H + 1] = kani::any();
    // flags 0 = width 1, order 0, implicit stride is accepted (icc_predict_w1); width code 2 (= width 3) and order code 3 are not
    // (zero-length run followed by a 1-byte copy: nothing else is wrong with the stream)
    assert!(icc_decode(ICC_H + 1, &[0, 4, 2, 0, 1, 1], &data).is_err(), "[C18,C01] predicted run of width 3 is rejected");
    assert!(icc_decode(ICC_H + 1, &[0, 4, 12, 0, 1, 1], &data).is_err(), "[C18,C01] predicted run of order 3 is rejected");
}

#[kani::proof]
#[kani::unwind(200)]
fn icc_predict_stride_small() {
    let data: [u8; ICC_H + 8] = kani::any();
    // width 2, explicit stride 1 (stride 3 is accepted: icc_predict_w2)
    assert!(icc_decode(ICC_H + 3, &[0, 4, icc_predict_flags(2, 0, true), 1, 3], &data[..ICC_H + 3]).is_err(),
            "[C18,C01] stride smaller than the width is rejected");
    // width 4, explicit stride 3 (stride 5 is accepted: icc_predict_w4_explicit)
    assert!(icc_decode(ICC_H + 8, &[0, 4, icc_predict_flags(4, 1, true), 3, 8], &data).is_err(),
            "[C18,C01] stride smaller than the width is rejected");
}

#[kani::proof]
#[kani::unwind(200)]
fn icc_predict_stride_far() {
    let data: [u8; ICC_H + 3] = kani::any();
    // width 1, order 0, 128 bytes decoded so far: stride 31 is accepted, stride 32 (4 * 32 >= 128) is not
    let r = icc_decode(ICC_H + 3, &[0, 4, icc_predict_flags(1, 0, true), 31, 3], &data);
    let mut exp = IccExp::with_header(ICC_H + 3, &data);
    exp.predicted_run(&data[ICC_H..], 1, 0, 31);
    icc_expect_ok(&r, &exp);
    assert!(icc_decode(ICC_H + 3, &[0, 4, icc_predict_flags(1, 0, true), 32, 3], &data).is_err(),
            "[C18,C01] 4 * stride >= number of bytes decoded so far is rejected");
}

#[kani::proof]
#[kani::unwind(200)]
fn icc_cmd_invalid() {
    let data: [u8; ICC_H + 8] = kani::any();
    // valid main-content commands are 1, 2, 3, 4, 10 and 16..=23 (icc_cmd_copy_shuffle, icc_cmd_xyz_common, icc_predict_*)
    // (the profile is already complete after the 8-byte copy: the unknown command is the only thing wrong)
    assert!(icc_decode(ICC_H + 8, &[0, 1, 8, 0], &data).is_err(), "[C18,C01] unknown command 0 is rejected");
    assert!(icc_decode(ICC_H + 8, &[0, 1, 8, 24], &data).is_err(), "[C18,C01] unknown command 24 is rejected");
}

#[kani::proof]
#[kani::unwind(200)]
fn icc_cmd_invalid_more() {
    let data: [u8; ICC_H + 8] = kani::any();
    let bad: [u8; 4] = [5, 15, 128 + 1, 255];
    let mut k = 0;
    while k < 4 {
        assert!(icc_decode(ICC_H + 8, &[0, 1, 8, bad[k]], &data).is_err(), "[C18,C01] unknown command is rejected");
        k += 1;
    }
}

#[kani::proof]
#[kani::unwind(200)]
fn icc_short_payload_12() {
    let data: [u8; ICC_H + 5] = kani::any();
    // length 6 announced, 5 payload bytes (all payload present: icc_cmd_copy_shuffle)
    assert!(icc_decode(ICC_H + 6, &[0, 1, 6], &data).is_err(), "[C18,C01] copy longer than the remaining data is rejected");
    assert!(icc_decode(ICC_H + 6, &[0, 2, 6], &data).is_err(), "[C18,C01] 2-shuffle longer than the remaining data is rejected");
}

#[kani::proof]
#[kani::unwind(200)]
fn icc_short_payload_34() {
    let data: [u8; ICC_H + 5] = kani::any();
    assert!(icc_decode(ICC_H + 6, &[0, 3, 6], &data).is_err(), "[C18,C01] 4-shuffle longer than the remaining data is rejected");
    // predicted run of 3 bytes with 2 payload bytes
    assert!(icc_decode(ICC_H + 3, &[0, 4, 0, 3], &data[..ICC_H + 2]).is_err(), "[C18,C01] predicted run longer than the remaining data is rejected");
}

#[kani::proof]
#[kani::unwind(200)]
fn icc_short_payload_10() {
    // command 10 needs 12 payload bytes (12 present: icc_cmd_xyz_common)
    let data: [u8; ICC_H + 11] = kani::any();
    assert!(icc_decode(ICC_H + 20, &[0, 10], &data).is_err(), "[C18,C01] XYZ command without 12 data bytes is rejected");
}

#[kani::proof]
#[kani::unwind(200)]
fn icc_end_size_mismatch() {
    let data: [u8; ICC_H + 6] = kani::any();
    // all commands and data consumed, one byte more / one byte fewer than output_size (exactly output_size: icc_cmd_copy_shuffle)
    assert!(icc_decode(ICC_H + 5, &[0, 1, 6], &data).is_err(), "[C18] more bytes than output_size is rejected");
    assert!(icc_decode(ICC_H + 7, &[0, 1, 6], &data).is_err(), "[C18] fewer bytes than output_size is rejected");
}

// truncated command streams
#[kani::proof]
#[kani::unwind(200)]
fn icc_cmd_truncated() {
    let data: [u8; ICC_H + 4] = kani::any();
    assert!(icc_decode(ICC_H + 4, &[], &data).is_err(), "[C18,C01] missing tag-count varint is rejected");
    // (the profile is already complete after the 4-byte copy: the truncation is the only defect)
    assert!(icc_decode(ICC_H + 4, &[0, 1, 4, 4], &data).is_err(), "[C18,C01] predict command without flags is rejected");
    // NOT covered: a main-content command whose length / stride varint is missing ([.. 1], [.. 4 16], [.. 4 0]): CBMC needs
    // > 20 M clauses / does not finish for these streams (measured 160 s .. > 1200 s per call), although the same failing
    // varint in the tag list (icc_tag_truncated) costs nothing. `varint` itself is under contract (icc_varint_contract).
}

// ---- tag list ---------------------------------------------------------------------------------------
/// the tags whose size is implied to be 20 when the command carries no explicit size -- by NAME
fn spec_icc_tag_implies_20(name: &[u8]) -> bool {
    let n = [name[0], name[1], name[2], name[3]];
    n == *b"rXYZ" || n == *b"gXYZ" || n == *b"bXYZ" || n == *b"kXYZ" || n == *b"wtpt" || n == *b"bkpt" || n == *b"lumi"
}

#[kani::proof]
#[kani::unwind(200)]
fn icc_tag_literal() {
    // 1 tag, given literally (tagcode 1, no flags), then the 20 bytes it may point at
    let data: [u8; ICC_H + 4 + 20] = kani::any();
    let name = &data[ICC_H..ICC_H + 4];
    let r = icc_decode(ICC_H + 4 + 12 + 20, &[2, 1, 0, 1, 20], &data);
    let mut exp = IccExp::with_header(ICC_H + 4 + 12 + 20, &data);
    exp.be32(1);
    exp.tag(name, 128 + 12, if spec_icc_tag_implies_20(name) { 20 } else { 0 });
    exp.bytes(&data[ICC_H + 4..]);
    icc_expect_ok(&r, &exp);
    kani::cover!(spec_icc_tag_implies_20(name));
    kani::cover!(!spec_icc_tag_implies_20(name));
}

#[kani::proof]
#[kani::unwind(200)]
fn icc_tag_literal_overrun() {
    // same with only 4 bytes after the tag list: an implied size of 20 overruns the profile
    let data: [u8; ICC_H + 4 + 4] = kani::any();
    let name = &data[ICC_H..ICC_H + 4];
    let r = icc_decode(ICC_H + 4 + 12 + 4, &[2, 1, 0, 1, 4], &data);
    if spec_icc_tag_implies_20(name) {
        assert!(r.is_err(), "[C18] tag reaching beyond output_size is rejected (implied size 20 by tag name)");
    } else {
        let mut exp = IccExp::with_header(ICC_H + 4 + 12 + 4, &data);
        exp.be32(1);
        exp.tag(name, 128 + 12, 0);
        exp.bytes(&data[ICC_H + 4..]);
        icc_expect_ok(&r, &exp);
    }
    kani::cover!(name[0] == b'l' && name[1] == b'u' && name[2] == b'm' && name[3] == b'i');
}

#[kani::proof]
#[kani::unwind(240)]
fn icc_tag_flags_chain() {
    // five literal tags: explicit start+size | explicit start | explicit size | neither | explicit start+size ending at output_size
    const OUT: usize = ICC_H + 4 + 5 * 12 + 8;
    let data: [u8; ICC_H + 5 * 4 + 8] = kani::any();
    let n = |k: usize| &data[ICC_H + 4 * k..ICC_H + 4 * k + 4];
    let r = icc_decode(OUT, &[6, 1 | 64 | 128, 10, 30, 1 | 64, 100, 1 | 128, 7, 1, 1 | 64 | 128, 0x96, 0x01, 50, 0, 1, 8], &data);
    let mut exp = IccExp::with_header(OUT, &data);
    exp.be32(5);
    exp.tag(n(0), 10, 30); // an explicit size wins over the name
    let size2 = if spec_icc_tag_implies_20(n(1)) { 20 } else { 30 };
    exp.tag(n(1), 100, size2);
    exp.tag(n(2), 100 + size2, 7);
    exp.tag(n(3), 100 + size2 + 7, if spec_icc_tag_implies_20(n(3)) { 20 } else { 7 });
    exp.tag(n(4), 150, 50);
    exp.bytes(&data[ICC_H + 20..]);
    icc_expect_ok(&r, &exp);
    kani::cover!(spec_icc_tag_implies_20(n(0)) && spec_icc_tag_implies_20(n(1)) && !spec_icc_tag_implies_20(n(3)));
}

#[kani::proof]
#[kani::unwind(240)]
fn icc_tag_size_mismatch() {
    let data: [u8; ICC_H + 56] = kani::any();
    // explicit start 150 + size 51 > output_size 200 (150 + 50 is accepted: icc_tag_flags_chain)
    assert!(icc_decode(200, &[2, 4 | 64 | 128, 0x96, 0x01, 51, 0, 1, 56], &data).is_err(), "[C18] tag reaching beyond output_size is rejected");
    // chaining: 3 x wtpt after 128 + 4 + 36 bytes: 164+20, 184+20 > 200
    assert!(icc_decode(200, &[4, 5, 5, 5, 0, 1, 32], &data[..ICC_H + 32]).is_err(), "[C18] chained tag reaching beyond output_size is rejected");
}

#[kani::proof]
#[kani::unwind(420)]
fn icc_tag_triples() {
    // tagcode 2 (rTRC gTRC bTRC share start and size) and tagcode 3 (rXYZ gXYZ bXYZ at start, start+size, start+2 size)
    const N: u32 = 21;
    const OUT: usize = ICC_H + 4 + 21 * 12 + 16;
    let data: [u8; ICC_H + 16] = kani::any();
    let r = icc_decode(OUT, &[22, 2, 3, 2 | 64 | 128, 9, 33, 3 | 64 | 128, 11, 35, 3, 2, 3 | 128, 40, 0, 1, 16], &data);
    let mut exp = IccExp::with_header(OUT, &data);
    exp.be32(N);
    let s0 = 128 + 12 * N;
    exp.tag(b"rTRC", s0, 0); exp.tag(b"gTRC", s0, 0); exp.tag(b"bTRC", s0, 0);
    exp.tag(b"rXYZ", s0, 20); exp.tag(b"gXYZ", s0 + 20, 20); exp.tag(b"bXYZ", s0 + 40, 20);
    exp.tag(b"rTRC", 9, 33); exp.tag(b"gTRC", 9, 33); exp.tag(b"bTRC", 9, 33);
    exp.tag(b"rXYZ", 11, 35); exp.tag(b"gXYZ", 46, 35); exp.tag(b"bXYZ", 81, 35);
    // the next tag continues after the FIRST entry of the triple
    exp.tag(b"rXYZ", 46, 20); exp.tag(b"gXYZ", 66, 20); exp.tag(b"bXYZ", 86, 20);
    exp.tag(b"rTRC", 66, 20); exp.tag(b"gTRC", 66, 20); exp.tag(b"bTRC", 66, 20);
    exp.tag(b"rXYZ", 86, 40); exp.tag(b"gXYZ", 126, 40); exp.tag(b"bXYZ", 166, 40);
    exp.bytes(&data[ICC_H..]);
    icc_expect_ok(&r, &exp);
}

#[kani::proof]
#[kani::unwind(360)]
fn icc_tag_shortcuts() {
    // tagcodes 4..=20 in order; the first with explicit start 0; the command stream ends inside the tag list with
    // exactly output_size bytes produced (valid end)
    const OUT: usize = ICC_H + 4 + 17 * 12;
    let data: [u8; ICC_H] = kani::any();
    let r = icc_decode(OUT, &[18, 4 | 64, 0, 5, 6, 7, 8, 9, 10, 11, 12, 13, 14, 15, 16, 17, 18, 19, 20], &data);
    let names: [&[u8; 4]; 17] = [b"cprt", b"wtpt", b"bkpt", b"rXYZ", b"gXYZ", b"bXYZ", b"kXYZ", b"rTRC", b"gTRC", b"bTRC",
                                 b"kTRC", b"chad", b"desc", b"chrm", b"dmnd", b"dmdd", b"lumi"];
    let mut exp = IccExp::with_header(OUT, &data);
    exp.be32(17);
    let (mut start, mut size) = (0u32, 0u32);
    let mut k = 0;
    while k < 17 {
        if k > 0 { start += size; }
        if spec_icc_tag_implies_20(names[k]) { size = 20; }
        exp.tag(names[k], start, size);
        k += 1;
    }
    assert!(start + size == 320);
    icc_expect_ok(&r, &exp);
}

#[kani::proof]
#[kani::unwind(200)]
fn icc_tag_num_bound() {
    // output_size 164: room for (164 - 128) / 12 = 3 tag entries
    let data: [u8; ICC_H + 32] = kani::any();
    let r = icc_decode(164, &[4, 0, 1, 32], &data);
    let mut exp = IccExp::with_header(164, &data);
    exp.be32(3);
    exp.bytes(&data[ICC_H..]);
    icc_expect_ok(&r, &exp);
    assert!(icc_decode(164, &[5, 0, 1, 32], &data).is_err(), "[C18,C01] more tags announced than 12-byte entries fit into output_size: rejected");
}

#[kani::proof]
#[kani::unwind(200)]
fn icc_tag_zero() {
    // varint 1 = a tag list with zero tags: the count is still written, the list is still terminated by tagcode 0
    let data: [u8; ICC_H + 32] = kani::any();
    let r = icc_decode(164, &[1, 0, 1, 32], &data);
    let mut exp = IccExp::with_header(164, &data);
    exp.be32(0);
    exp.bytes(&data[ICC_H..]);
    icc_expect_ok(&r, &exp);
}

#[kani::proof]
#[kani::unwind(200)]
fn icc_tag_invalid_code() {
    // tagcodes are 0 (end), 1 (literal), 2, 3 (triples), 4..=20 (icc_tag_shortcuts); 21..=63 are unknown, whatever the flags
    // (zero tags announced and the profile is complete after the count: the unknown tagcode is the only thing wrong)
    let data: [u8; ICC_H] = kani::any();
    assert!(icc_decode(ICC_H + 4, &[1, 21], &data).is_err(), "[C18,C01] unknown tagcode 21 is rejected");
    assert!(icc_decode(ICC_H + 4, &[1, 63 | 64 | 128, 0, 0], &data).is_err(), "[C18,C01] unknown tagcode 63 is rejected");
}

#[kani::proof]
#[kani::unwind(200)]
fn icc_tag_truncated() {
    let data: [u8; ICC_H + 3] = kani::any();
    // literal tag with only 3 data bytes left (4 bytes: icc_tag_literal)
    assert!(icc_decode(ICC_H + 4 + 12, &[2, 1], &data).is_err(), "[C18,C01] literal tag without its 4 name bytes is rejected");
    // explicit-start flag without the varint
    assert!(icc_decode(ICC_H + 4 + 12, &[2, 4 | 64], &data).is_err(), "[C18,C01] tag command without its start varint is rejected");
}

#[kani::proof]
#[kani::unwind(200)]
fn icc_tag_truncated_more() {
    let data: [u8; ICC_H + 3] = kani::any();
    assert!(icc_decode(ICC_H + 4 + 12, &[2, 4 | 128], &data).is_err(), "[C18,C01] tag command without its size varint is rejected");
    assert!(icc_decode(ICC_H + 4 + 12, &[2, 4 | 64 | 128, 0], &data).is_err(), "[C18,C01] tag command without its size varint is rejected");
    assert!(icc_decode(ICC_H + 4, &[1, 40], &data[..ICC_H]).is_err(), "[C18,C01] unknown tagcode 40 is rejected");
}

#[kani::proof]
#[kani::unwind(200)]
fn icc_tag_list_end_size() {
    // the command stream ends inside the tag list (after the tag count / after one entry) although output_size = 200
    // bytes were announced: libjxl rejects ("Wrong output size"), just like a short main section is rejected
    let data: [u8; ICC_H] = kani::any();
    let r = icc_decode(200, &[2], &data);
    if let Ok(out) = &r {
        assert!(out.len() == 200, "[C18] Ok only with exactly output_size bytes, also when the commands end inside the tag list");
    }
}

// ---- all three sections in one profile ----------------------------------------------------------------
#[kani::proof]
#[kani::unwind(260)]
fn icc_mixed_profile() {
    // header; 2 tags (literal, wtpt); width-4 order-1 run with stride 12 predicted from the two tag entries (the typical
    // use: tag offsets form an arithmetic progression); 2-shuffle of 5; command 10; command 19
    const OUT: usize = ICC_H + 4 + 24 + 8 + 5 + 20 + 8;
    let data: [u8; ICC_H + 4 + 8 + 5 + 12] = kani::any();
    let name = &data[ICC_H..ICC_H + 4];
    let r = icc_decode(OUT, &[3, 1, 5, 0, 4, icc_predict_flags(4, 1, true), 12, 8, 2, 5, 10, 19], &data);
    let mut exp = IccExp::with_header(OUT, &data);
    exp.be32(2);
    let size0 = if spec_icc_tag_implies_20(name) { 20 } else { 0 };
    exp.tag(name, 152, size0);
    exp.tag(b"wtpt", 152 + size0, 20);
    let d = &data[ICC_H + 4..];
    exp.predicted_run(&d[..8], 4, 1, 12);
    exp.bytes(&spec_shuffle(&d[8..13], 2));
    exp.bytes(b"XYZ "); exp.be32(0); exp.bytes(&d[13..25]);
    exp.bytes(b"mluc"); exp.be32(0);
    icc_expect_ok(&r, &exp);
    kani::cover!(spec_icc_tag_implies_20(name));
}
