// Contracts for crates/jxl-color/src/icc/decode.rs (ICC profile decompression, 18181-1 Annex E.4).
use super::*;

// ------------------------------------------------------------------------------------------------
// E.4.1 context function:  ctx = 0 for the first 129 bytes; otherwise 1 + p1(b1) + 8 * p2(b2)
// ------------------------------------------------------------------------------------------------
fn is_alpha(b: u8) -> bool { (b >= b'a' && b <= b'z') || (b >= b'A' && b <= b'Z') }
fn is_num(b: u8) -> bool { (b >= b'0' && b <= b'9') || b == b'.' || b == b',' }

fn spec_icc_ctx(i: usize, b1: u8, b2: u8) -> u32 {
    if i <= 128 { return 0; }
    let p1 = if is_alpha(b1) { 0 } else if is_num(b1) { 1 } else if b1 < 2 { 2 + b1 as u32 } else if b1 < 16 { 4 }
             else if b1 > 240 && b1 < 255 { 5 } else if b1 == 255 { 6 } else { 7 };
    let p2 = if is_alpha(b2) { 0 } else if is_num(b2) { 1 } else if b2 < 16 { 2 } else if b2 > 240 { 3 } else { 4 };
    1 + p1 + 8 * p2
}

#[kani::proof]
fn icc_ctx_contract() {
    let i: usize = kani::any();
    let b1: u8 = kani::any();
    let b2: u8 = kani::any();
    let c = get_icc_ctx(i, b1, b2);
    assert!(c == spec_icc_ctx(i, b1, b2), "[C18] ICC context = the standard's IccContext(i, b1, b2)");
    assert!(c < 41, "[C18,C01] one of the 41 ICC contexts");
    kani::cover!(c == 40);
    kani::cover!(c == 0 && i == 128);
}

// ------------------------------------------------------------------------------------------------
// E.4.2 header prediction. `header` holds the bytes already decoded (positions whose prediction is 0
// coincide with the transmitted residuals, which is what decode_icc passes).
// ------------------------------------------------------------------------------------------------
fn spec_icc_predict_header(i: usize, size: u32, h: &[u8; 128]) -> u8 {
    const MNTR: [u8; 12] = *b"mntrRGB XYZ ";
    const ACSP: [u8; 4] = *b"acsp";
    if i < 4 { return (size >> (8 * (3 - i))) as u8; }
    if i == 8 { return 4; }
    if i >= 12 && i <= 23 { return MNTR[i - 12]; }
    if i >= 36 && i <= 39 { return ACSP[i - 36]; }
    if i >= 41 && i <= 43 {
        let k = i - 41;
        if h[40] == b'A' { return [b'P', b'P', b'L'][k]; }
        if h[40] == b'M' { return [b'S', b'F', b'T'][k]; }
        if h[40] == b'S' && i >= 42 && h[41] == b'G' { return [0, b'I', b' '][k]; }
        if h[40] == b'S' && i >= 42 && h[41] == b'U' { return [0, b'N', b'W'][k]; }
        return 0;
    }
    if i == 70 { return 246; }
    if i == 71 { return 214; }
    if i == 73 { return 1; }
    if i == 78 { return 211; }
    if i == 79 { return 45; }
    if i >= 80 && i <= 83 { return h[4 + i - 80]; }
    0
}

#[kani::proof]
fn icc_predict_header_contract() {
    let h: [u8; 128] = kani::any();
    let i: usize = kani::any();
    kani::assume(i < 128);
    let size: u32 = kani::any();
    // decode_icc passes header_data of length min(output_size, 128) and only indices below that length;
    // positions 40, 41 and 4..8 are read when predicting 41..43 and 80..83, all smaller than the index predicted.
    let len: usize = kani::any();
    kani::assume(i < len && len <= 128);
    let p = predict_header(i, size, &h[..len]);
    assert!(p == spec_icc_predict_header(i, size, &h), "[C18] predicted ICC header byte = the standard's table");
    kani::cover!(i == 43 && h[40] == b'S' && h[41] == b'U');
    kani::cover!(i == 83);
}

// ------------------------------------------------------------------------------------------------
// Varint (LEB128 limited to 63 bits: at most 9 bytes)
// ------------------------------------------------------------------------------------------------
#[kani::proof]
#[kani::unwind(11)]
fn icc_varint_contract() {
    let data: [u8; 10] = kani::any();
    let len: usize = kani::any();
    kani::assume(len <= 10);
    let slice: &[u8] = &data[..len];
    let mut cur = Cursor::new(slice);
    let r = varint(&mut cur);
    // specification
    let mut value = 0u64;
    let mut n = 0usize;
    let mut complete = false;
    while n < 9 && n < len {
        value |= ((data[n] & 0x7f) as u64) << (7 * n);
        n += 1;
        if data[n - 1] & 0x80 == 0 { complete = true; break; }
    }
    if n == 9 { complete = true; }
    match r {
        Ok(v) => {
            assert!(complete, "[C18] varint succeeds only on a complete value");
            assert!(v == value, "[C18] varint = little-endian base-128 value (at most 9 bytes / 63 bits)");
            assert!(cur.position() == n as u64, "[C18] varint consumes exactly its bytes");
        }
        Err(_) => assert!(!complete, "[C18,C01] varint fails only when the stream ends inside the value"),
    }
    kani::cover!(matches!(r, Ok(v) if v >= (1u64 << 62)));
    kani::cover!(r.is_err());
}

// ------------------------------------------------------------------------------------------------
// Shuffle: bounded companion of the unbounded Verus rows (verus/icc_shuffle.spec); its job is to give a
// concrete failing input when a change breaks the kernels. Independent formulation: write the input
// row by row into a w x ceil(n/w) matrix whose last column lacks its bottom elements, read it column-wise.
// ------------------------------------------------------------------------------------------------
fn spec_shuffle(input: &[u8], w: usize) -> Vec<u8> {
    let n = input.len();
    let cols = (n + w - 1) / w;
    let missing = cols * w - n; // bottom `missing` rows lack the last column
    let mut m = [[None::<u8>; 4]; 4]; // m[row][col], n <= 13 => cols <= 4 for w = 4; w = 2 => n <= 8
    let mut k = 0;
    for r in 0..w {
        let row_len = if r < w - missing { cols } else { cols - 1 };
        for c in 0..row_len {
            m[r][c] = Some(input[k]);
            k += 1;
        }
    }
    let mut out = Vec::new();
    for c in 0..cols {
        for r in 0..w {
            if let Some(b) = m[r][c] { out.push(b); }
        }
    }
    out
}

#[kani::proof]
#[kani::unwind(16)]
fn icc_shuffle2_bounded() {
    let data: [u8; 8] = kani::any();
    // every length 0..=8, concretely (a symbolic length makes the Vec growth paths intractable for CBMC)
    let mut n = 0;
    while n <= 8 {
        let out = shuffle2(&data[..n]);
        let spec = spec_shuffle(&data[..n], 2);
        assert!(out.len() == n && spec.len() == n, "[C18] shuffle keeps the length");
        let mut j = 0;
        while j < n {
            assert!(out[j] == spec[j], "[C18] 2-way shuffle = transposition of the 2-row matrix");
            j += 1;
        }
        n += 1;
    }
}

#[kani::proof]
#[kani::unwind(16)]
fn icc_shuffle4_bounded() {
    let data: [u8; 13] = kani::any();
    let mut n = 0;
    while n <= 13 {
        let out = shuffle4(&data[..n]);
        let spec = spec_shuffle(&data[..n], 4);
        assert!(out.len() == n && spec.len() == n, "[C18] shuffle keeps the length");
        let mut j = 0;
        while j < n {
            assert!(out[j] == spec[j], "[C18] 4-way shuffle = transposition of the 4-row matrix");
            j += 1;
        }
        n += 1;
    }
}

// ------------------------------------------------------------------------------------------------
// decode_icc: totality on arbitrary (bounded) command/data streams, and output-size discipline.
// ------------------------------------------------------------------------------------------------
#[kani::proof]
#[kani::unwind(12)]
fn icc_decode_total_small() {
    let data: [u8; 10] = kani::any();
    let len: usize = kani::any();
    kani::assume(len <= 10);
    let r = decode_icc(&data[..len]);
    if let Ok(out) = &r {
        // the declared output size is the first varint
        let mut cur = Cursor::new(&data[..len]);
        let declared = varint(&mut cur).unwrap();
        assert!(out.len() as u64 <= declared.max(128), "[C18] decoded profile never exceeds the declared size");
    }
    kani::cover!(r.is_ok());
    kani::cover!(r.is_err());
}

#[kani::proof]
fn canary() {
    let b: u8 = kani::any();
    assert!(get_icc_ctx(200, b, 0) != 17, "canary: must fail");
}

// ================================================================================================
// decode_icc as a command interpreter (18181-1 E.4.3 header, E.4.4 tag list, E.4.5 main content).
// One harness per command SHAPE: the command stream is concrete (every loop bound and branch of the
// interpreter is then concrete), the data stream -- and therefore every previously decoded output
// byte -- is symbolic, and the whole decoded profile is compared with an executable specification
// written from the definition (reference semantics: libjxl UnpredictICC / LinearPredictICCValue).
// Layout of an encoded stream:  varint(output_size) varint(commands_size) commands data.
// ================================================================================================
fn enc_varint(mut v: u64, out: &mut Vec<u8>) {
    loop {
        let b = (v & 0x7f) as u8;
        v >>= 7;
        if v == 0 { out.push(b); break; }
        out.push(b | 0x80);
    }
}

fn icc_stream(output_size: u64, commands: &[u8], data: &[u8]) -> Vec<u8> {
    let mut s = Vec::with_capacity(24 + commands.len() + data.len());
    enc_varint(output_size, &mut s);
    enc_varint(commands.len() as u64, &mut s);
    s.extend_from_slice(commands);
    s.extend_from_slice(data);
    s
}

/// E.4.3: header byte i = residual + prediction from the bytes decoded so far (at most 128 of them).
fn spec_icc_header(size: u32, resid: &[u8], exp: &mut [u8]) {
    let mut h = [0u8; 128];
    let n = if resid.len() < 128 { resid.len() } else { 128 };
    let mut i = 0;
    while i < n {
        h[i] = resid[i].wrapping_add(spec_icc_predict_header(i, size, &h));
        exp[i] = h[i];
        i += 1;
    }
}

fn icc_same(out: &[u8], exp: &[u8]) -> bool {
    if out.len() != exp.len() { return false; }
    let mut i = 0;
    while i < exp.len() {
        if out[i] != exp[i] { return false; }
        i += 1;
    }
    true
}

// ---- header-only profiles -----------------------------------------------------------------------
fn icc_check_header_only(size: usize, resid: &[u8; 128]) {
    let s = icc_stream(size as u64, &[], &resid[..size]);
    let r = decode_icc(&s);
    let mut exp = [0u8; 128];
    spec_icc_header(size as u32, &resid[..size], &mut exp);
    match &r {
        Ok(out) => assert!(icc_same(out, &exp[..size]), "[C18] profile of at most 128 bytes = residuals + header prediction"),
        Err(_) => assert!(false, "[C18] a header-only stream with all its residuals decodes"),
    }
    if size > 0 {
        // one residual missing: rejected
        let s = icc_stream(size as u64, &[], &resid[..size - 1]);
        assert!(decode_icc(&s).is_err(), "[C18,C01] data stream shorter than the header is rejected");
    }
}

#[kani::proof]
#[kani::unwind(130)]
fn icc_header_only() {
    let resid: [u8; 128] = kani::any();
    icc_check_header_only(0, &resid);
    icc_check_header_only(1, &resid);
    icc_check_header_only(44, &resid);
    icc_check_header_only(127, &resid);
    icc_check_header_only(128, &resid);
    kani::cover!(resid[40] == b'S' && resid[41] == b'U');
}

// ---- main content ---------------------------------------------------------------------------------
const ICC_H: usize = 128;

/// Runs decode_icc on: empty tag list (varint 0), then `main` commands; data = 128 header residuals + `payload`.
/// Returns (result, expected header).
fn icc_run_main(output_size: usize, main: &[u8], data: &[u8]) -> (Result<Vec<u8>>, [u8; 128]) {
    let mut commands = Vec::with_capacity(1 + main.len());
    commands.push(0u8); // no tag list
    commands.extend_from_slice(main);
    let s = icc_stream(output_size as u64, &commands, data);
    let mut hdr = [0u8; 128];
    spec_icc_header(output_size as u32, &data[..ICC_H], &mut hdr);
    (decode_icc(&s), hdr)
}

#[kani::proof]
#[kani::unwind(130)]
fn icc_cmd_copy() {
    // command 1 (raw copy) of 5 bytes
    let data: [u8; ICC_H + 5] = kani::any();
    let (r, hdr) = icc_run_main(ICC_H + 5, &[1, 5], &data);
    let mut exp = [0u8; ICC_H + 5];
    exp[..ICC_H].copy_from_slice(&hdr);
    exp[ICC_H..].copy_from_slice(&data[ICC_H..]);
    match &r {
        Ok(out) => assert!(icc_same(out, &exp), "[C18] command 1 appends the next num data bytes unchanged"),
        Err(_) => assert!(false, "[C18] consistent raw-copy stream decodes"),
    }
}
