// Contracts for crates/jxl-render/src/region.rs -- the rectangle algebra every region-of-interest render,
// every blend crop and every orientation of a requested rectangle goes through (C06, C05, C15).
//
// Abstract view: a Region denotes the set of integer points
//        pts(r) = { (x, y) | left <= x < left + width  and  top <= y < top + height }      (math. integers)
// Every method is specified against that view with a *symbolic point*: "p in result  <=>  spec(p)" proved for
// one unconstrained p is the statement for all p. Where the standard wants "the least region covering ..."
// the contract additionally pins the four edges of the result.
// All arithmetic of the specification is done in i64 (inputs are i32 / u32, shifts < 32), so the
// specification itself cannot overflow.
//
// Overflow preconditions are the ones the call sites establish (frame width/height <= 2^30:
// jxl-frame/src/lib.rs:122-129; |x0|,|y0| <= 2^29 + 9344: header.rs:45-50 U32(..18688+u(30)) UnpackSigned;
// paddings <= 48 px, shift factors <= 12): each harness states its own and nothing more.
use super::*;

#[path = "@SPEC@/orientation.rs"]
mod ospec;
use ospec::*;

#[path = "@SPEC@/region_view.rs"]
mod rview;
use rview::*;

// ---------------------------------------------------------------------------------------------------
// constructors and observers: all inputs
// ---------------------------------------------------------------------------------------------------
#[kani::proof]
fn basic_contract() {
    let (px, py) = any_point();
    let e = Region::empty();
    assert!(!has(e, px, py) && e.is_empty(), "[C06] empty() has no points");

    let (w, h): (u32, u32) = (kani::any(), kani::any());
    let s = Region::with_size(w, h);
    assert!(has(s, px, py) == (0 <= px && px < w as i64 && 0 <= py && py < h as i64),
        "[C06,C05] with_size(w,h) is the rectangle [0,w) x [0,h)");
    assert!(s.left == 0 && s.top == 0 && s.width == w && s.height == h, "[C06,C05] with_size keeps the size, origin 0");

    let r = any_region();
    if r.is_empty() {
        assert!(!has(r, px, py), "[C06,C05] is_empty() => no point belongs to the region");
    } else {
        assert!(has(r, l(r), t(r)), "[C06,C05] !is_empty() => the top-left corner belongs to the region");
    }
    assert!(r.right() as i64 == rt(r).min(i32::MAX as i64), "[C06,C05] right() = left + width, saturated at i32::MAX");
    assert!(r.bottom() as i64 == bt(r).min(i32::MAX as i64), "[C06,C05] bottom() = top + height, saturated at i32::MAX");
    kani::cover!(r.is_empty());
    kani::cover!(!r.is_empty() && rt(r) > i32::MAX as i64);
}

/// C01: the observers and the binary set operations cannot panic on any pair of regions
/// (they are reachable with a user supplied crop rectangle, any u32 fields).
#[kani::proof]
fn total_contract() {
    let a = any_region();
    let b = any_region();
    let _ = a.contains(b);
    let i = a.intersection(b);
    let _ = a.merge(b);
    let _ = (a.right(), a.bottom(), a.is_empty());
    // even without the representability invariant the intersection is a subset of both operands
    let (px, py) = any_point();
    if has(i, px, py) {
        assert!(has(a, px, py) && has(b, px, py), "[C06,C05] intersection is always a subset of both operands");
    }
    kani::cover!(!i.is_empty() && !wf(a) && !wf(b));
}

// ---------------------------------------------------------------------------------------------------
// contains: subset test
// ---------------------------------------------------------------------------------------------------
#[kani::proof]
fn contains_contract() {
    let a = any_wf_region();
    let b = any_wf_region();
    let c = a.contains(b);
    if c {
        let (px, py) = any_point();
        assert!(!has(b, px, py) || has(a, px, py), "[C06,C05] contains(b) => every point of b is a point of self");
    } else {
        // a witness: one of the four corner points of b lies outside self
        assert!(!b.is_empty(), "[C06,C05] the empty region is contained in everything");
        let (x0, x1, y0, y1) = (l(b), rt(b) - 1, t(b), bt(b) - 1);
        assert!(!has(a, x0, y0) || !has(a, x1, y0) || !has(a, x0, y1) || !has(a, x1, y1),
            "[C06,C05] !contains(b) => some corner point of b is not in self");
    }
    kani::cover!(c && !b.is_empty() && a != b);
    kani::cover!(!c && !a.intersection(b).is_empty());
}

// ---------------------------------------------------------------------------------------------------
// translate
// ---------------------------------------------------------------------------------------------------
#[kani::proof]
fn translate_contract() {
    let a = any_region();
    let (dx, dy): (i32, i32) = (kani::any(), kani::any());
    // the call sites translate by -x0/-y0 or +x0/+y0 of a frame header: the new origin is representable
    kani::assume(l(a) + dx as i64 >= i32::MIN as i64 && l(a) + dx as i64 <= i32::MAX as i64);
    kani::assume(t(a) + dy as i64 >= i32::MIN as i64 && t(a) + dy as i64 <= i32::MAX as i64);
    let r = a.translate(dx, dy);
    let (px, py) = any_point();
    assert!(has(r, px, py) == has(a, px - dx as i64, py - dy as i64), "[C06,C05] p in translate(dx,dy) <=> p - (dx,dy) in self");
    assert!(r.width == a.width && r.height == a.height, "[C06,C05] translate keeps the size");
    assert!(l(r) == l(a) + dx as i64 && t(r) == t(a) + dy as i64, "[C06,C05] translate moves the origin by exactly (dx,dy)");
    kani::cover!(dx < 0 && dy > 0 && !a.is_empty());
}

// ---------------------------------------------------------------------------------------------------
// intersection
// ---------------------------------------------------------------------------------------------------
#[kani::proof]
fn intersection_contract() {
    let a = any_wf_region();
    let b = any_wf_region();
    let r = a.intersection(b);
    let (px, py) = any_point();
    assert!(has(r, px, py) == (has(a, px, py) && has(b, px, py)), "[C06,C05] p in a.intersection(b) <=> p in a and p in b");
    assert!(wf(r), "[C06,C05] intersection keeps the edges representable");
    let r2 = b.intersection(a);
    assert!(has(r2, px, py) == has(r, px, py), "[C06,C05] intersection is commutative as a set");
    kani::cover!(!r.is_empty() && r != a && r != b);
    kani::cover!(r.is_empty() && !a.is_empty() && !b.is_empty());
}

// ---------------------------------------------------------------------------------------------------
// merge: bounding box of the union
// ---------------------------------------------------------------------------------------------------
#[kani::proof]
fn merge_contract() {
    let a = any_wf_region();
    let b = any_wf_region();
    let m = a.merge(b);
    let (px, py) = any_point();
    assert!(!(has(a, px, py) || has(b, px, py)) || has(m, px, py), "[C06,C05] merge covers both operands");
    if a.is_empty() && b.is_empty() {
        assert!(!has(m, px, py), "[C06,C05] merge of two empty regions is empty");
    } else if b.is_empty() {
        assert!(has(m, px, py) == has(a, px, py), "[C06,C05] merge with an empty region is the other region");
    } else if a.is_empty() {
        assert!(has(m, px, py) == has(b, px, py), "[C06,C05] merge with an empty region is the other region");
    } else {
        // least: every edge of the result is an edge of an operand
        assert!(l(m) == l(a).min(l(b)) && t(m) == t(a).min(t(b)) && rt(m) == rt(a).max(rt(b)) && bt(m) == bt(a).max(bt(b)),
            "[C06,C05] merge is the least rectangle covering both operands");
    }
    kani::cover!(!a.is_empty() && !b.is_empty() && a.intersection(b).is_empty());
}

// ---------------------------------------------------------------------------------------------------
// pad: grow the extent by `size` on every side
// ---------------------------------------------------------------------------------------------------
#[kani::proof]
fn pad_contract() {
    let a = any_region();
    let size: u32 = kani::any();
    // call sites: size in {1, 2, 3, 5, 6, 36..48}, |left| < 2^31 - 2^30: no saturation, no u32 overflow
    kani::assume(l(a) - size as i64 >= i32::MIN as i64 && t(a) - size as i64 >= i32::MIN as i64);
    kani::assume(a.width as u64 + 2 * size as u64 <= u32::MAX as u64 && a.height as u64 + 2 * size as u64 <= u32::MAX as u64);
    let r = a.pad(size);
    let s = size as i64;
    let (px, py) = any_point();
    assert!(has(r, px, py) == (l(a) - s <= px && px < rt(a) + s && t(a) - s <= py && py < bt(a) + s),
        "[C06] p in pad(s) <=> p within s of the extent of self on each axis (all four sides)");
    assert!(l(r) == l(a) - s && t(r) == t(a) - s && rt(r) == rt(a) + s && bt(r) == bt(a) + s, "[C06] pad grows every side by exactly s");
    kani::cover!(size == 6 && !a.is_empty() && a.left < 0);
}

// ---------------------------------------------------------------------------------------------------
// downsample / downsample_separate: least region covering { p >> f }
// ---------------------------------------------------------------------------------------------------
fn check_downsample(a: Region, r: Region, fx: u32, fy: u32) {
    // extents: [floor(l / 2^f), ceil(r / 2^f))
    assert!(l(r) == floor_shift(l(a), fx) && rt(r) == ceil_shift(rt(a), fx), "[C06] downsample: columns [floor(left/2^f), ceil(right/2^f))");
    assert!(t(r) == floor_shift(t(a), fy) && bt(r) == ceil_shift(bt(a), fy), "[C06] downsample: rows [floor(top/2^f), ceil(bottom/2^f))");
    // coverage, by a symbolic point of self
    let (px, py) = any_point();
    if has(a, px, py) {
        assert!(has(r, px >> fx, py >> fy), "[C06] downsample covers the image of every point under p -> p >> f");
    }
    if !a.is_empty() {
        // least: the first and the last column / row of the result are hit by a point of self
        assert!(has(a, l(a), t(a)) && (l(a) >> fx) == l(r) && (t(a) >> fy) == t(r), "[C06] downsample: first column/row is needed");
        assert!(has(a, rt(a) - 1, bt(a) - 1) && ((rt(a) - 1) >> fx) == rt(r) - 1 && ((bt(a) - 1) >> fy) == bt(r) - 1,
            "[C06] downsample: last column/row is needed (least covering region)");
    }
}

#[kani::proof]
fn downsample_contract() {
    let a = any_region();
    let f: u32 = kani::any();
    kani::assume(f < 32); // call sites: 3 * lf_level <= 12, log2 upsampling <= 6, 2, 3
    // no u32 overflow of width + misalignment + (2^f - 1): widths <= 2^30 + 2^13, f <= 12 at the call sites
    kani::assume(a.width as u64 + 2 * ((1u64 << f) - 1) <= u32::MAX as u64);
    kani::assume(a.height as u64 + 2 * ((1u64 << f) - 1) <= u32::MAX as u64);
    let r = a.downsample(f);
    check_downsample(a, r, f, f);
    kani::cover!(f == 12 && a.left < 0 && a.left % 4096 != 0 && a.width > 5000);
    kani::cover!(f == 0);
    kani::cover!(f == 31);
}

#[kani::proof]
fn downsample_separate_contract() {
    let a = any_region();
    let (fx, fy): (u32, u32) = (kani::any(), kani::any());
    kani::assume(fx < 32 && fy < 32);
    kani::assume(a.width as u64 + 2 * ((1u64 << fx) - 1) <= u32::MAX as u64);
    kani::assume(a.height as u64 + 2 * ((1u64 << fy) - 1) <= u32::MAX as u64);
    let r = a.downsample_separate(fx, fy);
    check_downsample(a, r, fx, fy);
    kani::cover!(fx == 0 && fy == 1 && a.top % 2 != 0);
    kani::cover!(fx == 1 && fy == 0);
    kani::cover!(fx == 0 && fy == 0);
}

/// downsample_with_shift: `left >> h`, size from ChannelShift::shift_size. On a region whose origin is aligned to
/// the shift (what the callers pass: channel regions that were created as `upsample`s, see image.rs) this is
/// the least covering region for Shifts / Raw shifts, and a covering region for the JPEG chroma shifts.
#[kani::proof]
fn downsample_with_shift_contract() {
    let a = any_region();
    let which: u8 = kani::any();
    let shift = match which {
        0 => { let s: u32 = kani::any(); kani::assume(s <= 12); ChannelShift::Shifts(s) }
        1 => { let (h, v): (i32, i32) = (kani::any(), kani::any()); kani::assume(0 <= h && h <= 12 && 0 <= v && v <= 12); ChannelShift::Raw(h, v) }
        _ => {
            let ju: [u32; 3] = [kani::any(), kani::any(), kani::any()];
            kani::assume(ju[0] < 4 && ju[1] < 4 && ju[2] < 4);
            let idx: usize = kani::any();
            kani::assume(idx < 3);
            ChannelShift::from_jpeg_upsampling(ju, idx)
        }
    };
    let (fx, fy) = (shift.hshift() as u32, shift.vshift() as u32);
    kani::assume(a.width <= (1 << 30) + (1 << 13) && a.height <= (1 << 30) + (1 << 13));
    kani::assume(l(a) & ((1i64 << fx) - 1) == 0 && t(a) & ((1i64 << fy) - 1) == 0);
    let r = a.downsample_with_shift(shift);
    let (px, py) = any_point();
    if has(a, px, py) {
        assert!(has(r, px >> fx, py >> fy), "[C06] downsample_with_shift covers the image of every point of an aligned region");
    }
    assert!(l(r) == l(a) >> fx && t(r) == t(a) >> fy, "[C06] downsample_with_shift: origin is shifted");
    if which < 2 {
        assert!(rt(r) == ceil_shift(rt(a), fx) && bt(r) == ceil_shift(bt(a), fy), "[C06] Shifts/Raw: least covering region");
    }
    kani::cover!(which == 0 && fx == 3);
    kani::cover!(which == 1 && fx != fy);
    kani::cover!(which == 2 && fx == 1 && fy == 0);
    kani::cover!(which == 2 && fx == 0 && fy == 0 && r.width == a.width + 1);
}

// ---------------------------------------------------------------------------------------------------
// upsample: preimage of the region under p -> p >> f
// ---------------------------------------------------------------------------------------------------
#[kani::proof]
fn upsample_contract() {
    let a = any_region();
    let (fx, fy): (u32, u32) = (kani::any(), kani::any());
    let uniform: bool = kani::any();
    kani::assume(fx < 32 && fy < 32);
    if uniform { kani::assume(fx == fy); }
    // call sites: factor <= 12 on regions of an lf frame / a downsampled frame whose upsampled size is the
    // frame size (<= 2^30): no bits are shifted out
    kani::assume((l(a) << fx) >= i32::MIN as i64 && (l(a) << fx) <= i32::MAX as i64);
    kani::assume((t(a) << fy) >= i32::MIN as i64 && (t(a) << fy) <= i32::MAX as i64);
    kani::assume(((a.width as i64) << fx) <= u32::MAX as i64 && ((a.height as i64) << fy) <= u32::MAX as i64);
    let r = if uniform { a.upsample(fx) } else { a.upsample_separate(fx, fy) };
    let (px, py) = any_point();
    assert!(has(r, px, py) == has(a, px >> fx, py >> fy), "[C06] p in upsample(f) <=> (p >> f) in self");
    assert!(l(r) == l(a) << fx && rt(r) == rt(a) << fx && t(r) == t(a) << fy && bt(r) == bt(a) << fy, "[C06] upsample scales all four edges by 2^f");
    kani::cover!(uniform && fx == 3 && a.left < 0 && a.width > 1);
    kani::cover!(!uniform && fx == 1 && fy == 0 && !a.is_empty());
}

#[kani::proof]
fn up_down_contract() {
    // round trip used by pad_upsampling / pad_color_region: downsample(f).upsample(f) is the least 2^f-aligned superset
    let a = any_region();
    let f: u32 = kani::any();
    kani::assume(f <= 12);
    kani::assume(a.width <= (1 << 30) + (1 << 13) && a.height <= (1 << 30) + (1 << 13));
    kani::assume(l(a).abs() <= 1 << 30 && t(a).abs() <= 1 << 30);
    let r = a.downsample(f).upsample(f);
    let (px, py) = any_point();
    assert!(!has(a, px, py) || has(r, px, py), "[C06] downsample(f).upsample(f) is a superset");
    let m = (1i64 << f) - 1;
    assert!(l(r) & m == 0 && rt(r) & m == 0 && t(r) & m == 0 && bt(r) & m == 0, "[C06] ... aligned to 2^f");
    assert!(l(a) - l(r) <= m && rt(r) - rt(a) <= m && t(a) - t(r) <= m && bt(r) - bt(a) <= m, "[C06] ... and the least such region");
    kani::cover!(f == 2 && l(a) & 3 == 3);
}

// ---------------------------------------------------------------------------------------------------
// container_aligned: least g-aligned superset
// ---------------------------------------------------------------------------------------------------
#[kani::proof]
fn container_aligned_contract() {
    let a = any_region();
    let k: u32 = kani::any();
    kani::assume(k < 32); // call sites: 8 and group_dim = 128 << group_size_shift (<= 1024)
    let g: u32 = 1 << k;
    kani::assume(a.width as u64 + 2 * (g as u64 - 1) <= u32::MAX as u64);
    kani::assume(a.height as u64 + 2 * (g as u64 - 1) <= u32::MAX as u64);
    let r = a.container_aligned(g);
    let m = g as i64 - 1;
    let (px, py) = any_point();
    assert!(!has(a, px, py) || has(r, px, py), "[C06] container_aligned(g) is a superset");
    assert!(l(r) & m == 0 && t(r) & m == 0 && (r.width as i64) & m == 0 && (r.height as i64) & m == 0, "[C06] container_aligned(g): origin and size are multiples of g");
    assert!(l(r) == (l(a) >> k) << k && t(r) == (t(a) >> k) << k, "[C06] container_aligned(g): origin rounded down to a multiple of g");
    assert!(rt(r) == ceil_shift(rt(a), k) << k && bt(r) == ceil_shift(bt(a), k) << k, "[C06] container_aligned(g): far edges rounded up to a multiple of g (least aligned superset)");
    kani::cover!(k == 3 && a.left < 0 && a.left % 8 != 0 && a.width % 8 == 1);
    kani::cover!(k == 10);
    kani::cover!(k == 0);
}

// ---------------------------------------------------------------------------------------------------
// apply_orientation: a rectangle of the *displayed* image -> exactly the stored samples shown in it
// ---------------------------------------------------------------------------------------------------
fn apply_orientation_for(o: u32) {
    let (w, h): (u32, u32) = (kani::any(), kani::any());
    // SizeHeader gives 1 <= height <= 2^30 and 1 <= width <= 2^31; width = 2^31 (ratio 7 of height 2^30) is the
    // subject of obligation im.oriented_dims, here the stored size is representable as i32.
    kani::assume(w >= 1 && h >= 1 && w <= i32::MAX as u32 && h <= i32::MAX as u32);
    let hdr = header_with(w, h, o);
    let (dw, dh) = spec_oriented_dims(o, w as i64, h as i64);
    // C06 / C15 quantify over non-empty rectangles inside the (displayed) image
    let a = any_region();
    kani::assume(!a.is_empty() && l(a) >= 0 && t(a) >= 0 && rt(a) <= dw && bt(a) <= dh);
    let r = a.apply_orientation(&hdr);
    // every stored point: it is in the result iff the place where it is displayed is in the rectangle
    let (sx, sy) = any_point();
    if spec_inside(w as i64, h as i64, sx, sy) {
        let (dx, dy) = spec_orientation(o, w as i64, h as i64, sx, sy);
        assert!(has(r, sx, sy) == has(a, dx, dy), "[C06,C15] stored p in apply_orientation(R) <=> displayed position of p in R");
    } else {
        assert!(!has(r, sx, sy), "[C06,C15] apply_orientation(R) stays inside the stored image");
    }
    let swapped = o >= 5;
    assert!(if swapped { r.width == a.height && r.height == a.width } else { r.width == a.width && r.height == a.height },
        "[C06,C15] apply_orientation keeps (orientations 1-4) or swaps (5-8) the size");
    kani::cover!(a.width != a.height && a.left > 0 && a.top > 0 && rt(a) < dw && bt(a) < dh && w != h);
    kani::cover!(a.width == 1 && a.height == 1);
}
// one harness per orientation (1 + u(3)): a symbolic orientation costs 290 s, a concrete one 11 s
#[kani::proof] fn apply_orientation_o1() { apply_orientation_for(1); }
#[kani::proof] fn apply_orientation_o2() { apply_orientation_for(2); }
#[kani::proof] fn apply_orientation_o3() { apply_orientation_for(3); }
#[kani::proof] fn apply_orientation_o4() { apply_orientation_for(4); }
#[kani::proof] fn apply_orientation_o5() { apply_orientation_for(5); }
#[kani::proof] fn apply_orientation_o6() { apply_orientation_for(6); }
#[kani::proof] fn apply_orientation_o7() { apply_orientation_for(7); }
#[kani::proof] fn apply_orientation_o8() { apply_orientation_for(8); }

// ---------------------------------------------------------------------------------------------------
// monotonicity of the operations the padding rules of util.rs are composed of (nested extents stay nested)
// ---------------------------------------------------------------------------------------------------
fn nested_pair() -> (Region, Region) {
    let a = any_region();
    let b = any_region();
    // regions of a frame render: far from the i32 limits (see util.rs harness: any_frame_region)
    kani::assume(l(a).abs() <= (1 << 30) + (1 << 14) && t(a).abs() <= (1 << 30) + (1 << 14) && a.width <= (1 << 30) + (1 << 14) && a.height <= (1 << 30) + (1 << 14));
    kani::assume(l(b).abs() <= (1 << 30) + (1 << 14) && t(b).abs() <= (1 << 30) + (1 << 14) && b.width <= (1 << 30) + (1 << 14) && b.height <= (1 << 30) + (1 << 14));
    kani::assume(extent_covers(b, l(a), t(a), rt(a), bt(a)));
    (a, b)
}
fn nested(inner: Region, outer: Region) -> bool {
    extent_covers(outer, l(inner), t(inner), rt(inner), bt(inner))
}
#[kani::proof]
fn monotone_downsample() {
    let (a, b) = nested_pair();
    let f: u32 = kani::any();
    kani::assume(f <= 12);
    assert!(nested(a.downsample(f), b.downsample(f)), "[C06] downsample is monotone");
    kani::cover!(f == 3 && a != b && !a.is_empty());
}
#[kani::proof]
fn monotone_pad() {
    let (a, b) = nested_pair();
    let s: u32 = kani::any();
    kani::assume(s <= 48);
    assert!(nested(a.pad(s), b.pad(s)), "[C06] pad is monotone");
    kani::cover!(s == 6 && a != b && !a.is_empty());
}
#[kani::proof]
fn monotone_upsample() {
    let (a, b) = nested_pair();
    let f: u32 = kani::any();
    kani::assume(f <= 12);
    kani::assume(l(a).abs() <= 1 << 18 && t(a).abs() <= 1 << 18 && a.width <= 1 << 18 && a.height <= 1 << 18);
    kani::assume(l(b).abs() <= 1 << 18 && t(b).abs() <= 1 << 18 && b.width <= 1 << 18 && b.height <= 1 << 18);
    assert!(nested(a.upsample(f), b.upsample(f)), "[C06] upsample is monotone");
    kani::cover!(f == 3 && a != b && !a.is_empty());
}
#[kani::proof]
fn monotone_container_aligned() {
    let (a, b) = nested_pair();
    let k: u32 = kani::any();
    kani::assume(k <= 10);
    assert!(nested(a.container_aligned(1 << k), b.container_aligned(1 << k)), "[C06] container_aligned is monotone");
    kani::cover!(k == 3 && a != b && !a.is_empty());
}

#[kani::proof]
fn canary() {
    let a = any_wf_region();
    let b = any_wf_region();
    assert!(a.intersection(b).width != 7, "canary: must fail");
}
