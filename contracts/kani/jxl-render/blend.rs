// Contracts for crates/jxl-render/src/blend.rs (child module: sees the private `BlendMode`, `BlendParams`,
// `BlendAlpha`, `blend_single`, `source_and_alpha_from_blending_info`).
//
// Two layers, tied together by one abstraction (`SpecChannelBlend` in contracts/spec/blend.rs):
//   (1) mode tables   BlendParams::from_blending_info / from_patch_blending_info: for every blend mode, flag and
//                     channel position the selected per-channel operation, abstracted by `view`, equals the
//                     standard's table `spec_frame_channel_blend` / `spec_patch_channel_blend`, and the alpha
//                     planes handed in are the ones the operation will read.                       [complete]
//   (2) kernels       blend_single on base / new grids of up to 2x2 samples (row stride 2), symbolic FINITE binary32 samples.
//                     Arithmetic-free kernels (kReplace, kept channel, kBlend / kMulAdd without alpha) and kAdd: ALL
//                     geometries inside the bound, every sample inside the blended rectangle equals spec_blend_pixel
//                     bit for bit, every other sample of the base buffer (incl. stride padding) is unchanged.
//                     Other arithmetic kernels: fixed list of geometries, frame condition bit-exact, values pinned to
//                     the standard's formulas at the exact points (fall-back, see "Arithmetic kernels" below).
// `view` is also asserted on the modes the kernel harnesses construct, so both layers speak about the same thing.
use super::*;

#[path = "@SPEC@/blend.rs"]
mod bspec;
use bspec::*;

// ---------------------------------------------------------------------------------------------------
// abstraction of the private BlendMode
// ---------------------------------------------------------------------------------------------------
fn plain(op: SpecOp) -> SpecChannelBlend {
    SpecChannelBlend { op, clamp: false, swapped: false, premultiplied: false, uses_alpha: false }
}

/// What a `BlendMode` value means. `Blend` / `MulAdd` without an alpha plane of the new frame are the
/// degenerate no-alpha forms (kReplace / kAdd) -- `kernel_replace_contract` / `kernel_add_contract` prove that
/// this is how `blend_single` treats them.
fn view(mode: &BlendMode<'_>) -> SpecChannelBlend {
    match mode {
        BlendMode::Replace => plain(SpecOp::Replace),
        BlendMode::Add => plain(SpecOp::Add),
        BlendMode::Mul(clamp) => SpecChannelBlend { op: SpecOp::Mul, clamp: *clamp, swapped: false, premultiplied: false, uses_alpha: false },
        BlendMode::Blend(a) => {
            if a.new.is_none() {
                plain(SpecOp::Replace)
            } else {
                SpecChannelBlend { op: SpecOp::Blend, clamp: a.clamp, swapped: a.swapped, premultiplied: a.premultiplied, uses_alpha: true }
            }
        }
        BlendMode::MulAdd(a) => {
            if a.new.is_none() {
                plain(SpecOp::Add)
            } else {
                // kMulAdd does not depend on premultiplication
                SpecChannelBlend { op: SpecOp::MulAdd, clamp: a.clamp, swapped: a.swapped, premultiplied: false, uses_alpha: true }
            }
        }
        BlendMode::MixAlpha { clamp, swapped } => SpecChannelBlend { op: SpecOp::BlendAlpha, clamp: *clamp, swapped: *swapped, premultiplied: false, uses_alpha: false },
        BlendMode::Skip => plain(SpecOp::Keep),
    }
}

/// (old alpha plane, new alpha plane) first samples, if the mode carries planes
fn planes(mode: &BlendMode<'_>) -> (Option<f32>, Option<f32>) {
    match mode {
        BlendMode::Blend(a) | BlendMode::MulAdd(a) => (a.base.as_ref().map(|g| g.get(0, 0)), a.new.as_ref().map(|g| g.get(0, 0))),
        _ => (None, None),
    }
}

fn any_finite() -> f32 {
    let v: f32 = kani::any();
    kani::assume(v.is_finite());
    v
}

// ---------------------------------------------------------------------------------------------------
// (1) mode tables
// ---------------------------------------------------------------------------------------------------
/// Channel layout and alpha context as `blend()` / `patch()` establish it:
///   color_channels in {1, 3}; channel_idx < color_channels + num_ec; alpha_channel < num_ec when the mode uses
///   alpha and there are extra channels (Frame::parse rejects anything else, jxl-frame/src/lib.rs:142-166; patch.rs:92-169
///   takes the index from the alpha channels of the image), 0 otherwise (field default);
///   new alpha plane and the premultiplied flag are present iff the mode uses alpha, extra channels exist and the channel
///   is not the alpha channel itself (blend.rs:346-380 passes them for the alpha channel too -- both are then ignored);
///   the old alpha plane is present only together with the new one.
struct Ctx {
    channel_idx: usize,
    color_channels: usize,
    alpha_channel: u32,
    has_extra: bool,
}

fn any_ctx(uses_alpha: bool) -> Ctx {
    let color_channels: usize = if kani::any() { 1 } else { 3 };
    let num_ec: usize = kani::any();
    kani::assume(num_ec <= 256);
    let channel_idx: usize = kani::any();
    kani::assume(channel_idx < color_channels + num_ec);
    let alpha_channel: u32 = kani::any();
    if uses_alpha && num_ec > 0 {
        kani::assume((alpha_channel as usize) < num_ec);
    } else {
        kani::assume(alpha_channel == 0);
    }
    Ctx { channel_idx, color_channels, alpha_channel, has_extra: num_ec > 0 }
}

#[kani::proof]
fn frame_mode_table_contract() {
    let raw_mode: u8 = kani::any();
    kani::assume(raw_mode <= 4);
    let mode = match raw_mode {
        0 => FrameBlendMode::Replace,
        1 => FrameBlendMode::Add,
        2 => FrameBlendMode::Blend,
        3 => FrameBlendMode::MulAdd,
        _ => FrameBlendMode::Mul,
    };
    let uses_alpha = raw_mode == 2 || raw_mode == 3;
    let cx = any_ctx(uses_alpha);
    let clamp: bool = kani::any();
    let source: u32 = kani::any();
    kani::assume(source <= 3);
    let info = BlendingInfo { mode, alpha_channel: cx.alpha_channel, clamp, source };

    // alpha context exactly as blend() computes it
    let (src, alpha_idx) = source_and_alpha_from_blending_info(&info, cx.has_extra);
    assert!(src == source as usize, "[C05] the base of the blend is the reference slot named by `source`");
    assert!(alpha_idx == if uses_alpha && cx.has_extra { Some(cx.alpha_channel as usize) } else { None },
        "[C05] an alpha channel is used exactly for kBlend / kMulAdd on an image with extra channels, and it is `alpha_channel`");

    let (old_a, new_a): (f32, f32) = (any_finite(), any_finite());
    let (old_buf, new_buf) = ([old_a], [new_a]);
    let have_alpha = alpha_idx.is_some();
    let have_old_plane: bool = kani::any(); // no reference frame yet / channel is the alpha channel itself => None
    let alpha_associated: bool = kani::any();
    let new_plane = have_alpha.then(|| SharedSubgrid::from_buf(&new_buf[..], 1, 1, 1));
    let old_plane = (have_alpha && have_old_plane).then(|| SharedSubgrid::from_buf(&old_buf[..], 1, 1, 1));
    let premultiplied = have_alpha.then_some(alpha_associated);

    let p = BlendParams::from_blending_info(cx.channel_idx, cx.color_channels, &info, old_plane, new_plane, premultiplied);
    let spec = spec_frame_channel_blend(raw_mode as u32, clamp, cx.alpha_channel as usize, cx.channel_idx, cx.color_channels, premultiplied);
    let got = view(&p.mode);
    assert!(got.op == spec.op, "[C05] frame blending: the operation selected for the channel is the one of the standard's BlendMode table");
    assert!(got.clamp == spec.clamp, "[C05] frame blending: clamp is applied exactly where the standard applies it");
    assert!(got.swapped == spec.swapped, "[C05] frame blending: the new frame is always the upper layer");
    assert!(got.premultiplied == spec.premultiplied, "[C05] frame blending: premultiplied <=> alpha_associated of the alpha extra channel");
    assert!(got.uses_alpha == spec.uses_alpha, "[C05] frame blending: alpha planes are read exactly by kBlend / kMulAdd on non-alpha channels");
    if spec.uses_alpha {
        let (o, n) = planes(&p.mode);
        assert!(n.map(f32::to_bits) == Some(new_a.to_bits()), "[C05] the new frame's alpha plane is the one handed in");
        assert!(o.map(f32::to_bits) == (have_old_plane).then_some(old_a.to_bits()), "[C05] the canvas alpha plane is the one handed in (absent = transparent canvas)");
    }
    assert!(p.base_topleft == (0, 0) && p.new_topleft == (0, 0) && p.width == 0 && p.height == 0, "[C05] geometry starts empty");
    kani::cover!(spec.op == SpecOp::BlendAlpha && cx.channel_idx > 3);
    kani::cover!(spec.op == SpecOp::Blend && spec.premultiplied && cx.channel_idx < 3);
    kani::cover!(spec.op == SpecOp::Blend && cx.channel_idx >= 3);
    kani::cover!(spec.op == SpecOp::Keep);
    kani::cover!(spec.op == SpecOp::MulAdd && !have_old_plane);
    kani::cover!(spec.op == SpecOp::Replace && raw_mode == 2);
    kani::cover!(spec.op == SpecOp::Add && raw_mode == 3);
    kani::cover!(spec.op == SpecOp::Mul && spec.clamp);
}

#[kani::proof]
fn patch_mode_table_contract() {
    use jxl_frame::data::PatchBlendMode;
    let raw_mode: u8 = kani::any();
    kani::assume(raw_mode <= 7);
    let mode = match raw_mode {
        0 => PatchBlendMode::None,
        1 => PatchBlendMode::Replace,
        2 => PatchBlendMode::Add,
        3 => PatchBlendMode::Mul,
        4 => PatchBlendMode::BlendAbove,
        5 => PatchBlendMode::BlendBelow,
        6 => PatchBlendMode::MulAddAbove,
        _ => PatchBlendMode::MulAddBelow,
    };
    assert!(PatchBlendMode::try_from(raw_mode as u32).ok() == Some(mode), "[C05,C14] patch blend mode numbering 0..7");
    let uses_alpha = raw_mode >= 4;
    assert!(mode.use_alpha() == uses_alpha, "[C05] patch modes 4..7 use alpha");
    let cx = any_ctx(uses_alpha);
    // patch(): alpha modes always name an alpha channel (patch.rs:165-169); without extra channels index 0 is out of
    // range and patch() would index ec_info[0] -- such a stream never gets here with an alpha mode and planes
    let clamp: bool = kani::any();
    let info = BlendingModeInformation { mode, alpha_channel: cx.alpha_channel, clamp };

    let (old_a, new_a): (f32, f32) = (any_finite(), any_finite());
    let (old_buf, new_buf) = ([old_a], [new_a]);
    let is_alpha_itself = cx.channel_idx == cx.color_channels + cx.alpha_channel as usize;
    // blend.rs:472-517: planes and flag are Some exactly for alpha modes on channels other than the alpha channel
    let have_alpha = uses_alpha && cx.has_extra && !is_alpha_itself;
    let alpha_associated: bool = kani::any();
    let new_plane = have_alpha.then(|| SharedSubgrid::from_buf(&new_buf[..], 1, 1, 1));
    let old_plane = have_alpha.then(|| SharedSubgrid::from_buf(&old_buf[..], 1, 1, 1));
    let premultiplied = have_alpha.then_some(alpha_associated);

    let p = BlendParams::from_patch_blending_info(cx.channel_idx, cx.color_channels, &info, old_plane, new_plane, premultiplied);
    let spec = spec_patch_channel_blend(raw_mode as u32, clamp, cx.alpha_channel as usize, cx.channel_idx, cx.color_channels, premultiplied);
    match &p {
        None => assert!(raw_mode == 0, "[C05] only kNone leaves the channel untouched by skipping it"),
        Some(p) => {
            assert!(raw_mode != 0, "[C05] kNone blends nothing");
            let got = view(&p.mode);
            assert!(got.op == spec.op, "[C05] patch blending: the operation selected for the channel is the one of the standard's PatchBlendMode table");
            assert!(got.clamp == spec.clamp, "[C05] patch blending: clamp is applied exactly where the standard applies it");
            assert!(got.swapped == spec.swapped, "[C05] patch blending: the patch is the lower layer exactly for the *Below modes");
            assert!(got.premultiplied == spec.premultiplied, "[C05] patch blending: premultiplied <=> alpha_associated of the alpha extra channel");
            assert!(got.uses_alpha == spec.uses_alpha, "[C05] patch blending: alpha planes are read exactly by the alpha modes on non-alpha channels");
            if spec.uses_alpha {
                let (o, n) = planes(&p.mode);
                assert!(n.map(f32::to_bits) == Some(new_a.to_bits()) && o.map(f32::to_bits) == Some(old_a.to_bits()),
                    "[C05] the patch's and the canvas' alpha planes are the ones handed in, not exchanged");
            }
            assert!(p.base_topleft == (0, 0) && p.new_topleft == (0, 0) && p.width == 0 && p.height == 0, "[C05] geometry starts empty");
        }
    }
    kani::cover!(spec.op == SpecOp::BlendAlpha && spec.swapped);
    kani::cover!(spec.op == SpecOp::Blend && spec.swapped && spec.premultiplied);
    kani::cover!(spec.op == SpecOp::MulAdd && spec.swapped);
    kani::cover!(spec.op == SpecOp::Keep && raw_mode == 6);
    kani::cover!(spec.op == SpecOp::Replace && raw_mode == 7);
    kani::cover!(spec.op == SpecOp::Replace && raw_mode == 4);
    kani::cover!(spec.op == SpecOp::Mul && spec.clamp);
    kani::cover!(p.is_none());
}

// ---------------------------------------------------------------------------------------------------
// (2) kernels
// ---------------------------------------------------------------------------------------------------
// Preconditions (established by blend() / patch(): all rectangles are intersections of the grids' regions):
//   base_topleft + (width, height) inside the base grid, new_topleft + (width, height) inside the new grid,
//   the canvas alpha plane has the geometry of the base grid, the new alpha plane that of the new grid.
// Grids: row stride 2, width and height symbolic in 1..=2 (so stride padding exists and must stay untouched),
// rectangle width / height symbolic in 0..=2, all offsets symbolic.
const STRIDE: usize = 2;

#[derive(Clone, Copy)]
struct Geo {
    bw: usize,
    bh: usize,
    nw: usize,
    nh: usize,
    bx: usize,
    by: usize,
    nx: usize,
    ny: usize,
    w: usize,
    h: usize,
}

fn small() -> usize {
    // a byte widened to usize: the upper 56 bits are constant zero, which keeps the index arithmetic of the
    // grid accessors (row * stride, offsets) small in CBMC
    let v: u8 = kani::any();
    kani::assume(v <= 2);
    v as usize
}

/// `rect`: Some((w, h)) fixes the size of the blended rectangle (the kernel's loops then have concrete trip
/// counts, which is what lets CBMC match the float operations one to one); None leaves it symbolic.
fn any_geo(rect: Option<(usize, usize)>) -> Geo {
    let (w, h) = match rect {
        Some(r) => r,
        None => (small(), small()),
    };
    let g = Geo { bw: small(), bh: small(), nw: small(), nh: small(), bx: small(), by: small(), nx: small(), ny: small(), w, h };
    kani::assume(1 <= g.bw && 1 <= g.bh && 1 <= g.nw && 1 <= g.nh);
    kani::assume(g.bx + g.w <= g.bw && g.by + g.h <= g.bh && g.nx + g.w <= g.nw && g.ny + g.h <= g.nh);
    g
}

fn any_finite4() -> [f32; 4] {
    [any_finite(), any_finite(), any_finite(), any_finite()]
}

/// kBlend / kMulAdd parameters of an image without alpha: no planes, every flag arbitrary
fn arbitrary_no_alpha<'a>() -> BlendAlpha<'a> {
    BlendAlpha { base: None, new: None, clamp: kani::any(), swapped: kani::any(), premultiplied: kani::any() }
}

/// Runs blend_single for the abstract operation `b` (realised as the BlendMode `blend()`/`patch()` would build)
/// and checks the pixel contract for one symbolic buffer position, i.e. for all positions.
/// `degenerate`: realise Replace / Add through the no-alpha forms Blend{new: None} / MulAdd{new: None}.
fn kernel_contract(b: SpecChannelBlend, degenerate: bool, rect: Option<(usize, usize)>) {
    let g = any_geo(rect);
    let (base, new, base_alpha, new_alpha) = (any_finite4(), any_finite4(), any_finite4(), any_finite4());
    let have_old: bool = kani::any();
    kani::assume(b.uses_alpha || !have_old);
    let after = run_kernel(b, degenerate, g, have_old, base, new, base_alpha, new_alpha);
    // one symbolic position of the base BUFFER (stride padding included), i.e. all positions
    let (px, py) = (small(), small());
    kani::assume(px < STRIDE && py < 2);
    check_position(b, g, have_old, true, (px, py), &base, &after, &new, &base_alpha, &new_alpha);
    let inside = g.bx <= px && px < g.bx + g.w && g.by <= py && py < g.by + g.h;
    kani::cover!(inside && g.bx + g.w == 2 && g.nx == 0 && g.by == 0 && g.ny + g.h == 2);
    kani::cover!(!inside && py < g.bh && g.w > 0 && g.h > 0);
}

/// Realises the abstract operation `b` as the BlendMode `blend()` / `patch()` would build (`degenerate`: Replace / Add
/// through the no-alpha forms Blend{new: None} / MulAdd{new: None}), runs blend_single and returns the base buffer.
fn run_kernel(b: SpecChannelBlend, degenerate: bool, g: Geo, have_old_plane: bool, mut base: [f32; 4], new: [f32; 4], base_alpha: [f32; 4], new_alpha: [f32; 4]) -> [f32; 4] {
    let old_plane = have_old_plane.then(|| SharedSubgrid::from_buf(&base_alpha[..], g.bw, g.bh, STRIDE));
    let new_plane = || SharedSubgrid::from_buf(&new_alpha[..], g.nw, g.nh, STRIDE);
    let mode = match b.op {
        SpecOp::Keep => BlendMode::Skip,
        SpecOp::Replace => if degenerate { BlendMode::Blend(arbitrary_no_alpha()) } else { BlendMode::Replace },
        SpecOp::Add => if degenerate { BlendMode::MulAdd(arbitrary_no_alpha()) } else { BlendMode::Add },
        SpecOp::Mul => BlendMode::Mul(b.clamp),
        SpecOp::BlendAlpha => BlendMode::MixAlpha { clamp: b.clamp, swapped: b.swapped },
        SpecOp::Blend => BlendMode::Blend(BlendAlpha { base: old_plane, new: Some(new_plane()), clamp: b.clamp, swapped: b.swapped, premultiplied: b.premultiplied }),
        SpecOp::MulAdd => BlendMode::MulAdd(BlendAlpha { base: old_plane, new: Some(new_plane()), clamp: b.clamp, swapped: b.swapped, premultiplied: kani::any() }),
    };
    assert!(view(&mode) == b, "[C05] the kernel harness and the mode tables use the same abstraction of BlendMode");
    let params = BlendParams { mode, base_topleft: (g.bx, g.by), new_topleft: (g.nx, g.ny), width: g.w, height: g.h };
    blend_single(
        MutableSubgrid::from_buf(&mut base[..], g.bw, g.bh, STRIDE),
        SharedSubgrid::from_buf(&new[..], g.nw, g.nh, STRIDE),
        &params,
    );
    base
}

/// The pixel contract at buffer position (px, py).
fn check_position(b: SpecChannelBlend, g: Geo, have_old_plane: bool, exact: bool, (px, py): (usize, usize),
                  old: &[f32; 4], after: &[f32; 4], new: &[f32; 4], base_alpha: &[f32; 4], new_alpha: &[f32; 4]) {
    let at = py * STRIDE + px;
    let inside = g.bx <= px && px < g.bx + g.w && g.by <= py && py < g.by + g.h;
    if inside {
        let nat = (py - g.by + g.ny) * STRIDE + (px - g.bx + g.nx);
        let old_a = if have_old_plane { base_alpha[at] } else { 0.0 }; // a canvas without alpha plane is transparent
        if exact {
            let expect = spec_blend_pixel(b, old[at], old_a, new[nat], new_alpha[nat]);
            assert!(same_f32(after[at], expect), "[C05] every sample inside the blended rectangle equals spec_blend_pixel bit for bit");
        }
        corner_cases(b, after[at], old[at], old_a, new[nat], new_alpha[nat]);
    } else {
        assert!(after[at].to_bits() == old[at].to_bits(), "[C05] samples outside the blended rectangle (and stride padding) are unchanged");
    }
}

/// The standard's real-number formulas at the points where binary32 evaluation is exact (no rounding, no overflow):
/// these do not depend on the operation order chosen in spec_blend_pixel.
fn corner_cases(b: SpecChannelBlend, out: f32, old_sample: f32, old_alpha: f32, new_sample: f32, new_alpha: f32) {
    let (bg, bga, fg, fga) = if b.swapped { (new_sample, new_alpha, old_sample, old_alpha) } else { (old_sample, old_alpha, new_sample, new_alpha) };
    let big = 1.0e18f32; // products of two such values are finite
    let tame = bg.abs() <= big && fg.abs() <= big && bga.abs() <= big;
    match b.op {
        SpecOp::Keep => assert!(out.to_bits() == old_sample.to_bits(), "[C05] kNone / alpha under kMulAdd: the canvas sample is kept"),
        SpecOp::Replace => assert!(out.to_bits() == new_sample.to_bits(), "[C05] kReplace copies the new sample"),
        SpecOp::Add => assert!(same_f32(out, old_sample + new_sample), "[C05] kAdd adds"),
        SpecOp::Mul => {
            if b.clamp && new_sample >= 1.0 { assert!(out == old_sample, "[C05] kMul with clamp: factors above 1 act as 1"); }
            if b.clamp && new_sample <= 0.0 { assert!(out == 0.0, "[C05] kMul with clamp: factors below 0 act as 0"); }
            if new_sample == 1.0 { assert!(out == old_sample, "[C05] kMul by 1 keeps the sample"); }
            if new_sample == 0.0 { assert!(out == 0.0, "[C05] kMul by 0 gives 0"); }
            if !b.clamp && new_sample == -2.0 && old_sample.abs() <= 1.0e18 { assert!(out == -(old_sample + old_sample), "[C05] kMul without clamp does not clamp"); }
        }
        SpecOp::BlendAlpha => {
            let upper_is = |v: f32| if b.clamp { spec_clamp01(fg) == v } else { fg == v };
            if upper_is(0.0) && tame { assert!(out == bg, "[C05] alpha under kBlend: a transparent upper layer keeps the lower alpha"); }
            if bg == 0.0 && tame { assert!(out == (if b.clamp { spec_clamp01(fg) } else { fg }), "[C05] alpha under kBlend: over a transparent lower layer the (clamped) upper alpha results"); }
            if bg == 1.0 && tame { assert!(out == 1.0, "[C05] alpha under kBlend: an opaque lower layer stays opaque"); }
        }
        SpecOp::MulAdd => {
            let a = if b.clamp { spec_clamp01(fga) } else { fga };
            if a == 0.0 && tame { assert!(out == bg, "[C05] kMulAdd with (clamped) alpha 0 keeps the lower layer"); }
            if a == 1.0 { assert!(same_f32(out, bg + fg), "[C05] kMulAdd with (clamped) alpha 1 adds the layers"); }
            if b.clamp && fga > 1.0 { assert!(same_f32(out, bg + fg), "[C05] kMulAdd: clamp limits alpha to 1"); }
        }
        SpecOp::Blend => {
            let a = if b.clamp { spec_clamp01(fga) } else { fga };
            if b.premultiplied {
                if a == 1.0 && tame { assert!(out == fg, "[C05] premultiplied kBlend: an opaque upper layer hides the lower layer"); }
                if a == 0.0 { assert!(same_f32(out, fg + bg), "[C05] premultiplied kBlend: alpha 0 adds the premultiplied upper sample"); }
            } else {
                if a == 1.0 && tame { assert!(out == fg, "[C05] kBlend: an opaque upper layer hides the lower layer"); }
                if a == 0.0 && bga == 1.0 && tame { assert!(out == bg, "[C05] kBlend: a transparent upper layer over an opaque lower layer keeps the lower sample"); }
                if a == 0.0 && bga == 0.0 && tame { assert!(out == 0.0, "[C05] kBlend: fully transparent result has sample 0"); }
            }
            if b.clamp && fga > 1.0 && tame { assert!(out == fg, "[C05] kBlend: clamp limits the upper alpha to 1"); }
        }
    }
}

fn any_blend(op: SpecOp) -> SpecChannelBlend {
    let uses_alpha = matches!(op, SpecOp::Blend | SpecOp::MulAdd);
    let has_clamp = !matches!(op, SpecOp::Keep | SpecOp::Replace | SpecOp::Add);
    let has_swap = matches!(op, SpecOp::Blend | SpecOp::MulAdd | SpecOp::BlendAlpha);
    SpecChannelBlend {
        op,
        clamp: if has_clamp { kani::any() } else { false },
        swapped: if has_swap { kani::any() } else { false },
        premultiplied: if op == SpecOp::Blend { kani::any() } else { false },
        uses_alpha,
    }
}

// Loop-structure kernels (no arithmetic): rectangle size symbolic.
#[kani::proof]
#[kani::unwind(4)]
fn kernel_replace_contract() {
    kernel_contract(any_blend(SpecOp::Replace), false, None);
}

/// kBlend on an image without alpha (Blend { new: None }, any flags) is kReplace
#[kani::proof]
#[kani::unwind(4)]
fn kernel_blend_no_alpha_contract() {
    kernel_contract(any_blend(SpecOp::Replace), true, None);
}

#[kani::proof]
#[kani::unwind(4)]
fn kernel_skip_contract() {
    kernel_contract(any_blend(SpecOp::Keep), false, None);
}

// Arithmetic kernels. Measured limits of CBMC here (see the report): (i) symbolic geometry together with float
// arithmetic does not close (> 10 min per kernel even for single-formula checks); (ii) bit-exact comparison of the kernel
// with spec_blend_pixel means proving two separately built binary32 multiplier / divider circuits equivalent, which
// closes only for addition. Therefore:
//   * kAdd (and kMulAdd without alpha) ARE compared bit for bit with the standard's formula old + new;
//   * kMul, kBlend (both alpha kinds), kMulAdd and the alpha-channel rule are checked against the standard's formulas at
//     the points where binary32 evaluation is exact and independent of operation order -- alpha (or factor) 0 and 1,
//     out-of-range alpha with clamp on and off, transparent / opaque lower layer, and each of them with the layers
//     exchanged (`swapped`) -- for ALL finite values of the remaining operands (`corner_cases`). These points separate
//     the operands (which sample is upper / lower, whose alpha weights what), the clamp and the premultiplied flag;
//     they do not pin the rounding of the general case, which is what the fall-back gives up.
//   * the geometry is a fixed list of concrete rectangles that exercise 0, 1 and 2 iterations of each loop, unequal
//     offsets on the two sides and grids narrower than the stride; flags, canvas-alpha presence and sample values stay
//     symbolic and EVERY position of the base buffer is checked (frame condition bit-exact). The loop / index structure
//     itself is proved for all geometries on the arithmetic-free kernels above and, for kAdd, in kernel_add_all_geometries.
const GEOM_QUICK: [Geo; 2] = [
    Geo { bw: 2, bh: 2, nw: 2, nh: 2, bx: 1, by: 0, nx: 0, ny: 1, w: 1, h: 1 }, // one sample, offsets crossed in both axes
    Geo { bw: 1, bh: 2, nw: 2, nh: 2, bx: 1, by: 1, nx: 1, ny: 0, w: 0, h: 1 }, // empty rectangle at the far edge of a narrow base grid
];
const GEOM_WIDE: [Geo; 3] = [
    Geo { bw: 2, bh: 2, nw: 1, nh: 2, bx: 1, by: 0, nx: 0, ny: 0, w: 1, h: 2 }, // a column of two from a narrow new grid, x offsets differ
    Geo { bw: 2, bh: 2, nw: 2, nh: 1, bx: 0, by: 1, nx: 0, ny: 0, w: 2, h: 1 }, // a row of two from a flat new grid, y offsets differ
    Geo { bw: 2, bh: 1, nw: 2, nh: 2, bx: 0, by: 0, nx: 1, ny: 1, w: 1, h: 0 }, // empty rectangle, flat base grid
];

/// Sample domain of the arithmetic kernels. The standard's formulas are over the reals; for the straight-alpha
/// quotient binary32 intermediates can overflow to infinity and then produce NaN (inf - inf, 0 * inf) although every
/// input is finite -- IEEE behaviour shared with the reference decoder, not a composition defect. Kani flags every
/// NaN-producing operation, so that kernel is specified for |samples|, |alphas| <= 2^40 where no intermediate
/// overflows (three-factor products stay below 2^122). All other kernels take every finite binary32.
fn any_sample(b: SpecChannelBlend) -> f32 {
    let v = any_finite();
    if b.op == SpecOp::Blend && !b.premultiplied {
        kani::assume(v.abs() <= 1_099_511_627_776.0);
    }
    v
}
fn any_samples4(b: SpecChannelBlend) -> [f32; 4] {
    [any_sample(b), any_sample(b), any_sample(b), any_sample(b)]
}

fn kernel_on_geometries(op: SpecOp, premultiplied: bool, degenerate: bool, geometries: &[Geo]) {
    let exact = false;
    let mut gi = 0;
    while gi < geometries.len() {
        let b = blend_of(op, premultiplied);
        let have_old: bool = kani::any();
        kani::assume(b.uses_alpha || !have_old);
        let mut k = 0;
        // fresh samples per geometry; every buffer position checked
        let (base, new, base_alpha, new_alpha) = (any_samples4(b), any_samples4(b), any_samples4(b), any_samples4(b));
        let after = run_kernel(b, degenerate, geometries[gi], have_old, base, new, base_alpha, new_alpha);
        while k < 4 {
            check_position(b, geometries[gi], have_old, exact, (k % STRIDE, k / STRIDE), &base, &after, &new, &base_alpha, &new_alpha);
            k += 1;
        }
        // vacuity guards: the kernel ran on a non-empty rectangle and wrote it, with every flag combination reachable
        let g = geometries[gi];
        if g.w > 0 && g.h > 0 {
            let at = g.by * STRIDE + g.bx;
            kani::cover!(after[at].to_bits() != base[at].to_bits());
            kani::cover!(after[at].to_bits() != base[at].to_bits() && (b.clamp || op == SpecOp::Add) && (b.swapped || !matches!(op, SpecOp::Blend | SpecOp::MulAdd | SpecOp::BlendAlpha)) && have_old == b.uses_alpha);
        }
        gi += 1;
    }
}

fn blend_of(op: SpecOp, premultiplied: bool) -> SpecChannelBlend {
    let mut b = any_blend(op);
    if op == SpecOp::Blend {
        b.premultiplied = premultiplied;
    }
    b
}

macro_rules! arithmetic_kernel_harnesses {
    ($($name:ident, $name_wide:ident: $op:expr, $premul:literal, $degenerate:literal;)*) => {
        $(
            #[kani::proof] #[kani::unwind(8)] fn $name() { kernel_on_geometries($op, $premul, $degenerate, &GEOM_QUICK); }
            #[kani::proof] #[kani::unwind(8)] fn $name_wide() { kernel_on_geometries($op, $premul, $degenerate, &GEOM_WIDE); }
        )*
    };
}

arithmetic_kernel_harnesses! {
    kernel_add_contract, kernel_add_wide: SpecOp::Add, false, false;
    kernel_muladd_no_alpha_contract, kernel_muladd_no_alpha_wide: SpecOp::Add, false, true;
    kernel_mul_contract, kernel_mul_wide: SpecOp::Mul, false, false;
    kernel_mix_alpha_contract, kernel_mix_alpha_wide: SpecOp::BlendAlpha, false, false;
    kernel_muladd_contract, kernel_muladd_wide: SpecOp::MulAdd, false, false;
    kernel_blend_premultiplied_contract, kernel_blend_premultiplied_wide: SpecOp::Blend, true, false;
    kernel_blend_straight_contract, kernel_blend_straight_wide: SpecOp::Blend, false, false;
}

/// all geometries, kAdd (float addition is the one arithmetic kernel that closes with symbolic geometry)
#[kani::proof]
#[kani::unwind(4)]
fn kernel_add_all_geometries() {
    kernel_contract(any_blend(SpecOp::Add), false, None);
}

/// the library clamp used by spec_clamp01 is the case distinction of the standard
#[kani::proof]
fn spec_clamp01_is_clamp() {
    let v: f32 = kani::any();
    let c = spec_clamp01(v);
    if v < 0.0 { assert!(c == 0.0, "[C05] clamp: below 0 -> 0"); }
    if v > 1.0 { assert!(c == 1.0, "[C05] clamp: above 1 -> 1"); }
    if v >= 0.0 && v <= 1.0 { assert!(c.to_bits() == v.to_bits(), "[C05] clamp: inside [0,1] unchanged"); }
    if v.is_nan() { assert!(c.is_nan(), "[C05] clamp: NaN stays NaN"); }
}

// ---------------------------------------------------------------------------------------------------
// (3) entry point patch(): rectangle / offset arithmetic, channel <-> blending entry, alpha planes
//     (the region arithmetic at the top of blend() is NOT under contract yet: it needs Reference / FrameRenderHandle
//      values, i.e. the C08 machinery, around the same kernel model -- not done in this unit)
// ---------------------------------------------------------------------------------------------------
// The kernels above are proved for every rectangle handed to them; what follows decides WHICH rectangle, WHICH buffers
// and WHICH alpha planes patch() hands over. Coordinates: every channel of an ImageWithRegion carries the
// frame rectangle (Region) its buffer covers; buffer position (px, py) of a channel with region R is frame sample
// (R.left + px, R.top + py).
//
// patch():  for every PatchTarget (x, y) of a PatchRef (x0, y0, width, height), every channel c and every frame
//   sample (X, Y) of the canvas channel:
//       (X, Y) in [x, x+width) x [y, y+height)   (and its source sample exists in the reference's buffer)
//            => canvas'(X, Y) = spec_blend_pixel(blending[c], canvas(X, Y), alpha(canvas)(X, Y),
//                                                reference(x0 + (X - x), y0 + (Y - y)), alpha(reference)(same))
//       otherwise canvas'(X, Y) = canvas(X, Y);
//   colour channels use blending[0], extra channel i uses blending[1 + i]; canvas / canvas alpha are the values BEFORE
//   the target is applied (all channels of one target are blended from the same state: the reference decoder blends
//   into a temporary row "so that we use the pre-blending alpha"); targets are applied in order; the reference is
//   never written; nothing is read or written outside the buffers; a target that misses the canvas changes nothing.
// Preconditions (call site render.rs:183-195 + Patches::parse, jxl-frame/src/data/patch.rs:84-200):
//   * both images have the same channel list; every buffer of the reference is F32 (the reference went through
//     RenderedImage::blend: composite_preprocess / blend() convert every channel, see cp.* in image.rs);
//   * one blending entry per colour-channel group + extra channel (patch.rs:173-190: take(num_extra + 1));
//   * patch width / height >= 1 (patch.rs:131-132: varint + 1).
//   Coordinates are NOT validated by the parser (x0, y0 any u32; x, y any i32; alpha_channel unchecked when the image
//   has two or more alpha channels); the value contracts below take the ranges of a VALID stream (|coordinates| <= 2^30,
//   the frame size limit) and the totality harnesses (patch_total_*) take everything the parser lets through.
//
// Two layers:
//   (a) composition harnesses: blend_single is replaced by ITS CONTRACT (`blend_single_model`: spec_blend_pixel over
//       the rectangle, what bl.kernel_* prove of the real kernel) and the kernel's precondition -- rectangle inside both
//       buffers, alpha planes of the buffers' geometry, which bl.kernel_* ASSUME -- is ASSERTED here. Reason: CBMC does
//       not propagate constants through Vec<ImageBuffer> and the Chain iterator of patch(), so with the real kernel
//       every arm of blend_single is unrolled for every channel iteration (a fully CONCRETE 2x2 call: > 10 min of
//       symbolic execution, measured).
//   (b) end-to-end harnesses with the real kernel on the smallest shapes (patch_*_end_to_end, thorough tier).
use jxl_frame::data::{PatchBlendMode, PatchTarget};
use jxl_oxide_common::BundleDefault;
use std::mem::ManuallyDrop;

const MAX_COORD: i64 = 1 << 30; // frame width / height limit (jxl-frame/src/lib.rs:122-129)
const MAX_TARGET: i64 = 1 << 29; // |x|, |y| of a patch target / |origin| of a rendered rectangle in the value contracts: a valid stream
                                 // keeps them inside the frame; up to 2^29 no i32 sum of two coordinates overflows

/// Contract of `blend_single` (the statement proved by bl.kernel_*), used in its place.
fn blend_single_model(mut base: MutableSubgrid<f32>, new_grid: SharedSubgrid<f32>, p: &BlendParams<'_>) {
    let b = view(&p.mode);
    let (bx, by) = p.base_topleft;
    let (nx, ny) = p.new_topleft;
    let (w, h) = (p.width, p.height);
    let (old_plane, new_plane) = match &p.mode {
        BlendMode::Blend(a) | BlendMode::MulAdd(a) if a.new.is_some() => (a.base.as_ref(), a.new.as_ref()),
        _ => (None, None),
    };
    if w == 0 || h == 0 {
        return; // empty rectangle: the kernel's loops do not run, whatever the offsets are
    }
    let fits = bx <= base.width() && w <= base.width() - bx && by <= base.height() && h <= base.height() - by;
    assert!(fits, "[C05,C02] the rectangle handed to the kernel lies inside the canvas buffer");
    let fits_new = nx <= new_grid.width() && w <= new_grid.width() - nx && ny <= new_grid.height() && h <= new_grid.height() - ny;
    assert!(fits_new, "[C05,C02] the rectangle handed to the kernel lies inside the buffer of the new frame / reference");
    let planes_fit = new_plane.map_or(true, |g| g.width() == new_grid.width() && g.height() == new_grid.height())
        && old_plane.map_or(true, |g| g.width() == base.width() && g.height() == base.height());
    assert!(planes_fit, "[C05,C02] the alpha planes handed to the kernel have the geometry of their sample buffers");
    kani::assume(fits && fits_new && planes_fit);
    // row accessors: one index multiplication per row instead of one per sample
    let mut dy = 0;
    while dy < h {
        let out_row = base.get_row_mut(by + dy);
        let new_row = new_grid.get_row(ny + dy);
        let old_alpha_row = old_plane.map(|g| g.get_row(by + dy));
        let new_alpha_row = new_plane.map(|g| g.get_row(ny + dy));
        let mut dx = 0;
        while dx < w {
            let old_alpha = old_alpha_row.map_or(0.0, |r| r[bx + dx]);
            let new_alpha = new_alpha_row.map_or(0.0, |r| r[nx + dx]);
            out_row[bx + dx] = spec_blend_pixel(b, out_row[bx + dx], old_alpha, new_row[nx + dx], new_alpha);
            dx += 1;
        }
        dy += 1;
    }
}

/// Contract of `ImageBuffer::convert_to_float_modular` on a buffer that already is F32 (the only kind the float-image harnesses
/// build): the buffer itself, whatever the bit depth. The integer arms allocate through AlignedGrid::with_alloc_tracker, which
/// CBMC explores for minutes on the infeasible paths of patch()'s channel loop; reaching them here fails the harness.
fn convert_float_only_model(buffer: &mut ImageBuffer, _bit_depth: jxl_image::BitDepth) -> Result<&mut AlignedGrid<f32>> {
    match buffer {
        ImageBuffer::F32(g) => Ok(g),
        _ => {
            assert!(false, "harness model: every buffer of this harness is F32");
            kani::assume(false);
            unreachable!()
        }
    }
}

fn image_header_with_extra<const E: usize>(ec: [jxl_image::ExtraChannelInfo; E]) -> ImageHeader {
    let size = <jxl_image::SizeHeader as BundleDefault<()>>::default_with_context(());
    let mut metadata = <jxl_image::ImageMetadata as BundleDefault<()>>::default_with_context(());
    for e in ec {
        metadata.ec_info.push(e);
    }
    ImageHeader { size, metadata }
}

fn alpha_channel_info(alpha_associated: bool) -> jxl_image::ExtraChannelInfo {
    jxl_image::ExtraChannelInfo { ty: jxl_image::ExtraChannelType::Alpha { alpha_associated }, ..Default::default() }
}

fn depth_channel_info() -> jxl_image::ExtraChannelInfo {
    jxl_image::ExtraChannelInfo { ty: jxl_image::ExtraChannelType::Depth, ..Default::default() }
}

/// a value in lo..=hi held in a byte (keeps CBMC's index arithmetic narrow)
fn small_i32(lo: i8, hi: i8) -> i32 {
    let v: i8 = kani::any();
    kani::assume(lo <= v && v <= hi);
    v as i32
}

fn coord_i32() -> i32 {
    let v: i32 = kani::any();
    kani::assume(-MAX_COORD <= v as i64 && v as i64 <= MAX_COORD);
    v
}

fn target_i32() -> i32 {
    let v: i32 = kani::any();
    kani::assume(-MAX_TARGET <= v as i64 && v as i64 <= MAX_TARGET);
    v
}

fn coord_u32() -> u32 {
    let v: u32 = kani::any();
    kani::assume(v as i64 <= MAX_COORD);
    v
}

/// N channels of H rows of W finite samples (loops of at most 4 iterations: the harnesses run with unwind(5))
fn finite_samples<const W: usize, const H: usize, const N: usize>() -> [[[f32; W]; H]; N] {
    let a: [[[f32; W]; H]; N] = kani::any();
    let mut c = 0;
    while c < N {
        let mut y = 0;
        while y < H {
            let mut x = 0;
            while x < W {
                kani::assume(a[c][y][x].is_finite());
                x += 1;
            }
            y += 1;
        }
        c += 1;
    }
    a
}

/// The real `AlignedGrid<f32>` holding `samples`, built WITHOUT its constructor: `with_alloc_tracker` resizes its Vec by
/// an alignment offset derived from the allocation address, which costs CBMC 4-5 minutes per grid (measured). The grid is
/// assembled from a field-for-field mirror of jxl_grid::AlignedGrid (crates/jxl-grid/src/lib.rs:43-49) with offset 0 (an
/// allocation that is already aligned), and every accessor is checked against the intended contents right here, so a
/// layout mismatch fails the harness (untagged => UNDECIDED) instead of passing silently.
#[allow(dead_code)]
struct GridMirror {
    width: usize,
    height: usize,
    offset: usize,
    buf: Vec<f32>,
    handle: Option<jxl_grid::AllocHandle>,
}

fn float_grid<const W: usize, const H: usize>(samples: &[[f32; W]; H]) -> AlignedGrid<f32> {
    let samples = samples.as_flattened();
    let n = W * H;
    let mut buf = Vec::with_capacity(n);
    buf.extend_from_slice(samples);
    let g: AlignedGrid<f32> = unsafe { std::mem::transmute(GridMirror { width: W, height: H, offset: 0, buf, handle: None }) };
    assert!(g.width() == W && g.height() == H && g.buf().len() == n && g.tracker().is_none());
    assert!(n == 0 || (g.buf()[0].to_bits() == samples[0].to_bits() && g.buf()[n - 1].to_bits() == samples[n - 1].to_bits()));
    g
}

/// N float channels of W x H samples, channel c covering `regions[c]`
fn float_image<const W: usize, const H: usize, const N: usize>(color_channels: usize, samples: &[[[f32; W]; H]; N], regions: &[Region; N]) -> ImageWithRegion {
    let mut img = ImageWithRegion::new(color_channels, None);
    let mut c = 0;
    while c < N {
        img.append_channel(ImageBuffer::F32(float_grid(&samples[c])), regions[c]);
        c += 1;
    }
    img
}

/// A `Vec` whose buffer is the given stack array (never grown, never dropped: the array is ManuallyDrop and every owner
/// is `mem::forget`-ed). CBMC propagates constants through stack objects but not through heap allocations.
fn stack_vec<T, const N: usize>(a: &mut ManuallyDrop<[T; N]>) -> Vec<T> {
    unsafe { Vec::from_raw_parts(a.as_mut_ptr(), N, N) }
}

fn sample_of(img: &ImageWithRegion, channel: usize, x: usize, y: usize) -> f32 {
    img.buffer()[channel].as_float().unwrap().get(x, y)
}

fn patch_mode(raw: u8) -> PatchBlendMode {
    match raw {
        0 => PatchBlendMode::None,
        1 => PatchBlendMode::Replace,
        2 => PatchBlendMode::Add,
        3 => PatchBlendMode::Mul,
        4 => PatchBlendMode::BlendAbove,
        5 => PatchBlendMode::BlendBelow,
        6 => PatchBlendMode::MulAddAbove,
        _ => PatchBlendMode::MulAddBelow,
    }
}

fn region_at(left: i32, top: i32, w: usize, h: usize) -> Region {
    Region { left, top, width: w as u32, height: h as u32 }
}

/// Geometry of one patch application on one channel, in frame coordinates (i64: the specification does not overflow).
#[derive(Clone, Copy)]
struct PatchGeo {
    canvas: Region,
    reference: Region,
    src: (i64, i64),    // x0, y0
    size: (i64, i64),   // patch width, height
    target: (i64, i64), // x, y
}

/// Some(reference buffer position) if canvas buffer position (px, py) is painted by the patch, None if it is kept.
fn spec_patch_source(g: PatchGeo, px: usize, py: usize) -> Option<(usize, usize)> {
    let (x, y) = (g.canvas.left as i64 + px as i64, g.canvas.top as i64 + py as i64);
    let inside = g.target.0 <= x && x < g.target.0 + g.size.0 && g.target.1 <= y && y < g.target.1 + g.size.1;
    if !inside {
        return None;
    }
    let (sx, sy) = (g.src.0 + (x - g.target.0), g.src.1 + (y - g.target.1));
    let (bx, by) = (sx - g.reference.left as i64, sy - g.reference.top as i64);
    if bx < 0 || by < 0 || bx >= g.reference.width as i64 || by >= g.reference.height as i64 {
        return None; // no such reference sample: the canvas sample is kept
    }
    Some((bx as usize, by as usize))
}

#[derive(Clone, Copy, PartialEq, Eq)]
enum SourceRect {
    /// the source rectangle lies in the reference's buffer: a valid stream on a wholly rendered reference frame
    InsideReference,
    /// reference buffer at the frame origin, source rectangle anywhere (reaching beyond the reference frame): samples
    /// without a source are kept
    AnywhereOriginReference,
}

/// One colour channel, no extra channels, one target, a non-alpha mode. Canvas buffer CW x CH and reference buffer RW x RH
/// at symbolic origins.
fn patch_rectangle_contract<const CW: usize, const CH: usize, const RW: usize, const RH: usize>(source: SourceRect, raw_mode: u8, wide: bool) {
    let ih = image_header_with_extra([]);
    // wide: every coordinate up to the frame size limit; otherwise a window of +-12 around the origin, which contains every
    // relative position of the three rectangles (wholly outside on each side .. wholly inside) for these buffer sizes
    let signed = || if wide { target_i32() } else { small_i32(-12, 12) };
    let unsigned = || if wide { coord_u32() } else { small_i32(0, 16) as u32 };
    let canvas_region = region_at(signed(), signed(), CW, CH);
    let ref_region = match source {
        SourceRect::InsideReference => region_at(signed(), signed(), RW, RH),
        SourceRect::AnywhereOriginReference => region_at(0, 0, RW, RH),
    };
    let (x0, y0, pw, ph) = (unsigned(), unsigned(), unsigned(), unsigned());
    kani::assume(pw >= 1 && ph >= 1);
    if source == SourceRect::InsideReference {
        kani::assume(ref_region.left as i64 <= x0 as i64 && x0 as i64 + pw as i64 <= ref_region.left as i64 + RW as i64);
        kani::assume(ref_region.top as i64 <= y0 as i64 && y0 as i64 + ph as i64 <= ref_region.top as i64 + RH as i64);
    }
    let (tx, ty) = (signed(), signed());
    let clamp: bool = kani::any();

    let old: [[[f32; CW]; CH]; 1] = finite_samples();
    let refs: [[[f32; RW]; RH]; 1] = finite_samples();
    let mut canvas = float_image(1, &old, &[canvas_region]);
    let reference = float_image(1, &refs, &[ref_region]);
    let mut infos = ManuallyDrop::new([BlendingModeInformation { mode: patch_mode(raw_mode), alpha_channel: 0, clamp }]);
    let mut targets = ManuallyDrop::new([PatchTarget { x: tx, y: ty, blending: stack_vec(&mut infos) }]);
    let patch_ref = PatchRef { ref_idx: 0, x0, y0, width: pw, height: ph, patch_targets: stack_vec(&mut targets) };

    let r = patch(&ih, &mut canvas, &reference, &patch_ref);
    assert!(r.is_ok(), "[C05,C01] patch() on float buffers has no failure path");

    let g = PatchGeo { canvas: canvas_region, reference: ref_region, src: (x0 as i64, y0 as i64), size: (pw as i64, ph as i64), target: (tx as i64, ty as i64) };
    let b = spec_patch_channel_blend(raw_mode as u32, clamp, 0, 0, 1, None);
    // one symbolic buffer position of the canvas = every position
    let (px, py) = (small_i32(0, CW as i8 - 1) as usize, small_i32(0, CH as i8 - 1) as usize);
    let got = sample_of(&canvas, 0, px, py);
    let src = spec_patch_source(g, px, py);
    match src {
        Some((sx, sy)) => {
            let expect = spec_blend_pixel(b, old[0][py][px], 0.0, refs[0][sy][sx], 0.0);
            assert!(same_f32(got, expect),
                "[C05] a canvas sample under the patch target equals spec_blend_pixel(old sample, reference sample at (x0 + X - x, y0 + Y - y))");
        }
        None => assert!(got.to_bits() == old[0][py][px].to_bits(), "[C05] canvas samples outside the patch target (or without a source sample) are unchanged"),
    }
    let (qx, qy) = (small_i32(0, RW as i8 - 1) as usize, small_i32(0, RH as i8 - 1) as usize);
    assert!(sample_of(&reference, 0, qx, qy).to_bits() == refs[0][qy][qx].to_bits(), "[C05] the reference frame is not modified");
    assert!(canvas.regions_and_shifts()[0].0 == canvas_region && canvas.color_channels() == 1 && canvas.channels() == 1, "[C05] the canvas keeps its rectangle and channel list");

    let painted = src.is_some();
    let (cl, ct) = (canvas_region.left as i64, canvas_region.top as i64);
    let under_target = g.target.0 <= cl + px as i64 && cl + (px as i64) < g.target.0 + g.size.0 && g.target.1 <= ct + py as i64 && ct + (py as i64) < g.target.1 + g.size.1;
    kani::cover!(painted && g.target.0 < cl && g.target.1 < ct && src == Some((RW - 1, RH - 1))); // clipped at the left / top edge of the canvas
    kani::cover!(painted && g.target.0 + g.size.0 > cl + CW as i64 && g.target.1 + g.size.1 > ct + CH as i64); // clipped right / bottom
    kani::cover!(!painted && (g.target.0 + g.size.0 <= cl || g.target.1 >= ct + CH as i64)); // target wholly left of / below the canvas
    kani::cover!(!painted && g.target.0 + g.size.0 == cl + px as i64 && g.target.1 <= ct + py as i64); // kept sample right of a visible target
    // (AnywhereOriginReference only) a sample under the target whose source lies beyond the reference is kept
    kani::cover!(source == SourceRect::InsideReference || (!painted && under_target && g.src.0 + g.size.0 > RW as i64 + 5));
    std::mem::forget(r);
    std::mem::forget(canvas);
    std::mem::forget(reference);
    std::mem::forget(patch_ref);
}

macro_rules! patch_rectangle_harness {
    ($name:ident, $unwind:expr, $cw:expr, $ch:expr, $rw:expr, $rh:expr, $source:expr, $mode:expr, $wide:expr) => {
        #[kani::proof]
        #[kani::unwind($unwind)]
        #[kani::stub(blend_single, blend_single_model)]
        #[kani::stub(ImageBuffer::convert_to_float_modular, convert_float_only_model)]
        fn $name() {
            patch_rectangle_contract::<$cw, $ch, $rw, $rh>($source, $mode, $wide);
        }
    };
}
// quick: canvas 3x2, reference 2x2, coordinates in a +-12 window; wide: canvas 4x3, reference 4x3, every coordinate up to the
// frame size limit (only patch_replace_rectangle_wide is registered: the other wide instantiations were not measured)
patch_rectangle_harness!(patch_replace_rectangle, 4, 3, 2, 2, 2, SourceRect::InsideReference, 1, false);
patch_rectangle_harness!(patch_add_rectangle, 4, 3, 2, 2, 2, SourceRect::InsideReference, 2, false);
patch_rectangle_harness!(patch_replace_source_clipped, 4, 3, 2, 2, 2, SourceRect::AnywhereOriginReference, 1, false);
patch_rectangle_harness!(patch_replace_rectangle_wide, 5, 4, 3, 4, 3, SourceRect::InsideReference, 1, true);
patch_rectangle_harness!(patch_add_rectangle_wide, 5, 4, 3, 4, 3, SourceRect::InsideReference, 2, true);
patch_rectangle_harness!(patch_mul_rectangle_wide, 5, 4, 3, 4, 3, SourceRect::InsideReference, 3, true);
patch_rectangle_harness!(patch_add_source_clipped_wide, 5, 4, 3, 4, 3, SourceRect::AnywhereOriginReference, 2, true);

// ---- several channels: which blending entry, which rectangle and which alpha planes each channel gets ----------------
// NOT REGISTERED (status at hand-over): patch_channel_mapping_gray and patch_two_targets did not close within 900 s;
// patch_channel_mapping_rgb / patch_alpha_planes_* were never run to completion. They compile and state the intended contract;
// the cost is CBMC's loss of constants in patch()'s Chain iterator (every spurious channel iteration re-runs the kernel model).
/// (raw patch blend mode 0..7, clamp, alpha_channel) of one blending entry
type Entry = (u8, bool, u32);

fn entry_of(e: Entry) -> BlendingModeInformation {
    BlendingModeInformation { mode: patch_mode(e.0), alpha_channel: e.2, clamp: e.1 }
}

/// Expected sample of canvas channel `c` at buffer position (px, py) after ONE target: every operand is taken from the
/// state before the target (`old`), the alpha operands from channel color_channels + alpha_channel of the two images.
fn spec_patched_sample<const W: usize, const H: usize, const RW: usize, const RH: usize, const N: usize>(
    color_channels: usize, ec_info: &[jxl_image::ExtraChannelInfo], entries: &[Entry], g: PatchGeo,
    old: &[[[f32; W]; H]; N], refs: &[[[f32; RW]; RH]; N], c: usize, px: usize, py: usize,
) -> f32 {
    let entry = entries[if c < color_channels { 0 } else { 1 + (c - color_channels) }];
    let uses_alpha = entry.0 >= 4;
    let alpha_associated = if uses_alpha && !ec_info.is_empty() { Some(ec_info[entry.2 as usize].alpha_associated().unwrap_or(false)) } else { None };
    let b = spec_patch_channel_blend(entry.0 as u32, entry.1, entry.2 as usize, c, color_channels, alpha_associated);
    match spec_patch_source(g, px, py) {
        None => old[c][py][px],
        Some((sx, sy)) => {
            let (old_alpha, new_alpha) = if b.uses_alpha {
                let a = color_channels + entry.2 as usize;
                (old[a][py][px], refs[a][sy][sx])
            } else {
                (0.0, 0.0)
            };
            spec_blend_pixel(b, old[c][py][px], old_alpha, refs[c][sy][sx], new_alpha)
        }
    }
}

/// Non-alpha modes (kNone / kReplace / kAdd, symbolic per entry) on `CC` colour channels + E extra channels whose buffers
/// cover DIFFERENT rectangles (symbolic origin per channel): every channel is blended by its own entry over its own rectangle.
fn patch_channel_mapping_contract<const W: usize, const H: usize, const RW: usize, const RH: usize, const N: usize, const E: usize, const NB: usize>(color_channels: usize) {
    assert!(N == color_channels + E && NB == E + 1);
    let ec_info: [jxl_image::ExtraChannelInfo; E] = core::array::from_fn(|i| if i == 0 { alpha_channel_info(kani::any()) } else { depth_channel_info() });
    let ih = image_header_with_extra(ec_info.clone());
    let canvas_regions: [Region; N] = core::array::from_fn(|_| region_at(small_i32(-3, 3), small_i32(-3, 3), W, H));
    let ref_regions: [Region; N] = core::array::from_fn(|_| region_at(0, 0, RW, RH));
    let (x0, y0) = (small_i32(0, 1) as u32, small_i32(0, 1) as u32);
    let (pw, ph) = (small_i32(1, 3) as u32, small_i32(1, 3) as u32);
    let (tx, ty) = (small_i32(-5, 5), small_i32(-5, 5));
    let entries: [Entry; NB] = core::array::from_fn(|_| (small_i32(0, 2) as u8, false, 0));

    let old: [[[f32; W]; H]; N] = finite_samples();
    let refs: [[[f32; RW]; RH]; N] = finite_samples();
    let mut canvas = float_image(color_channels, &old, &canvas_regions);
    let reference = float_image(color_channels, &refs, &ref_regions);
    let mut infos = ManuallyDrop::new(entries.map(entry_of));
    let mut targets = ManuallyDrop::new([PatchTarget { x: tx, y: ty, blending: stack_vec(&mut infos) }]);
    let patch_ref = PatchRef { ref_idx: 0, x0, y0, width: pw, height: ph, patch_targets: stack_vec(&mut targets) };

    let r = patch(&ih, &mut canvas, &reference, &patch_ref);
    assert!(r.is_ok(), "[C05,C01] patch() on float buffers has no failure path");

    let c = small_i32(0, N as i8 - 1) as usize;
    let (px, py) = (small_i32(0, W as i8 - 1) as usize, small_i32(0, H as i8 - 1) as usize);
    let g = PatchGeo { canvas: canvas_regions[c], reference: ref_regions[c], src: (x0 as i64, y0 as i64), size: (pw as i64, ph as i64), target: (tx as i64, ty as i64) };
    let expect = spec_patched_sample(color_channels, &ec_info, &entries, g, &old, &refs, c, px, py);
    assert!(same_f32(sample_of(&canvas, c, px, py), expect),
        "[C05] every channel is blended by its own entry (colour channels: blending[0], extra channel i: blending[1 + i]) over its own rectangle; kNone and samples outside the target are kept");
    assert!(canvas.regions_and_shifts()[c].0 == canvas_regions[c] && canvas.color_channels() == color_channels && canvas.channels() == N, "[C05] the canvas keeps its rectangles and channel list");

    let painted = spec_patch_source(g, px, py).is_some();
    let entry_of_c = entries[if c < color_channels { 0 } else { 1 + (c - color_channels) }].0;
    kani::cover!(painted && c == N - 1 && entry_of_c == 2 && entries[0].0 == 1);
    kani::cover!(painted && c == 0 && entry_of_c == 1 && entries[NB - 1].0 == 0);
    kani::cover!(painted && c == color_channels && entry_of_c == 0 && entries[0].0 == 2);
    kani::cover!(!painted && c == N - 1 && canvas_regions[c].left != canvas_regions[0].left && spec_patch_source(PatchGeo { canvas: canvas_regions[0], ..g }, px, py).is_some());
    std::mem::forget(r);
    std::mem::forget(canvas);
    std::mem::forget(reference);
    std::mem::forget(patch_ref);
}

/// grey + alpha + depth
#[kani::proof]
#[kani::unwind(4)]
#[kani::stub(blend_single, blend_single_model)]
#[kani::stub(ImageBuffer::convert_to_float_modular, convert_float_only_model)]
fn patch_channel_mapping_gray() {
    patch_channel_mapping_contract::<2, 2, 2, 2, 3, 2, 3>(1);
}

/// RGB + alpha
#[kani::proof]
#[kani::unwind(5)]
#[kani::stub(blend_single, blend_single_model)]
#[kani::stub(ImageBuffer::convert_to_float_modular, convert_float_only_model)]
fn patch_channel_mapping_rgb() {
    patch_channel_mapping_contract::<2, 1, 2, 1, 4, 1, 2>(3);
}

/// Alpha modes. Grey + [depth, ALPHA, depth]: an extra channel before and one after the alpha channel. The colour entry and the
/// two depth entries are alpha modes (kBlendAbove / kBlendBelow / kMulAddAbove / kMulAddBelow, symbolic) naming the alpha
/// channel; the alpha channel's own entry is ANY of the 8 modes when `alpha_entry_any`, else kNone (the alpha channel is kept).
/// All channels share one rectangle. Alpha samples are 0 or 1 (the points where the formulas are exact in binary32, see
/// "Arithmetic kernels"), the other samples |v| <= 2^40.
fn patch_alpha_planes_contract<const W: usize, const H: usize>(alpha_entry_any: bool) {
    const N: usize = 4;
    const ALPHA: usize = 1; // index among the extra channels
    let associated: bool = kani::any();
    let ec_info = [depth_channel_info(), alpha_channel_info(associated), depth_channel_info()];
    let ih = image_header_with_extra(ec_info.clone());
    let canvas_region = region_at(small_i32(-2, 2), small_i32(-2, 2), W, H);
    let ref_region = region_at(0, 0, W, H);
    let (x0, y0) = (small_i32(0, 1) as u32, 0u32);
    let (pw, ph) = (small_i32(1, 2) as u32, small_i32(1, 2) as u32);
    let (tx, ty) = (small_i32(-3, 3), small_i32(-3, 3));
    let alpha_mode = || (small_i32(4, 7) as u8, kani::any::<bool>(), ALPHA as u32);
    let own = if alpha_entry_any { (small_i32(0, 7) as u8, kani::any::<bool>(), ALPHA as u32) } else { (0u8, false, ALPHA as u32) };
    let entries: [Entry; 4] = [alpha_mode(), alpha_mode(), own, alpha_mode()];

    let old: [[[f32; W]; H]; N] = finite_samples();
    let refs: [[[f32; W]; H]; N] = finite_samples();
    let mut c = 0;
    while c < N {
        let mut y = 0;
        while y < H {
            let mut x = 0;
            while x < W {
                if c == 1 + ALPHA {
                    kani::assume((old[c][y][x] == 0.0 || old[c][y][x] == 1.0) && (refs[c][y][x] == 0.0 || refs[c][y][x] == 1.0));
                } else {
                    kani::assume(old[c][y][x].abs() <= 1_099_511_627_776.0 && refs[c][y][x].abs() <= 1_099_511_627_776.0);
                }
                x += 1;
            }
            y += 1;
        }
        c += 1;
    }
    let mut canvas = float_image(1, &old, &[canvas_region; N]);
    let reference = float_image(1, &refs, &[ref_region; N]);
    let mut infos = ManuallyDrop::new(entries.map(entry_of));
    let mut targets = ManuallyDrop::new([PatchTarget { x: tx, y: ty, blending: stack_vec(&mut infos) }]);
    let patch_ref = PatchRef { ref_idx: 0, x0, y0, width: pw, height: ph, patch_targets: stack_vec(&mut targets) };

    let r = patch(&ih, &mut canvas, &reference, &patch_ref);
    assert!(r.is_ok(), "[C05,C01] patch() on float buffers has no failure path");

    let c = small_i32(0, N as i8 - 1) as usize;
    let (px, py) = (small_i32(0, W as i8 - 1) as usize, small_i32(0, H as i8 - 1) as usize);
    let g = PatchGeo { canvas: canvas_region, reference: ref_region, src: (x0 as i64, y0 as i64), size: (pw as i64, ph as i64), target: (tx as i64, ty as i64) };
    let expect = spec_patched_sample(1, &ec_info, &entries, g, &old, &refs, c, px, py);
    let got = sample_of(&canvas, c, px, py);
    if c == 3 {
        assert!(same_f32(got, expect),
            "[C05] an extra channel AFTER the alpha channel is blended with the alpha of the canvas before the target was applied and the alpha of the patch at the source position");
    } else {
        assert!(same_f32(got, expect),
            "[C05] colour channels, extra channels before the alpha channel and the alpha channel itself are blended with the alpha planes of the canvas (at the sample) and of the patch (at the source position)");
    }
    let painted = spec_patch_source(g, px, py).is_some();
    kani::cover!(painted && c == 0 && entries[0].0 == 5 && old[2][py][px] == 1.0 && got != old[0][py][px]);
    kani::cover!(painted && c == 1 && entries[1].0 == 6 && got != old[1][py][px]);
    kani::cover!(painted && c == 3 && entries[3].0 == 4 && associated && got != old[3][py][px]);
    kani::cover!(painted && c == 2 && got != old[2][py][px]);
    kani::cover!(!painted && tx > canvas_region.left);
    std::mem::forget(r);
    std::mem::forget(canvas);
    std::mem::forget(reference);
    std::mem::forget(patch_ref);
}

#[kani::proof]
#[kani::unwind(5)]
#[kani::stub(blend_single, blend_single_model)]
#[kani::stub(ImageBuffer::convert_to_float_modular, convert_float_only_model)]
fn patch_alpha_planes_alpha_kept() {
    patch_alpha_planes_contract::<2, 1>(false);
}

#[kani::proof]
#[kani::unwind(5)]
#[kani::stub(blend_single, blend_single_model)]
#[kani::stub(ImageBuffer::convert_to_float_modular, convert_float_only_model)]
fn patch_alpha_planes_alpha_blended() {
    patch_alpha_planes_contract::<2, 1>(true);
}

/// Two targets of one PatchRef, kAdd (not idempotent): the second target is applied to the result of the first.
#[kani::proof]
#[kani::unwind(4)]
#[kani::stub(blend_single, blend_single_model)]
#[kani::stub(ImageBuffer::convert_to_float_modular, convert_float_only_model)]
fn patch_two_targets() {
    const W: usize = 3;
    const H: usize = 2;
    const RW: usize = 2;
    const RH: usize = 2;
    let ih = image_header_with_extra([]);
    let canvas_region = region_at(small_i32(-2, 2), small_i32(-2, 2), W, H);
    let ref_region = region_at(0, 0, RW, RH);
    let (x0, y0) = (small_i32(0, 1) as u32, small_i32(0, 1) as u32);
    let (pw, ph) = (small_i32(1, 2) as u32, small_i32(1, 2) as u32);
    kani::assume(x0 + pw <= RW as u32 && y0 + ph <= RH as u32);
    let t1 = (small_i32(-4, 5), small_i32(-4, 4));
    let t2 = (small_i32(-4, 5), small_i32(-4, 4));
    let old: [[[f32; W]; H]; 1] = finite_samples();
    let refs: [[[f32; RW]; RH]; 1] = finite_samples();
    let mut canvas = float_image(1, &old, &[canvas_region]);
    let reference = float_image(1, &refs, &[ref_region]);
    let mut infos1 = ManuallyDrop::new([entry_of((2, false, 0))]);
    let mut infos2 = ManuallyDrop::new([entry_of((2, false, 0))]);
    let mut targets = ManuallyDrop::new([
        PatchTarget { x: t1.0, y: t1.1, blending: stack_vec(&mut infos1) },
        PatchTarget { x: t2.0, y: t2.1, blending: stack_vec(&mut infos2) },
    ]);
    let patch_ref = PatchRef { ref_idx: 0, x0, y0, width: pw, height: ph, patch_targets: stack_vec(&mut targets) };
    let r = patch(&ih, &mut canvas, &reference, &patch_ref);
    assert!(r.is_ok(), "[C05,C01] patch() on float buffers has no failure path");

    let (px, py) = (small_i32(0, W as i8 - 1) as usize, small_i32(0, H as i8 - 1) as usize);
    let g1 = PatchGeo { canvas: canvas_region, reference: ref_region, src: (x0 as i64, y0 as i64), size: (pw as i64, ph as i64), target: (t1.0 as i64, t1.1 as i64) };
    let g2 = PatchGeo { target: (t2.0 as i64, t2.1 as i64), ..g1 };
    let after1 = match spec_patch_source(g1, px, py) {
        Some((sx, sy)) => old[0][py][px] + refs[0][sy][sx],
        None => old[0][py][px],
    };
    let after2 = match spec_patch_source(g2, px, py) {
        Some((sx, sy)) => after1 + refs[0][sy][sx],
        None => after1,
    };
    assert!(same_f32(sample_of(&canvas, 0, px, py), after2), "[C05] the targets of a patch are applied one after the other, each at its own position");
    kani::cover!(spec_patch_source(g1, px, py).is_some() && spec_patch_source(g2, px, py).is_some() && t1 != t2);
    kani::cover!(spec_patch_source(g1, px, py).is_some() && spec_patch_source(g2, px, py).is_none());
    kani::cover!(spec_patch_source(g1, px, py).is_none() && spec_patch_source(g2, px, py).is_some());
    std::mem::forget(r);
    std::mem::forget(canvas);
    std::mem::forget(reference);
    std::mem::forget(patch_ref);
}

// ---- totality: everything Patches::parse lets through ---------------------------------------------------------------
// NOT REGISTERED: both harnesses FAIL on the unchanged tree (reported as findings, see the unit report):
//   patch_total_coordinates: `attempt to subtract with overflow` at blend.rs:445/446 (target_patch_region.left - target.x with an
//     empty intersection, e.g. x = i32::MIN) and `attempt to add with overflow` at blend.rs:449/450 (x0 as i32 + left, e.g.
//     x0 = i32::MAX, x = -1, width 2) -- panics in overflow-checked builds; the tagged asserts hold with wrapping arithmetic.
//   patch_total_alpha_mode_without_extra_channels: index out of bounds at blend.rs:492 (`ec_info[alpha_idx]` on an image
//     without extra channels, patch blend mode 4..7) -- a panic in every build.
/// x0, y0, width, height ANY u32 (width, height >= 1), x, y ANY i32 (patch.rs:128-168 reads them as unchecked varints);
/// canvas rectangle anywhere within the frame size limit, reference at the frame origin. kReplace, one channel.
#[kani::proof]
#[kani::unwind(3)]
#[kani::stub(blend_single, blend_single_model)]
#[kani::stub(ImageBuffer::convert_to_float_modular, convert_float_only_model)]
fn patch_total_coordinates() {
    const W: usize = 2;
    const H: usize = 2;
    let ih = image_header_with_extra([]);
    let canvas_region = region_at(coord_i32(), coord_i32(), W, H);
    let ref_region = region_at(0, 0, W, H);
    let (x0, y0, pw, ph): (u32, u32, u32, u32) = (kani::any(), kani::any(), kani::any(), kani::any());
    kani::assume(pw >= 1 && ph >= 1);
    let (tx, ty): (i32, i32) = (kani::any(), kani::any());
    let old: [[[f32; W]; H]; 1] = finite_samples();
    let refs: [[[f32; W]; H]; 1] = finite_samples();
    let mut canvas = float_image(1, &old, &[canvas_region]);
    let reference = float_image(1, &refs, &[ref_region]);
    let mut infos = ManuallyDrop::new([entry_of((1, false, 0))]);
    let mut targets = ManuallyDrop::new([PatchTarget { x: tx, y: ty, blending: stack_vec(&mut infos) }]);
    let patch_ref = PatchRef { ref_idx: 0, x0, y0, width: pw, height: ph, patch_targets: stack_vec(&mut targets) };
    let r = patch(&ih, &mut canvas, &reference, &patch_ref);
    assert!(r.is_ok(), "[C01] patch() on float buffers has no failure path");
    // samples that are not under the target rectangle are kept, whatever the coordinates are
    let (px, py) = (small_i32(0, W as i8 - 1) as usize, small_i32(0, H as i8 - 1) as usize);
    let (x, y) = (canvas_region.left as i64 + px as i64, canvas_region.top as i64 + py as i64);
    let under = tx as i64 <= x && x < tx as i64 + pw as i64 && ty as i64 <= y && y < ty as i64 + ph as i64;
    if !under {
        assert!(sample_of(&canvas, 0, px, py).to_bits() == old[0][py][px].to_bits(), "[C05] canvas samples outside the patch target are unchanged");
    }
    kani::cover!(under && sample_of(&canvas, 0, px, py).to_bits() != old[0][py][px].to_bits());
    kani::cover!(!under);
    std::mem::forget(r);
    std::mem::forget(canvas);
    std::mem::forget(reference);
    std::mem::forget(patch_ref);
}

/// An alpha patch mode (4..7) on an image WITHOUT extra channels: Patches::parse accepts it (alpha_channel defaults to 0,
/// patch.rs:165-169). There is no alpha, so kBlend* degenerates to kReplace and kMulAdd* to kAdd (spec/blend.rs).
#[kani::proof]
#[kani::unwind(3)]
#[kani::stub(blend_single, blend_single_model)]
#[kani::stub(ImageBuffer::convert_to_float_modular, convert_float_only_model)]
fn patch_total_alpha_mode_without_extra_channels() {
    const W: usize = 2;
    const H: usize = 1;
    let ih = image_header_with_extra([]);
    let region = region_at(0, 0, W, H);
    let old: [[[f32; W]; H]; 1] = finite_samples();
    let refs: [[[f32; W]; H]; 1] = finite_samples();
    let mut canvas = float_image(1, &old, &[region]);
    let reference = float_image(1, &refs, &[region]);
    let entry: Entry = (small_i32(4, 7) as u8, kani::any(), 0);
    let mut infos = ManuallyDrop::new([entry_of(entry)]);
    let mut targets = ManuallyDrop::new([PatchTarget { x: 0, y: 0, blending: stack_vec(&mut infos) }]);
    let patch_ref = PatchRef { ref_idx: 0, x0: 0, y0: 0, width: 2, height: 1, patch_targets: stack_vec(&mut targets) };
    // must return (the totality obligation: no index out of bounds on ec_info[alpha_idx]); an alpha blend mode that names a
    // non-existent alpha channel is rejected with an error since the fix, and if a future version blends instead, it must do so
    // as the standard says for a missing alpha (kBlend* acts as kReplace, kMulAdd* as kAdd)
    let r = patch(&ih, &mut canvas, &reference, &patch_ref);
    if r.is_ok() {
        let px = small_i32(0, 1) as usize;
        let g = PatchGeo { canvas: region, reference: region, src: (0, 0), size: (2, 1), target: (0, 0) };
        let expect = spec_patched_sample(1, &[], &[entry], g, &old, &refs, 0, px, 0);
        assert!(same_f32(sample_of(&canvas, 0, px, 0), expect), "[C05] without extra channels kBlend* acts as kReplace and kMulAdd* as kAdd");
    }
    kani::cover!(entry.0 == 6);
    std::mem::forget(r);
    std::mem::forget(canvas);
    std::mem::forget(reference);
    std::mem::forget(patch_ref);
}
