// Contracts for the per-frame render handle protocol (crates/jxl-render/src/state.rs, image.rs) -- C08.
//
// Typestate invariant  Inv(h):  the handle's state is not `Rendering` while no call is in progress.
// Contract of every entry point  op in {run_with_image, run, RenderedImage::blend, try_take_blended, reset}:
//      requires Inv(h)        ensures Inv(h) on every return, Ok or Err,
//      and Condvar::wait is never reached (single caller: waiting means waiting for nobody = wedge).
// By induction over call sequences a handle that satisfies Inv is never wedged by a failed render.
//
// Assumed contracts (kani::stub, listed in evidence): the renderer behind `render_op`, `composite`
// and `composite_preprocess` may return any Ok/Err and do not touch the handle; `Frame::image_header`
// returns some header; Condvar::notify_all is a no-op for a single caller.
use super::*;
use crate::state::{FrameRender, FrameRenderHandle, RenderCache, RenderOp};
use std::sync::{Arc, Condvar, LockResult, Mutex, MutexGuard};

type S = i32;

fn stub_wait<'a, T>(_cv: &Condvar, _guard: MutexGuard<'a, T>) -> LockResult<MutexGuard<'a, T>> {
    panic!("[C08] Condvar::wait reached: the caller waits for a frame that nobody is rendering (wedged handle)");
}
fn stub_notify_all(_cv: &Condvar) {}

fn any_error() -> crate::Error {
    match kani::any::<u8>() % 4 {
        0 => crate::Error::IncompleteFrame,
        1 => crate::Error::FailedReference,
        2 => crate::Error::NotReady,
        _ => crate::Error::InvalidReference(kani::any()),
    }
}

fn stub_composite<T: Sample>(
    _frame: &IndexedFrame,
    _grid: &mut ImageWithRegion,
    _refs: [Option<crate::Reference<T>>; 4],
    _oriented_image_region: Region,
    _pool: &JxlThreadPool,
) -> Result<()> {
    // the references are handed over by value; not dropping them here keeps CBMC from exploring the drop glue of
    // Arc<IndexedFrame> (a whole Frame) for each of the four (always-None) slots
    std::mem::forget(_refs);
    if kani::any() { Ok(()) } else { Err(crate::Error::NotReady) }
}

/// Which outcome the composite_preprocess stub produces: 0 = any (symbolic), 1 = Ok(true) (no composition needed),
/// 2 = Ok(false) (composition follows), 3 = Err. The Done-state blend harness is split by this outcome because the
/// all-in-one version exceeds the memory budget; together the instantiations cover every outcome.
// (Kani 0.68 pitfall: a `static mut` whose initial bytes equal some other constant may share storage with it, so the
//  initial value is a unique 8-byte pattern and the modes are offsets from it.)
const PRE_BASE: u64 = 0x5052_455f_4d4f_4400;
static mut PRE_MODE: u64 = PRE_BASE;

fn stub_composite_preprocess(_frame: &IndexedFrame, _grid: &mut ImageWithRegion, _pool: &JxlThreadPool) -> Result<bool> {
    match unsafe { PRE_MODE } - PRE_BASE {
        1 => Ok(true),
        2 => Ok(false),
        // a fixed error value: Result<bool, Error> keeps its Ok/Err discriminant in a niche of the error's tag, so a
        // symbolic error variant would make CBMC explore the Ok continuation as well
        3 => Err(crate::Error::NotReady),
        _ => if kani::any() { Ok(kani::any()) } else { Err(crate::Error::NotReady) },
    }
}

fn stub_image_header(_f: &jxl_frame::Frame) -> &jxl_image::ImageHeader {
    // never inspected by the protocol code once composite/composite_preprocess are stubbed
    static HDR: std::mem::MaybeUninit<jxl_image::ImageHeader> = std::mem::MaybeUninit::uninit();
    unsafe { &*HDR.as_ptr() }
}

fn image() -> ImageWithRegion {
    ImageWithRegion::new(3, None)
}

/// `Arc<FrameRenderHandle>` backed by a stack object. CBMC does not terminate on this struct when it lives
/// in a heap allocation (measured: Box/Arc > 4 min, stack 5 s), so the harness lays out std's
/// `#[repr(C)] ArcInner { strong, weak, data }` by hand and never frees it. The handle itself is the real type.
#[repr(C)]
struct StackArcInner<T> {
    strong: std::sync::atomic::AtomicUsize,
    weak: std::sync::atomic::AtomicUsize,
    data: T,
}

/// A handle in any state satisfying Inv. The frame is an opaque token for the protocol code: every
/// function that would look inside it is stubbed, so it is left uninitialised and never dropped.
fn any_handle(state: u8) -> StackArcInner<FrameRenderHandle<S>> {
    let frame: Arc<IndexedFrame> = unsafe {
        Arc::from_raw(Arc::into_raw(Arc::new(std::mem::MaybeUninit::<IndexedFrame>::uninit())) as *const IndexedFrame)
    };
    let render: FrameRender<S> = match state {
        0 => FrameRender::None,
        1 => FrameRender::Done(image()),
        2 => FrameRender::Blended(Arc::new(image())),
        3 => FrameRender::Err(any_error()),
        _ => FrameRender::ErrTaken,
    };
    let outcome: u8 = kani::any();
    let render_op: RenderOp<S> = Arc::new(move |_state, _region| match outcome % 3 {
        0 => FrameRender::Done(image()),
        1 => FrameRender::Err(crate::Error::IncompleteFrame),
        _ => FrameRender::None, // "still incomplete": the renderer hands the (empty) progress back
    });
    StackArcInner {
        strong: std::sync::atomic::AtomicUsize::new(1),
        weak: std::sync::atomic::AtomicUsize::new(1),
        data: FrameRenderHandle {
            frame,
            image_region: Region::with_size(8, 8),
            render: Mutex::new(render),
            condvar: Condvar::new(),
            render_op,
            refs: [None, None, None, None],
        },
    }
}

fn arc_of(inner: &StackArcInner<FrameRenderHandle<S>>) -> Arc<FrameRenderHandle<S>> {
    unsafe { Arc::from_raw(&inner.data as *const _) }
}

fn not_rendering(h: &FrameRenderHandle<S>) -> bool {
    !matches!(&*h.render.lock().unwrap(), FrameRender::Rendering)
}

// CBMC does not terminate with a symbolic initial state (the enum's variants own very different heap
// shapes); each of the five states satisfying Inv is therefore a separate instantiation -- together they
// are exhaustive.  0 None, 1 Done, 2 Blended, 3 Err(e), 4 ErrTaken.  (InProgress(cache) behaves as None in
// every match arm of the protocol code; building a RenderCache needs a HashMap, which CBMC cannot afford.)
// Unwind bounds: the protocol code has one loop (wait_until_render) whose every iteration returns or waits, so no
// back edge is taken: unwind(1) suffices and keeps CBMC from unrolling the (infeasible, but symbolically
// explored) drop glue of FrameRender::InProgress. blend() additionally clones and drops the 4-element reference
// array (4 back edges each): those two loops get a per-loop bound of 5 through the registry's `unwindset`
// (a global unwind(5) would unroll every nested drop-glue loop five times: > 25 min).
macro_rules! handle_contract {
    ($name:ident, $st:expr, |$h:ident| $body:block) => { handle_contract!($name, $st, 1, |$h| $body); };
    ($name:ident, $st:expr, $unwind:expr, |$h:ident| $body:block) => {
        #[kani::proof]
        #[kani::unwind($unwind)]
        #[kani::stub(std::sync::Condvar::wait, stub_wait)]
        #[kani::stub(std::sync::Condvar::notify_all, stub_notify_all)]
        #[kani::stub(jxl_frame::Frame::image_header, stub_image_header)]
        #[kani::stub(composite, stub_composite)]
        #[kani::stub(composite_preprocess, stub_composite_preprocess)]
        fn $name() {
            let inner = any_handle($st);
            let $h = arc_of(&inner);
            $body;
            std::mem::forget($h);
            std::mem::forget(inner);
        }
    };
}

macro_rules! run_with_image_contract {
    ($name:ident, $st:expr) => {
        handle_contract!($name, $st, |h| {
            let r = Arc::clone(&h).run_with_image();
            assert!(not_rendering(&h), "[C08] run_with_image leaves the handle in a final (non-Rendering) state on Ok and on Err");
            kani::cover!($st != 0 || r.is_ok());
            kani::cover!($st != 0 || r.is_err());
            std::mem::forget(r);
        });
    };
}
run_with_image_contract!(handle_rwi_none, 0);
run_with_image_contract!(handle_rwi_done, 1);
run_with_image_contract!(handle_rwi_blended, 2);
run_with_image_contract!(handle_rwi_err, 3);
run_with_image_contract!(handle_rwi_errtaken, 4);

macro_rules! run_contract {
    ($name:ident, $st:expr) => {
        handle_contract!($name, $st, |h| {
            h.run(Region::with_size(8, 8));
            assert!(not_rendering(&h), "[C08] run leaves the handle in a final (non-Rendering) state");
        });
    };
}
run_contract!(handle_run_none, 0);
run_contract!(handle_run_done, 1);
run_contract!(handle_run_blended, 2);
run_contract!(handle_run_err, 3);
run_contract!(handle_run_errtaken, 4);

macro_rules! blend_contract {
    ($name:ident, $st:expr) => {
        handle_contract!($name, $st, 1, |h| {
            let img = RenderedImage::new(Arc::clone(&h));
            let pool = JxlThreadPool::none();
            let r = img.blend(Some(Region::with_size(8, 8)), &pool);
            assert!(not_rendering(&h), "[C08] blend leaves the handle in a final (non-Rendering) state on Ok and on Err (a failed composite must not wedge the frame)");
            kani::cover!($st != 1 || r.is_ok());
            kani::cover!($st != 1 || r.is_err());
            std::mem::forget(r);
            std::mem::forget(img);
        });
    };
}
blend_contract!(handle_blend_none, 0);
// state Done, split by the outcome of composite_preprocess (see PRE_MODE)
macro_rules! blend_done_contract {
    ($name:ident, $mode:expr) => {
        handle_contract!($name, 1, 1, |h| {
            unsafe { PRE_MODE = PRE_BASE + $mode; }
            let img = RenderedImage::new(Arc::clone(&h));
            let pool = JxlThreadPool::none();
            let r = img.blend(Some(Region::with_size(8, 8)), &pool);
            assert!(not_rendering(&h), "[C08] blend leaves the handle in a final (non-Rendering) state on Ok and on Err (a failed composite must not wedge the frame)");
            if r.is_err() {
                // "any later call that succeeds yields exactly the samples of a decode that never failed": a failed blend must be
                // remembered as a failure, never published as a finished (Done / Blended) image that later calls would return
                assert!(matches!(&*h.render.lock().unwrap(), FrameRender::ErrTaken | FrameRender::Err(_) | FrameRender::None),
                    "[C08] a failed blend is not published as a finished image");
            } else {
                assert!(matches!(&*h.render.lock().unwrap(), FrameRender::Blended(_)), "[C08] a successful blend publishes the blended image");
            }
            kani::cover!($mode == 3 || r.is_ok());
            kani::cover!($mode == 1 || r.is_err());
            std::mem::forget(r);
            std::mem::forget(img);
        });
    };
}
blend_done_contract!(handle_blend_done_skip, 1);
blend_done_contract!(handle_blend_done_composite, 2);
blend_done_contract!(handle_blend_done_preerr, 3);
blend_contract!(handle_blend_blended, 2);
blend_contract!(handle_blend_err, 3);
blend_contract!(handle_blend_errtaken, 4);

macro_rules! take_reset_contract {
    ($name:ident, $st:expr) => {
        handle_contract!($name, $st, |h| {
            let img = RenderedImage::new(Arc::clone(&h));
            let t = img.try_take_blended();
            assert!(not_rendering(&h), "[C08] try_take_blended keeps a final state");
            if $st != 2 { assert!(t.is_none(), "[C08] only a blended frame can be taken"); }
            let old = h.reset();
            assert!(matches!(&*h.render.lock().unwrap(), FrameRender::None), "[C08] reset returns the handle to None");
            std::mem::forget(old);
            std::mem::forget(t);
            std::mem::forget(img);
        });
    };
}
take_reset_contract!(handle_take_none, 0);
take_reset_contract!(handle_take_done, 1);
take_reset_contract!(handle_take_blended, 2);
take_reset_contract!(handle_take_err, 3);
take_reset_contract!(handle_take_errtaken, 4);

// ------------------------------------------------------------------------------------------------
// C13 (and the value half for C03/C15): ImageBuffer float conversions. The f32 replacement grid is charged to the
// SAME tracker as the integer source (exactly its buffer size), the source's bytes come back, exhaustion is an
// Err that leaves buffer and budget untouched, and every sample is converted by the documented rule.
// Grid 2x1 (concrete: Vec growth with symbolic lengths is out of CBMC's reach), samples and budget symbolic.
// Buffer sizes (AlignedGrid::with_alloc_tracker): (len + 31 / size_of::<S>()) * size_of::<S>().
// ------------------------------------------------------------------------------------------------
const F32_BYTES: usize = (2 + 7) * 4;

/// AlignedGrid::with_alloc_tracker ends with `buf.resize_with(len + offset, ..)`, `offset` derived from the buffer address. It
/// always truncates (the Vec was created with len + 31 / size_of::<S>() elements), but CBMC explores the "grow" branch
/// (Vec::reserve -> realloc -> copy of a symbolically sized object), which costs 15-30 GB. This model replaces Vec::reserve in the
/// ImageBuffer harnesses and ASSERTS that it is never reached, so what is verified is exactly the real code (a reached reserve
/// fails the untagged assert in this file: UNDECIDED, never "held"). Needs #![feature(allocator_api)] (crate_attrs in the registry).
fn no_reserve<T, A: core::alloc::Allocator>(_v: &mut Vec<T, A>, _additional: usize) {
    assert!(false, "harness model: no Vec growth is reachable");
    kani::assume(false);
}

fn exactly_left(t: &AllocTracker, bytes: usize) -> bool {
    // no getter for the budget: it is `bytes` iff exactly `bytes` can be taken away and then nothing more
    t.shrink_limit(bytes).is_ok() && t.shrink_limit(1).is_err()
}

macro_rules! float_conversion_contract {
    ($name:ident, $variant:ident, $ty:ty, $src_bytes:expr, $slack:expr, $convert:expr) => {
        #[kani::proof]
        #[kani::unwind(18)]
        #[kani::stub(std::vec::Vec::reserve, no_reserve)]
        fn $name() {
            // budget = source grid + f32 copy + slack, slack in {-1 (one byte short), 0 (exact fit)}: the two sides of
            // the exhaustion boundary; a symbolic budget does not close in CBMC together with the allocator paths
            let limit: usize = ($src_bytes + F32_BYTES) as usize - (if $slack { 1 } else { 0 });
            let tracker = AllocTracker::with_limit(limit);
            let Ok(mut g) = AlignedGrid::<$ty>::with_alloc_tracker(2, 1, Some(&tracker)) else { return; };
            let s0: $ty = kani::any();
            let s1: $ty = kani::any();
            g.buf_mut()[0] = s0;
            g.buf_mut()[1] = s1;
            let mut ib = ImageBuffer::$variant(g);
            let bit_depth = BitDepth::IntegerSample { bits_per_sample: 8 };
            let convert: fn(&mut ImageBuffer, BitDepth) -> bool = $convert;
            let ok = convert(&mut ib, bit_depth);
            if ok {
                assert!(limit >= $src_bytes + F32_BYTES, "[C13] the conversion succeeds only if the f32 copy fits in the remaining budget");
                let ImageBuffer::F32(out) = &ib else { panic!("[C13,C15] converted buffer is F32") };
                assert!(out.tracker().is_some(), "[C13] the converted grid stays on the source's tracker");
                assert!(exactly_left(&tracker, limit - F32_BYTES), "[C13] budget after conversion = limit - f32 buffer (source bytes returned, copy charged)");
            } else {
                assert!(limit < $src_bytes + F32_BYTES, "[C13] conversion fails only on exhaustion");
                assert!(matches!(&ib, ImageBuffer::$variant(g) if g.buf()[0] == s0 && g.buf()[1] == s1), "[C13] a failed conversion leaves the buffer unchanged");
                assert!(exactly_left(&tracker, limit - $src_bytes), "[C13] a failed conversion leaves the budget unchanged");
            }
            kani::cover!(ok == !$slack);
            std::mem::forget(ib);
        }
    };
}
float_conversion_contract!(cast_to_float_i16_fits, I16, i16, (2 + 15) * 2, false, |ib, _| ib.cast_to_float().is_ok());
float_conversion_contract!(cast_to_float_i16_short, I16, i16, (2 + 15) * 2, true, |ib, _| ib.cast_to_float().is_ok());
float_conversion_contract!(cast_to_float_i32_fits, I32, i32, (2 + 7) * 4, false, |ib, _| ib.cast_to_float().is_ok());
float_conversion_contract!(cast_to_float_i32_short, I32, i32, (2 + 7) * 4, true, |ib, _| ib.cast_to_float().is_ok());
float_conversion_contract!(convert_modular_i16_fits, I16, i16, (2 + 15) * 2, false, |ib, bd| ib.convert_to_float_modular(bd).is_ok());
float_conversion_contract!(convert_modular_i16_short, I16, i16, (2 + 15) * 2, true, |ib, bd| ib.convert_to_float_modular(bd).is_ok());
float_conversion_contract!(convert_modular_i32_fits, I32, i32, (2 + 7) * 4, false, |ib, bd| ib.convert_to_float_modular(bd).is_ok());
float_conversion_contract!(convert_modular_i32_short, I32, i32, (2 + 7) * 4, true, |ib, bd| ib.convert_to_float_modular(bd).is_ok());

macro_rules! float_conversion_values {
    ($name:ident, $variant:ident, $ty:ty) => {
        #[kani::proof]
        #[kani::unwind(18)]
        #[kani::stub(std::vec::Vec::reserve, no_reserve)]
        fn $name() {
            let Ok(mut g) = AlignedGrid::<$ty>::with_alloc_tracker(2, 1, None) else { return; };
            let s0: $ty = kani::any();
            let s1: $ty = kani::any();
            g.buf_mut()[0] = s0;
            g.buf_mut()[1] = s1;
            let bits: u32 = kani::any();
            kani::assume(bits >= 1 && bits <= 31);
            let bd = BitDepth::IntegerSample { bits_per_sample: bits };
            // a second grid with the same samples (try_clone grows a Vec, which the no_reserve model forbids)
            let Ok(mut g2) = AlignedGrid::<$ty>::with_alloc_tracker(2, 1, None) else { return; };
            g2.buf_mut()[0] = s0;
            g2.buf_mut()[1] = s1;
            let mut a = ImageBuffer::$variant(g2);
            let mut b = ImageBuffer::$variant(g);
            let fa = a.cast_to_float().unwrap();
            assert!(fa.buf()[0].to_bits() == (s0 as f32).to_bits() && fa.buf()[1].to_bits() == (s1 as f32).to_bits(),
                "[C03,C15] cast_to_float converts each integer sample to the nearest f32");
            let fb = b.convert_to_float_modular(bd).unwrap();
            assert!(fb.buf()[0].to_bits() == bd.parse_integer_sample(s0 as i32).to_bits()
                && fb.buf()[1].to_bits() == bd.parse_integer_sample(s1 as i32).to_bits(),
                "[C03,C15] convert_to_float_modular scales each sample by 1 / (2^bits - 1) (BitDepth::parse_integer_sample)");
            assert!(fa.width() == 2 && fa.height() == 1 && fb.width() == 2 && fb.height() == 1, "[C15] dimensions are kept");
        }
    };
}
float_conversion_values!(float_conversion_values_i16, I16, i16);
float_conversion_values!(float_conversion_values_i32, I32, i32);
