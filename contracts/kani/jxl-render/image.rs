// Contracts for the per-frame render handle protocol (crates/jxl-render/src/state.rs, image.rs) -- C08.
//
// Typestate invariant  Inv(h):  the handle's state is not `Rendering` while no call is in progress.
// Contract of every entry point  op in {run_with_image, run, RenderedImage::blend, try_take_blended, reset}:
//      requires Inv(h)        ensures Inv(h) on every return, Ok or Err,
//      and Condvar::wait is never reached (single caller: waiting means waiting for nobody = wedge).
// By induction over call sequences a handle that satisfies Inv is never wedged by a failed render.
//
// Assumed contracts (kani::stub, listed in evidence): the renderer behind `render_op`, `composite`
// and `composite_preprocess` may return any Ok/Err and do not touch the handle; `Frame::image_header`
// returns some header; Condvar::notify_all is a no-op for a single caller.
use super::*;
use crate::state::{FrameRender, FrameRenderHandle, RenderCache, RenderOp};
use std::sync::{Arc, Condvar, LockResult, Mutex, MutexGuard};

type S = i32;

fn stub_wait<'a, T>(_cv: &Condvar, _guard: MutexGuard<'a, T>) -> LockResult<MutexGuard<'a, T>> {
    panic!("[C08] Condvar::wait reached: the caller waits for a frame that nobody is rendering (wedged handle)");
}
fn stub_notify_all(_cv: &Condvar) {}

fn any_error() -> crate::Error {
    match kani::any::<u8>() % 4 {
        0 => crate::Error::IncompleteFrame,
        1 => crate::Error::FailedReference,
        2 => crate::Error::NotReady,
        _ => crate::Error::InvalidReference(kani::any()),
    }
}

fn stub_composite<T: Sample>(
    _frame: &IndexedFrame,
    _grid: &mut ImageWithRegion,
    _refs: [Option<crate::Reference<T>>; 4],
    _oriented_image_region: Region,
    _pool: &JxlThreadPool,
) -> Result<()> {
    // the references are handed over by value; not dropping them here keeps CBMC from exploring the drop glue of
    // Arc<IndexedFrame> (a whole Frame) for each of the four (always-None) slots
    std::mem::forget(_refs);
    if kani::any() { Ok(()) } else { Err(crate::Error::NotReady) }
}

/// Which outcome the composite_preprocess stub produces: 0 = any (symbolic), 1 = Ok(true) (no composition needed),
/// 2 = Ok(false) (composition follows), 3 = Err. The Done-state blend harness is split by this outcome because the
/// all-in-one version exceeds the memory budget; together the instantiations cover every outcome.
// (Kani 0.68 pitfall: a `static mut` whose initial bytes equal some other constant may share storage with it, so the
//  initial value is a unique 8-byte pattern and the modes are offsets from it.)
const PRE_BASE: u64 = 0x5052_455f_4d4f_4400;
static mut PRE_MODE: u64 = PRE_BASE;

fn stub_composite_preprocess(_frame: &IndexedFrame, _grid: &mut ImageWithRegion, _pool: &JxlThreadPool) -> Result<bool> {
    match unsafe { PRE_MODE } - PRE_BASE {
        1 => Ok(true),
        2 => Ok(false),
        // a fixed error value: Result<bool, Error> keeps its Ok/Err discriminant in a niche of the error's tag, so a
        // symbolic error variant would make CBMC explore the Ok continuation as well
        3 => Err(crate::Error::NotReady),
        _ => if kani::any() { Ok(kani::any()) } else { Err(crate::Error::NotReady) },
    }
}

fn stub_image_header(_f: &jxl_frame::Frame) -> &jxl_image::ImageHeader {
    // never inspected by the protocol code once composite/composite_preprocess are stubbed
    static HDR: std::mem::MaybeUninit<jxl_image::ImageHeader> = std::mem::MaybeUninit::uninit();
    unsafe { &*HDR.as_ptr() }
}

fn image() -> ImageWithRegion {
    ImageWithRegion::new(3, None)
}

/// `Arc<FrameRenderHandle>` backed by a stack object. CBMC does not terminate on this struct when it lives
/// in a heap allocation (measured: Box/Arc > 4 min, stack 5 s), so the harness lays out std's
/// `#[repr(C)] ArcInner { strong, weak, data }` by hand and never frees it. The handle itself is the real type.
#[repr(C)]
struct StackArcInner<T> {
    strong: std::sync::atomic::AtomicUsize,
    weak: std::sync::atomic::AtomicUsize,
    data: T,
}

/// A handle in any state satisfying Inv. The frame is an opaque token for the protocol code: every
/// function that would look inside it is stubbed, so it is left uninitialised and never dropped.
fn any_handle(state: u8) -> StackArcInner<FrameRenderHandle<S>> {
    let frame: Arc<IndexedFrame> = unsafe {
        Arc::from_raw(Arc::into_raw(Arc::new(std::mem::MaybeUninit::<IndexedFrame>::uninit())) as *const IndexedFrame)
    };
    let render: FrameRender<S> = match state {
        0 => FrameRender::None,
        1 => FrameRender::Done(image()),
        2 => FrameRender::Blended(Arc::new(image())),
        3 => FrameRender::Err(any_error()),
        _ => FrameRender::ErrTaken,
    };
    let outcome: u8 = kani::any();
    let render_op: RenderOp<S> = Arc::new(move |_state, _region| match outcome % 3 {
        0 => FrameRender::Done(image()),
        1 => FrameRender::Err(crate::Error::IncompleteFrame),
        _ => FrameRender::None, // "still incomplete": the renderer hands the (empty) progress back
    });
    StackArcInner {
        strong: std::sync::atomic::AtomicUsize::new(1),
        weak: std::sync::atomic::AtomicUsize::new(1),
        data: FrameRenderHandle {
            frame,
            image_region: Region::with_size(8, 8),
            render: Mutex::new(render),
            condvar: Condvar::new(),
            render_op,
            refs: [None, None, None, None],
        },
    }
}

fn arc_of(inner: &StackArcInner<FrameRenderHandle<S>>) -> Arc<FrameRenderHandle<S>> {
    unsafe { Arc::from_raw(&inner.data as *const _) }
}

fn not_rendering(h: &FrameRenderHandle<S>) -> bool {
    !matches!(&*h.render.lock().unwrap(), FrameRender::Rendering)
}

// CBMC does not terminate with a symbolic initial state (the enum's variants own very different heap
// shapes); each of the five states satisfying Inv is therefore a separate instantiation -- together they
// are exhaustive.  0 None, 1 Done, 2 Blended, 3 Err(e), 4 ErrTaken.  (InProgress(cache) behaves as None in
// every match arm of the protocol code; building a RenderCache needs a HashMap, which CBMC cannot afford.)
// Unwind bounds: the protocol code has one loop (wait_until_render) whose every iteration returns or waits, so no
// back edge is taken: unwind(1) suffices and keeps CBMC from unrolling the (infeasible, but symbolically
// explored) drop glue of FrameRender::InProgress. blend() additionally clones and drops the 4-element reference
// array (4 back edges each): those two loops get a per-loop bound of 5 through the registry's `unwindset`
// (a global unwind(5) would unroll every nested drop-glue loop five times: > 25 min).
macro_rules! handle_contract {
    ($name:ident, $st:expr, |$h:ident| $body:block) => { handle_contract!($name, $st, 1, |$h| $body); };
    ($name:ident, $st:expr, $unwind:expr, |$h:ident| $body:block) => {
        #[kani::proof]
        #[kani::unwind($unwind)]
        #[kani::stub(std::sync::Condvar::wait, stub_wait)]
        #[kani::stub(std::sync::Condvar::notify_all, stub_notify_all)]
        #[kani::stub(jxl_frame::Frame::image_header, stub_image_header)]
        #[kani::stub(composite, stub_composite)]
        #[kani::stub(composite_preprocess, stub_composite_preprocess)]
        fn $name() {
            let inner = any_handle($st);
            let $h = arc_of(&inner);
            $body;
            std::mem::forget($h);
            std::mem::forget(inner);
        }
    };
}

macro_rules! run_with_image_contract {
    ($name:ident, $st:expr) => {
        handle_contract!($name, $st, |h| {
            let r = Arc::clone(&h).run_with_image();
            assert!(not_rendering(&h), "[C08] run_with_image leaves the handle in a final (non-Rendering) state on Ok and on Err");
            kani::cover!($st != 0 || r.is_ok());
            kani::cover!($st != 0 || r.is_err());
            std::mem::forget(r);
        });
    };
}
run_with_image_contract!(handle_rwi_none, 0);
run_with_image_contract!(handle_rwi_done, 1);
run_with_image_contract!(handle_rwi_blended, 2);
run_with_image_contract!(handle_rwi_err, 3);
run_with_image_contract!(handle_rwi_errtaken, 4);

macro_rules! run_contract {
    ($name:ident, $st:expr) => {
        handle_contract!($name, $st, |h| {
            h.run(Region::with_size(8, 8));
            assert!(not_rendering(&h), "[C08] run leaves the handle in a final (non-Rendering) state");
        });
    };
}
run_contract!(handle_run_none, 0);
run_contract!(handle_run_done, 1);
run_contract!(handle_run_blended, 2);
run_contract!(handle_run_err, 3);
run_contract!(handle_run_errtaken, 4);

macro_rules! blend_contract {
    ($name:ident, $st:expr) => {
        handle_contract!($name, $st, 1, |h| {
            let img = RenderedImage::new(Arc::clone(&h));
            let pool = JxlThreadPool::none();
            let r = img.blend(Some(Region::with_size(8, 8)), &pool);
            assert!(not_rendering(&h), "[C08] blend leaves the handle in a final (non-Rendering) state on Ok and on Err (a failed composite must not wedge the frame)");
            kani::cover!($st != 1 || r.is_ok());
            kani::cover!($st != 1 || r.is_err());
            std::mem::forget(r);
            std::mem::forget(img);
        });
    };
}
blend_contract!(handle_blend_none, 0);
// state Done, split by the outcome of composite_preprocess (see PRE_MODE)
macro_rules! blend_done_contract {
    ($name:ident, $mode:expr) => {
        handle_contract!($name, 1, 1, |h| {
            unsafe { PRE_MODE = PRE_BASE + $mode; }
            let img = RenderedImage::new(Arc::clone(&h));
            let pool = JxlThreadPool::none();
            let r = img.blend(Some(Region::with_size(8, 8)), &pool);
            assert!(not_rendering(&h), "[C08] blend leaves the handle in a final (non-Rendering) state on Ok and on Err (a failed composite must not wedge the frame)");
            if r.is_err() {
                // "any later call that succeeds yields exactly the samples of a decode that never failed": a failed blend must be
                // remembered as a failure, never published as a finished (Done / Blended) image that later calls would return
                assert!(matches!(&*h.render.lock().unwrap(), FrameRender::ErrTaken | FrameRender::Err(_) | FrameRender::None),
                    "[C08] a failed blend is not published as a finished image");
            } else {
                assert!(matches!(&*h.render.lock().unwrap(), FrameRender::Blended(_)), "[C08] a successful blend publishes the blended image");
            }
            kani::cover!($mode == 3 || r.is_ok());
            kani::cover!($mode == 1 || r.is_err());
            std::mem::forget(r);
            std::mem::forget(img);
        });
    };
}
blend_done_contract!(handle_blend_done_skip, 1);
blend_done_contract!(handle_blend_done_composite, 2);
blend_done_contract!(handle_blend_done_preerr, 3);
blend_contract!(handle_blend_blended, 2);
blend_contract!(handle_blend_err, 3);
blend_contract!(handle_blend_errtaken, 4);

macro_rules! take_reset_contract {
    ($name:ident, $st:expr) => {
        handle_contract!($name, $st, |h| {
            let img = RenderedImage::new(Arc::clone(&h));
            let t = img.try_take_blended();
            assert!(not_rendering(&h), "[C08] try_take_blended keeps a final state");
            if $st != 2 { assert!(t.is_none(), "[C08] only a blended frame can be taken"); }
            let old = h.reset();
            assert!(matches!(&*h.render.lock().unwrap(), FrameRender::None), "[C08] reset returns the handle to None");
            std::mem::forget(old);
            std::mem::forget(t);
            std::mem::forget(img);
        });
    };
}
take_reset_contract!(handle_take_none, 0);
take_reset_contract!(handle_take_done, 1);
take_reset_contract!(handle_take_blended, 2);
take_reset_contract!(handle_take_err, 3);
take_reset_contract!(handle_take_errtaken, 4);

// ------------------------------------------------------------------------------------------------
// C13 (and the value half for C03/C15): ImageBuffer float conversions. The f32 replacement grid is charged to the
// SAME tracker as the integer source (exactly its buffer size), the source's bytes come back, exhaustion is an
// Err that leaves buffer and budget untouched, and every sample is converted by the documented rule.
// Grid 2x1 (concrete: Vec growth with symbolic lengths is out of CBMC's reach), samples and budget symbolic.
// Buffer sizes (AlignedGrid::with_alloc_tracker): (len + 31 / size_of::<S>()) * size_of::<S>().
// ------------------------------------------------------------------------------------------------
const F32_BYTES: usize = (2 + 7) * 4;

/// AlignedGrid::with_alloc_tracker ends with `buf.resize_with(len + offset, ..)`, `offset` derived from the buffer address. It
/// always truncates (the Vec was created with len + 31 / size_of::<S>() elements), but CBMC explores the "grow" branch
/// (Vec::reserve -> realloc -> copy of a symbolically sized object), which costs 15-30 GB. This model replaces Vec::reserve in the
/// ImageBuffer harnesses and ASSERTS that it is never reached, so what is verified is exactly the real code (a reached reserve
/// fails the untagged assert in this file: UNDECIDED, never "held"). Needs #![feature(allocator_api)] (crate_attrs in the registry).
fn no_reserve<T, A: core::alloc::Allocator>(_v: &mut Vec<T, A>, _additional: usize) {
    assert!(false, "harness model: no Vec growth is reachable");
    kani::assume(false);
}

fn exactly_left(t: &AllocTracker, bytes: usize) -> bool {
    // no getter for the budget: it is `bytes` iff exactly `bytes` can be taken away and then nothing more
    t.shrink_limit(bytes).is_ok() && t.shrink_limit(1).is_err()
}

macro_rules! float_conversion_contract {
    ($name:ident, $variant:ident, $ty:ty, $src_bytes:expr, $slack:expr, $convert:expr) => {
        #[kani::proof]
        #[kani::unwind(18)]
        #[kani::stub(std::vec::Vec::reserve, no_reserve)]
        fn $name() {
            // budget = source grid + f32 copy + slack, slack in {-1 (one byte short), 0 (exact fit)}: the two sides of
            // the exhaustion boundary; a symbolic budget does not close in CBMC together with the allocator paths
            let limit: usize = ($src_bytes + F32_BYTES) as usize - (if $slack { 1 } else { 0 });
            let tracker = AllocTracker::with_limit(limit);
            let Ok(mut g) = AlignedGrid::<$ty>::with_alloc_tracker(2, 1, Some(&tracker)) else { return; };
            let s0: $ty = kani::any();
            let s1: $ty = kani::any();
            g.buf_mut()[0] = s0;
            g.buf_mut()[1] = s1;
            let mut ib = ImageBuffer::$variant(g);
            let bit_depth = BitDepth::IntegerSample { bits_per_sample: 8 };
            let convert: fn(&mut ImageBuffer, BitDepth) -> bool = $convert;
            let ok = convert(&mut ib, bit_depth);
            if ok {
                assert!(limit >= $src_bytes + F32_BYTES, "[C13] the conversion succeeds only if the f32 copy fits in the remaining budget");
                let ImageBuffer::F32(out) = &ib else { panic!("[C13,C15] converted buffer is F32") };
                assert!(out.tracker().is_some(), "[C13] the converted grid stays on the source's tracker");
                assert!(exactly_left(&tracker, limit - F32_BYTES), "[C13] budget after conversion = limit - f32 buffer (source bytes returned, copy charged)");
            } else {
                assert!(limit < $src_bytes + F32_BYTES, "[C13] conversion fails only on exhaustion");
                assert!(matches!(&ib, ImageBuffer::$variant(g) if g.buf()[0] == s0 && g.buf()[1] == s1), "[C13] a failed conversion leaves the buffer unchanged");
                assert!(exactly_left(&tracker, limit - $src_bytes), "[C13] a failed conversion leaves the budget unchanged");
            }
            kani::cover!(ok == !$slack);
            std::mem::forget(ib);
        }
    };
}
float_conversion_contract!(cast_to_float_i16_fits, I16, i16, (2 + 15) * 2, false, |ib, _| ib.cast_to_float().is_ok());
float_conversion_contract!(cast_to_float_i16_short, I16, i16, (2 + 15) * 2, true, |ib, _| ib.cast_to_float().is_ok());
float_conversion_contract!(cast_to_float_i32_fits, I32, i32, (2 + 7) * 4, false, |ib, _| ib.cast_to_float().is_ok());
float_conversion_contract!(cast_to_float_i32_short, I32, i32, (2 + 7) * 4, true, |ib, _| ib.cast_to_float().is_ok());
float_conversion_contract!(convert_modular_i16_fits, I16, i16, (2 + 15) * 2, false, |ib, bd| ib.convert_to_float_modular(bd).is_ok());
float_conversion_contract!(convert_modular_i16_short, I16, i16, (2 + 15) * 2, true, |ib, bd| ib.convert_to_float_modular(bd).is_ok());
float_conversion_contract!(convert_modular_i32_fits, I32, i32, (2 + 7) * 4, false, |ib, bd| ib.convert_to_float_modular(bd).is_ok());
float_conversion_contract!(convert_modular_i32_short, I32, i32, (2 + 7) * 4, true, |ib, bd| ib.convert_to_float_modular(bd).is_ok());

macro_rules! float_conversion_values {
    ($name:ident, $variant:ident, $ty:ty) => {
        #[kani::proof]
        #[kani::unwind(18)]
        #[kani::stub(std::vec::Vec::reserve, no_reserve)]
        fn $name() {
            let Ok(mut g) = AlignedGrid::<$ty>::with_alloc_tracker(2, 1, None) else { return; };
            let s0: $ty = kani::any();
            let s1: $ty = kani::any();
            g.buf_mut()[0] = s0;
            g.buf_mut()[1] = s1;
            let bits: u32 = kani::any();
            kani::assume(bits >= 1 && bits <= 31);
            let bd = BitDepth::IntegerSample { bits_per_sample: bits };
            // a second grid with the same samples (try_clone grows a Vec, which the no_reserve model forbids)
            let Ok(mut g2) = AlignedGrid::<$ty>::with_alloc_tracker(2, 1, None) else { return; };
            g2.buf_mut()[0] = s0;
            g2.buf_mut()[1] = s1;
            let mut a = ImageBuffer::$variant(g2);
            let mut b = ImageBuffer::$variant(g);
            let fa = a.cast_to_float().unwrap();
            assert!(fa.buf()[0].to_bits() == (s0 as f32).to_bits() && fa.buf()[1].to_bits() == (s1 as f32).to_bits(),
                "[C03,C15] cast_to_float converts each integer sample to the nearest f32");
            let fb = b.convert_to_float_modular(bd).unwrap();
            assert!(fb.buf()[0].to_bits() == bd.parse_integer_sample(s0 as i32).to_bits()
                && fb.buf()[1].to_bits() == bd.parse_integer_sample(s1 as i32).to_bits(),
                "[C03,C15] convert_to_float_modular scales each sample by 1 / (2^bits - 1) (BitDepth::parse_integer_sample)");
            assert!(fa.width() == 2 && fa.height() == 1 && fb.width() == 2 && fb.height() == 1, "[C15] dimensions are kept");
        }
    };
}
float_conversion_values!(float_conversion_values_i16, I16, i16);
float_conversion_values!(float_conversion_values_i32, I32, i32);

// ------------------------------------------------------------------------------------------------
// C05: composite_preprocess -- what is converted with which bit depth before a frame is kept as a reference, when the
// colour conversion for the record runs, and when composition is skipped.
//   requires: grid = the frame's channels [colour x grid.color_channels] ++ [extra channel i], any sample types;
//   ensures:  result == Ok(skip_blending), skip_blending <=> !is_normal_frame(frame_type) || resets_canvas;
//             blend_done' == skip_blending (it was false);
//             can_reference()  => every buffer is F32 afterwards, colour buffers converted with the IMAGE bit depth and extra
//                                 channel i with ec_info[i].bit_depth -- aligned with grid.color_channels, NOT with the frame
//                                 header's encoded colour channel count (a grey image is coded with 1 or 3 channels);
//             !can_reference() => no buffer is touched;
//             util::convert_color_for_record runs exactly when !(ct_done || save_before_ct || (skip_blending && is_last));
//             colour channel count / ct_done are not changed by composite_preprocess itself.
// Headers: BundleDefault::default_with_context + overwritten pub fields (never parsed). `IndexedFrame` cannot be built (Frame has
// private fields): the frame is an uninitialised token and the two accessors the function calls are stubbed to return the
// harness-owned headers. Assumed contracts (kani::stub): util::convert_color_for_record touches only colour channels (here:
// nothing) and is counted; ImageBuffer::convert_to_float_modular is replaced by a RECORDING model -- an integer buffer becomes a
// 1x1 F32 buffer holding the bit depth's bits_per_sample, an F32 buffer is kept -- (its value contract is ib.float_conversion_values_*;
// the real one allocates through AlignedGrid::with_alloc_tracker, minutes of CBMC per call).
// ------------------------------------------------------------------------------------------------
static mut CP_IMG: *const ImageHeader = 0x4a58_4c5f_4350_4900usize as *const ImageHeader;
static mut CP_FH: *const FrameHeader = 0x4a58_4c5f_4350_4600usize as *const FrameHeader;
static mut CP_RECORD_CALLS: u64 = 0x4350_5f43_414c_4c00;
const CP_RECORD_CALLS_BASE: u64 = 0x4350_5f43_414c_4c00;

fn cp_stub_image_header(_f: &jxl_frame::Frame) -> &ImageHeader {
    unsafe { &*CP_IMG }
}
fn cp_stub_header(_f: &jxl_frame::Frame) -> &FrameHeader {
    unsafe { &*CP_FH }
}
fn cp_stub_convert_color_for_record(_h: &ImageHeader, _do_ycbcr: bool, _fb: &mut ImageWithRegion, _pool: &JxlThreadPool) -> Result<()> {
    unsafe { CP_RECORD_CALLS += 1; }
    Ok(())
}

/// field-for-field mirrors of jxl_grid::AlignedGrid (crates/jxl-grid/src/lib.rs:43-49), offset 0; the accessors are checked right
/// after the transmute, so a layout mismatch fails the harness (untagged: UNDECIDED)
#[allow(dead_code)]
struct CpGridMirror<S> {
    width: usize,
    height: usize,
    offset: usize,
    buf: Vec<S>,
    handle: Option<jxl_grid::AllocHandle>,
}
fn cp_grid_f32(v: f32) -> AlignedGrid<f32> {
    let mut buf = Vec::with_capacity(1);
    buf.push(v);
    let g: AlignedGrid<f32> = unsafe { std::mem::transmute(CpGridMirror::<f32> { width: 1, height: 1, offset: 0, buf, handle: None }) };
    assert!(g.width() == 1 && g.height() == 1 && g.buf().len() == 1 && g.buf()[0].to_bits() == v.to_bits() && g.tracker().is_none());
    g
}
fn cp_grid_i32(v: i32) -> AlignedGrid<i32> {
    let mut buf = Vec::with_capacity(1);
    buf.push(v);
    let g: AlignedGrid<i32> = unsafe { std::mem::transmute(CpGridMirror::<i32> { width: 1, height: 1, offset: 0, buf, handle: None }) };
    assert!(g.width() == 1 && g.height() == 1 && g.buf().len() == 1 && g.buf()[0] == v && g.tracker().is_none());
    g
}
fn cp_grid_i16(v: i16) -> AlignedGrid<i16> {
    let mut buf = Vec::with_capacity(1);
    buf.push(v);
    let g: AlignedGrid<i16> = unsafe { std::mem::transmute(CpGridMirror::<i16> { width: 1, height: 1, offset: 0, buf, handle: None }) };
    assert!(g.width() == 1 && g.height() == 1 && g.buf().len() == 1 && g.buf()[0] == v && g.tracker().is_none());
    g
}

fn cp_recording_convert(buffer: &mut ImageBuffer, bit_depth: BitDepth) -> Result<&mut AlignedGrid<f32>> {
    if buffer.as_float().is_none() {
        let old = std::mem::replace(buffer, ImageBuffer::F32(cp_grid_f32(bit_depth.bits_per_sample() as f32)));
        std::mem::forget(old);
    }
    Ok(buffer.as_float_mut().unwrap())
}

const CP_IMAGE_BITS: u32 = 10;
const CP_EC_BITS: [u32; 2] = [16, 12];

/// grid: `color_channels` colour buffers (I32, except buffer 0 which is F32 when `first_is_float`) + 2 extra channels (I16, I32)
fn composite_preprocess_contract(color_channels: usize) {
    use jxl_oxide_common::BundleDefault;
    let size = <jxl_image::SizeHeader as BundleDefault<()>>::default_with_context(());
    let mut metadata = <jxl_image::ImageMetadata as BundleDefault<()>>::default_with_context(());
    metadata.bit_depth = BitDepth::IntegerSample { bits_per_sample: CP_IMAGE_BITS };
    metadata.ec_info.push(jxl_image::ExtraChannelInfo { bit_depth: BitDepth::IntegerSample { bits_per_sample: CP_EC_BITS[0] }, ..Default::default() });
    metadata.ec_info.push(jxl_image::ExtraChannelInfo { ty: jxl_image::ExtraChannelType::Depth, bit_depth: BitDepth::IntegerSample { bits_per_sample: CP_EC_BITS[1] }, ..Default::default() });
    let img = ImageHeader { size, metadata };
    let mut fh = <FrameHeader as BundleDefault<&ImageHeader>>::default_with_context(&img);
    fh.frame_type = match kani::any::<u8>() & 3 {
        0 => jxl_frame::header::FrameType::RegularFrame,
        1 => jxl_frame::header::FrameType::LfFrame,
        2 => jxl_frame::header::FrameType::ReferenceOnly,
        _ => jxl_frame::header::FrameType::SkipProgressive,
    };
    fh.is_last = kani::any();
    fh.duration = kani::any();
    fh.save_as_reference = kani::any();
    kani::assume(fh.save_as_reference <= 3);
    fh.resets_canvas = kani::any();
    fh.save_before_ct = kani::any();
    fh.do_ycbcr = kani::any();
    let ct_done: bool = kani::any();
    let first_is_float: bool = kani::any();

    let n = color_channels + 2;
    let mut buffer = Vec::with_capacity(5);
    let mut regions = Vec::with_capacity(5);
    let mut c = 0;
    while c < n {
        buffer.push(if c == 0 && first_is_float {
            ImageBuffer::F32(cp_grid_f32(-1.0))
        } else if c == color_channels {
            ImageBuffer::I16(cp_grid_i16(-(c as i16) - 1))
        } else {
            ImageBuffer::I32(cp_grid_i32(-(c as i32) - 1))
        });
        regions.push((Region::with_size(1, 1), ChannelShift::from_shift(0)));
        c += 1;
    }
    let mut grid = ImageWithRegion { buffer, regions, color_channels, ct_done, blend_done: false, tracker: None };

    let frame = core::mem::MaybeUninit::<IndexedFrame>::uninit();
    let frame: &IndexedFrame = unsafe { &*frame.as_ptr() };
    unsafe {
        CP_IMG = &img;
        CP_FH = &fh;
        CP_RECORD_CALLS = CP_RECORD_CALLS_BASE;
    }
    let pool = JxlThreadPool::none();
    let r = composite_preprocess(frame, &mut grid, &pool);

    let normal = matches!(fh.frame_type, jxl_frame::header::FrameType::RegularFrame | jxl_frame::header::FrameType::SkipProgressive);
    let skip = !normal || fh.resets_canvas;
    let can_reference = !fh.is_last && (fh.duration == 0 || fh.save_as_reference != 0) && !matches!(fh.frame_type, jxl_frame::header::FrameType::LfFrame);
    assert!(matches!(r, Ok(s) if s == skip), "[C05] composite_preprocess returns Ok(skip_blending), skip_blending <=> not a normal frame or the frame resets the canvas");
    assert!(grid.blend_done == skip, "[C05] blend_done is set exactly when composition is skipped");
    let record_calls = unsafe { CP_RECORD_CALLS } - CP_RECORD_CALLS_BASE;
    let expect_record = !(ct_done || fh.save_before_ct || (skip && fh.is_last));
    assert!(record_calls == if expect_record { 1 } else { 0 },
        "[C05] the colour conversion for the record runs exactly when it is not done yet, the frame is not saved before the colour transform, and the frame is not a last frame that skips composition");
    assert!(grid.color_channels == color_channels && grid.ct_done == ct_done && grid.buffer.len() == n, "[C05] composite_preprocess itself does not change the channel list or the ct_done flag");

    let c = kani::any::<u8>() as usize;
    kani::assume(c < n);
    if can_reference {
        let Some(g) = grid.buffer[c].as_float() else { panic!("[C05] a frame that can be referenced has every channel converted to float") };
        let got = g.buf()[0];
        if c == 0 && first_is_float {
            assert!(got == -1.0, "[C05] a channel that already is float is kept");
        } else if c < color_channels {
            assert!(got == CP_IMAGE_BITS as f32, "[C05,C15] colour channels are converted with the image bit depth");
        } else {
            assert!(got == CP_EC_BITS[c - color_channels] as f32, "[C05,C15] extra channel i is converted with ec_info[i].bit_depth (aligned with the grid's colour channel count)");
        }
    } else {
        let untouched = match &grid.buffer[c] {
            ImageBuffer::F32(g) => c == 0 && first_is_float && g.buf()[0] == -1.0,
            ImageBuffer::I16(g) => c == color_channels && g.buf()[0] == -(c as i16) - 1,
            ImageBuffer::I32(g) => g.buf()[0] == -(c as i32) - 1,
        };
        assert!(untouched, "[C05] a frame that cannot be referenced has no buffer converted by composite_preprocess");
    }
    kani::cover!(can_reference && c == n - 1 && skip);
    kani::cover!(can_reference && !skip && expect_record);
    kani::cover!(!can_reference && !expect_record && skip && fh.is_last);
    kani::cover!(!can_reference && expect_record && !skip);
    std::mem::forget(r);
    std::mem::forget(grid);
}

macro_rules! composite_preprocess_harness {
    ($name:ident, $cc:expr) => {
        #[kani::proof]
        #[kani::unwind(7)]
        #[kani::stub(jxl_frame::Frame::image_header, cp_stub_image_header)]
        #[kani::stub(jxl_frame::Frame::header, cp_stub_header)]
        #[kani::stub(util::convert_color_for_record, cp_stub_convert_color_for_record)]
        #[kani::stub(ImageBuffer::convert_to_float_modular, cp_recording_convert)]
        fn $name() {
            composite_preprocess_contract($cc);
        }
    };
}
composite_preprocess_harness!(composite_preprocess_gray, 1);
composite_preprocess_harness!(composite_preprocess_rgb, 3);
