// Contracts for crates/jxl-render/src/util.rs: the translation of a requested image rectangle into frame
// coordinates and the padding rules for LF frames, upsampling, restoration filters and chroma upsampling (C06).
//
// Headers are built with BundleDefault::default_with_context and their pub fields overwritten (never parsed);
// the discrete header parameters range over every value their parsers can return:
//   upsampling, ec_upsampling in {1,2,4,8} (U32(1,2,4,8)), dim_shift with ec_shift+dim_shift in color_shift..=6
//   (Frame::parse, jxl-frame/src/lib.rs:165-195), lf_level in 0..=4 (1+u(2) / default 0), epf iters in {off,1,2,3}
//   (u(2)), gabor on/off, do_ycbcr, frame type (u(2)), |x0|,|y0| <= 2^29+9344, frame width/height <= 2^30.
//
// What is decided:  the result is a superset of what the *kernel supports of the standard* require
//   (non-separable upsampling: 5x5 window = +-2 source samples per pass; Gabor-like filter: 3x3 = +-1;
//   EPF: step 0 reaches 3 (12 neighbours at distance <= 2, each compared over a cross of radius 1),
//   step 1 reaches 2 (4 neighbours, cross), step 2 reaches 1 (4 neighbours, single sample), and
//   iters = 1 runs step 1, iters = 2 runs steps 1-2, iters = 3 runs steps 0-2: 2 / 3 / 6 samples;
//   sigma is stored per 8x8 block => block alignment), the result is monotone in the request, and
//   the full image maps to the full frame.
// What is NOT decided: an over-generous padding (the code pads 5 for two EPF iterations where 3 are needed, and
//   4*lf_level+32 for LF frames, a number that has no counterpart in the standard) -- any amount >= the required
//   support verifies. The chroma-upsampling branch (do_ycbcr) is only required to add >= 1 sample and to stay even-aligned.
use super::*;

#[path = "@SPEC@/orientation.rs"]
mod ospec;
use ospec::*;

#[path = "@SPEC@/region_view.rs"]
mod rview;
use rview::*;

use jxl_oxide_common::BundleDefault;

const MAX_DIM: u32 = 1 << 30; // frame width/height limit (jxl-frame/src/lib.rs:122-129); image sizes of the non-ratio forms
const MAX_OFF: i64 = (1 << 29) + 9344; // UnpackSigned(18688 + u(30)) (header.rs:45-50)

fn frame_header_for(img: &ImageHeader) -> FrameHeader {
    <FrameHeader as BundleDefault<&ImageHeader>>::default_with_context(img)
}

/// A region a frame render can be asked for: inside the (padded) frame, far away from the i32 limits.
fn any_frame_region() -> Region {
    let r = any_region();
    kani::assume(l(r).abs() <= (1 << 30) + (1 << 13) && t(r).abs() <= (1 << 30) + (1 << 13));
    kani::assume(r.width <= MAX_DIM + (1 << 13) && r.height <= MAX_DIM + (1 << 13));
    r
}

// ---------------------------------------------------------------------------------------------------
// image_region_to_frame
// ---------------------------------------------------------------------------------------------------
// `Frame` has private fields and no constructor but `parse`; the function only calls the two accessors
// `image_header()` and `header()`, which are replaced by accessors of harness-owned headers. The Frame
// object itself is never read.
// unique non-null initial values: Kani 0.68 may give a `static mut` the storage of an equal-bytes constant
static mut IMG_PTR: *const ImageHeader = 0x4a58_4c5f_494d_4700usize as *const ImageHeader;
static mut FH_PTR: *const FrameHeader = 0x4a58_4c5f_4648_4400usize as *const FrameHeader;
fn stub_image_header(_f: &Frame) -> &ImageHeader {
    unsafe { &*IMG_PTR }
}
fn stub_header(_f: &Frame) -> &FrameHeader {
    unsafe { &*FH_PTR }
}

fn any_frame_type() -> FrameType {
    match kani::any::<u8>() & 3 {
        0 => FrameType::RegularFrame,
        1 => FrameType::LfFrame,
        2 => FrameType::ReferenceOnly,
        _ => FrameType::SkipProgressive,
    }
}

fn any_frame_header(img: &ImageHeader) -> FrameHeader {
    let mut fh = frame_header_for(img);
    fh.frame_type = any_frame_type();
    fh.x0 = kani::any();
    fh.y0 = kani::any();
    fh.width = kani::any();
    fh.height = kani::any();
    fh.lf_level = kani::any();
    kani::assume((fh.x0 as i64).abs() <= MAX_OFF && (fh.y0 as i64).abs() <= MAX_OFF);
    kani::assume(fh.width <= MAX_DIM && fh.height <= MAX_DIM);
    kani::assume(fh.lf_level <= 4);
    fh
}

/// (1) full resolution (ignore_lf_level = true), one orientation per harness: the result is EXACTLY the set of frame
/// samples that are displayed inside the requested rectangle.
fn image_region_to_frame_for(o: u32) {
    let (w, h): (u32, u32) = (kani::any(), kani::any());
    // stored sizes up to 2^30 (every non-ratio SizeHeader form, and the frame size limit). Ratio forms can reach
    // 2^31 (see im.oriented_dims); sizes in (2^30, 2^31] are not covered by this contract.
    kani::assume(w >= 1 && h >= 1 && w <= MAX_DIM && h <= MAX_DIM);
    let img = header_with(w, h, o);
    let fh = any_frame_header(&img);
    let (dw, dh) = spec_oriented_dims(o, w as i64, h as i64);
    // C06 quantifies over non-empty rectangles inside the displayed image
    let req = any_region();
    kani::assume(!req.is_empty() && l(req) >= 0 && t(req) >= 0 && rt(req) <= dw && bt(req) <= dh);

    let frame = core::mem::MaybeUninit::<Frame>::uninit();
    let frame: &Frame = unsafe { &*frame.as_ptr() };
    unsafe {
        IMG_PTR = &img;
        FH_PTR = &fh;
    }
    let full = image_region_to_frame(frame, req, true);

    let (qx, qy) = any_point();
    let in_frame = 0 <= qx && qx < fh.width as i64 && 0 <= qy && qy < fh.height as i64;
    if fh.frame_type == FrameType::ReferenceOnly {
        assert!(has(full, qx, qy) == in_frame, "[C06] a reference-only frame is always rendered whole");
    } else {
        // frame sample q is the stored image sample q + (x0, y0)
        let (sx, sy) = (qx + fh.x0 as i64, qy + fh.y0 as i64);
        let wanted = in_frame && spec_inside(w as i64, h as i64, sx, sy) && {
            let (dx, dy) = spec_orientation(o, w as i64, h as i64, sx, sy);
            has(req, dx, dy)
        };
        assert!(has(full, qx, qy) == wanted,
            "[C06,C15] q in image_region_to_frame(R) <=> q in the frame and the displayed position of image sample q+(x0,y0) is in R");
    }
    assert!(wf(full) && l(full) >= 0 && t(full) >= 0, "[C06] the frame region lies in the frame");
    // the full image maps to the whole frame (when the frame lies on the canvas)
    if l(req) == 0 && t(req) == 0 && rt(req) == dw && bt(req) == dh && fh.x0 >= 0 && fh.y0 >= 0
        && fh.x0 as i64 + fh.width as i64 <= w as i64 && fh.y0 as i64 + fh.height as i64 <= h as i64 && !full.is_empty() {
        assert!(full == Region::with_size(fh.width, fh.height), "[C06] full image region |-> full frame region");
    }
    kani::cover!(fh.frame_type == FrameType::ReferenceOnly);
    kani::cover!(fh.frame_type == FrameType::RegularFrame && fh.x0 < 0 && fh.y0 > 0 && !full.is_empty() && full.width < fh.width && full.width < req.width.min(req.height));
    kani::cover!(full.is_empty() && fh.width > 0 && fh.height > 0 && fh.frame_type != FrameType::ReferenceOnly);
    kani::cover!(full == Region::with_size(fh.width, fh.height) && fh.x0 > 0 && fh.frame_type == FrameType::SkipProgressive);
}
macro_rules! irtf {
    ($name:ident, $o:expr) => {
        #[kani::proof]
        #[kani::stub(jxl_frame::Frame::image_header, stub_image_header)]
        #[kani::stub(jxl_frame::Frame::header, stub_header)]
        fn $name() {
            image_region_to_frame_for($o);
        }
    };
}
irtf!(image_region_to_frame_o1, 1);
irtf!(image_region_to_frame_o2, 2);
irtf!(image_region_to_frame_o3, 3);
irtf!(image_region_to_frame_o4, 4);
irtf!(image_region_to_frame_o5, 5);
irtf!(image_region_to_frame_o6, 6);
irtf!(image_region_to_frame_o7, 7);
irtf!(image_region_to_frame_o8, 8);

/// Modular form of the same contract, for every orientation at once (quick tier).
/// `apply_orientation_to_image_region` is a pure function of (image header, request): it is replaced by "some fixed
/// non-empty region S inside the stored image". That it equals Region::apply_orientation is `oriented_glue` below, and
/// that Region::apply_orientation(R) is exactly the set of stored samples displayed inside R, non-empty and inside the
/// stored image, is rg.apply_orientation_o1..8. Together: q in result <=> q in frame and q+(x0,y0) in S(R)
/// <=> q in frame and the displayed position of image sample q+(x0,y0) is in R.
static mut STORED: Region = Region { left: 0x5354_4f01, top: 0x5354_4f02, width: 0x5354_4f03, height: 0x5354_4f04 };
fn stub_oriented(_h: &ImageHeader, _r: Region) -> Region {
    unsafe { STORED }
}

#[kani::proof]
#[kani::stub(jxl_frame::Frame::image_header, stub_image_header)]
#[kani::stub(jxl_frame::Frame::header, stub_header)]
#[kani::stub(apply_orientation_to_image_region, stub_oriented)]
fn image_region_to_frame_contract() {
    let (w, h): (u32, u32) = (kani::any(), kani::any());
    kani::assume(w >= 1 && h >= 1 && w <= MAX_DIM && h <= MAX_DIM);
    let img = header_with(w, h, 1);
    let fh = any_frame_header(&img);
    let stored = any_region();
    kani::assume(!stored.is_empty() && l(stored) >= 0 && t(stored) >= 0 && rt(stored) <= w as i64 && bt(stored) <= h as i64);
    let req = any_region();
    let frame = core::mem::MaybeUninit::<Frame>::uninit();
    let frame: &Frame = unsafe { &*frame.as_ptr() };
    unsafe {
        IMG_PTR = &img;
        FH_PTR = &fh;
        STORED = stored;
    }
    let full = image_region_to_frame(frame, req, true);
    let lf = image_region_to_frame(frame, req, false);

    // (1) full resolution
    let (qx, qy) = any_point();
    let in_frame = 0 <= qx && qx < fh.width as i64 && 0 <= qy && qy < fh.height as i64;
    if fh.frame_type == FrameType::ReferenceOnly {
        assert!(has(full, qx, qy) == in_frame, "[C06] a reference-only frame is always rendered whole");
    } else {
        assert!(has(full, qx, qy) == (in_frame && has(stored, qx + fh.x0 as i64, qy + fh.y0 as i64)),
            "[C06,C05] q in image_region_to_frame(R) <=> q in the frame and image sample q+(x0,y0) is requested");
    }
    assert!(wf(full) && l(full) >= 0 && t(full) >= 0, "[C06] the frame region lies in the frame");
    // (2) LF resolution
    let f = 3 * fh.lf_level;
    if full.is_empty() {
        assert!(lf.is_empty(), "[C06] nothing requested from the frame => nothing requested at LF resolution");
    } else {
        assert!(l(lf) == floor_shift(l(full), f) && rt(lf) == ceil_shift(rt(full), f) && t(lf) == floor_shift(t(full), f) && bt(lf) == ceil_shift(bt(full), f),
            "[C06] at LF level k the region is the least one covering q >> 3k of the full resolution region");
    }
    if has(full, qx, qy) {
        assert!(has(lf, qx >> f, qy >> f), "[C06] the LF region covers every requested sample");
    }
    if fh.lf_level == 0 {
        assert!(lf == full, "[C06] lf_level 0: same region");
    }
    // (3) the full image (S = whole stored image) maps to the whole frame when the frame lies on the canvas
    if stored == Region::with_size(w, h) && fh.x0 >= 0 && fh.y0 >= 0 && fh.width > 0 && fh.height > 0
        && fh.x0 as i64 + fh.width as i64 <= w as i64 && fh.y0 as i64 + fh.height as i64 <= h as i64 {
        assert!(full == Region::with_size(fh.width, fh.height), "[C06] full image region |-> full frame region");
    }
    kani::cover!(fh.frame_type == FrameType::ReferenceOnly && full.width > stored.width);
    kani::cover!(fh.frame_type == FrameType::RegularFrame && fh.x0 < 0 && fh.y0 > 0 && !full.is_empty() && full.width < fh.width && full.width < stored.width);
    kani::cover!(fh.lf_level == 2 && lf.width > 1 && l(full) & 63 != 0 && fh.frame_type == FrameType::LfFrame);
    kani::cover!(fh.lf_level == 4 && !full.is_empty());
    kani::cover!(full.is_empty() && fh.width > 0 && fh.height > 0 && fh.frame_type != FrameType::ReferenceOnly);
    kani::cover!(stored == Region::with_size(w, h) && full == Region::with_size(fh.width, fh.height) && fh.x0 > 0);
}

/// glue: util::apply_orientation_to_image_region is Region::apply_orientation (all orientations, sizes, regions
/// for which neither overflows: rectangles inside the displayed image).
#[kani::proof]
fn oriented_glue() {
    let (w, h): (u32, u32) = (kani::any(), kani::any());
    let o: u32 = kani::any();
    kani::assume(w >= 1 && h >= 1 && w <= i32::MAX as u32 && h <= i32::MAX as u32);
    kani::assume(1 <= o && o <= 8);
    let img = header_with(w, h, o);
    let (dw, dh) = spec_oriented_dims(o, w as i64, h as i64);
    let req = any_region();
    kani::assume(!req.is_empty() && l(req) >= 0 && t(req) >= 0 && rt(req) <= dw && bt(req) <= dh);
    assert!(apply_orientation_to_image_region(&img, req) == req.apply_orientation(&img),
        "[C06,C15] apply_orientation_to_image_region(h, R) == R.apply_orientation(h)");
    kani::cover!(o == 7);
}

// ---------------------------------------------------------------------------------------------------
// pad_lf_region
// ---------------------------------------------------------------------------------------------------
/// r2 covers r1 as extents
fn covers(r2: Region, r1: Region) -> bool {
    extent_covers(r2, l(r1), t(r1), rt(r1), bt(r1))
}
/// two requests, the first inside the second
fn any_nested_frame_regions() -> (Region, Region) {
    let r1 = any_frame_region();
    let r2 = any_frame_region();
    kani::assume(covers(r2, r1));
    (r1, r2)
}

#[kani::proof]
fn pad_lf_region_contract() {
    let img = header_with(1, 1, 1);
    let mut fh = frame_header_for(&img);
    fh.lf_level = kani::any();
    kani::assume(fh.lf_level <= 4);
    let (r1, r2) = any_nested_frame_regions();
    let p1 = pad_lf_region(&fh, r1);
    let p2 = pad_lf_region(&fh, r2);
    assert!(covers(p1, r1), "[C06] pad_lf_region contains the request");
    if fh.lf_level == 0 {
        assert!(p1 == r1, "[C06] pad_lf_region: a frame that is not an LF frame is not padded");
    } else {
        let d = l(r1) - l(p1);
        assert!(d > 0 && rt(p1) - rt(r1) == d && t(r1) - t(p1) == d && bt(p1) - bt(r1) == d, "[C06] pad_lf_region pads all four sides of an LF frame equally");
    }
    assert!(covers(p2, p1), "[C06] pad_lf_region is monotone");
    kani::cover!(fh.lf_level == 4 && r1 != r2 && !r1.is_empty());
    kani::cover!(fh.lf_level == 0);
}

// ---------------------------------------------------------------------------------------------------
// pad_upsampling / pad_color_region
// ---------------------------------------------------------------------------------------------------
/// Image + frame header with the given colour upsampling (log2) and extra channels (log2 ec_upsampling, dim_shift).
/// The discrete parameters are concrete per harness (symbolic shift amounts cost CBMC > 20 min here); the harness
/// list below enumerates them: colour shift 0..=3, cumulative extra channel shift colour..=6
/// (Frame::parse, jxl-frame/src/lib.rs:165-195: color_shift <= ec_shift + dim_shift <= 6).
fn upsampling_headers(cf: u32, ec: &[(u32, u32)]) -> (ImageHeader, FrameHeader) {
    let mut img = header_with(1, 1, 1);
    let mut ec_up = Vec::new();
    for &(up_shift, dim_shift) in ec {
        ec_up.push(1u32 << up_shift);
        img.metadata.ec_info.push(jxl_image::ExtraChannelInfo { dim_shift, ..Default::default() });
    }
    let mut fh = frame_header_for(&img);
    fh.upsampling = 1 << cf;
    fh.ec_upsampling = ec_up;
    (img, fh)
}

/// source samples needed around the source region for non-separable upsampling by 2^f in ceil(f/3) passes of at most 8x:
/// every pass reads a 5x5 window (+-2) at its own source resolution; a second pass adds at least one more sample at the lowest one.
fn upsampling_support(f: u32) -> i64 {
    if f == 0 { 0 } else if f <= 3 { 2 } else { 3 }
}

/// `p` (upsampled coordinates) provides, at resolution 1/2^f, the region of `r` grown by `need` source samples
fn provides(p: Region, r: Region, f: u32, need: i64) -> bool {
    floor_shift(l(p), f) <= floor_shift(l(r), f) - need && ceil_shift(rt(p), f) >= ceil_shift(rt(r), f) + need
        && floor_shift(t(p), f) <= floor_shift(t(r), f) - need && ceil_shift(bt(p), f) >= ceil_shift(bt(r), f) + need
}

fn pad_upsampling_for(cf: u32, ec: &[(u32, u32)]) {
    let (img, fh) = upsampling_headers(cf, ec);
    let (r1, r2) = any_nested_frame_regions();
    let p1 = pad_upsampling(&img, &fh, r1);
    let p2 = pad_upsampling(&img, &fh, r2);
    assert!(covers(p1, r1), "[C06] pad_upsampling contains the request");
    assert!(provides(p1, r1, cf, upsampling_support(cf)), "[C06] pad_upsampling: colour channels get +-2 source samples (5x5 upsampling kernel)");
    let mut any_up = cf != 0;
    for &(up_shift, dim_shift) in ec {
        let f = up_shift + dim_shift;
        assert!(provides(p1, r1, f, upsampling_support(f)), "[C06] pad_upsampling: every extra channel gets its upsampling kernel support");
        any_up |= f != 0;
    }
    if !any_up {
        assert!(p1 == r1, "[C06] pad_upsampling: nothing is upsampled => nothing is padded");
    }
    assert!(covers(p2, p1), "[C06] pad_upsampling is monotone");
    kani::cover!(!r1.is_empty() && r1 != r2 && l(r1) < 0 && l(r1) & 1 == 1);
}

fn epf_support(iters: u32) -> i64 {
    match iters { 0 => 0, 1 => 2, 2 => 3, _ => 6 }
}

/// restoration filter / chroma settings: every value the parsers can return (epf iters u(2), 0 = disabled)
fn any_filters(fh: &mut FrameHeader) -> (u32, bool) {
    let iters: u32 = kani::any();
    kani::assume(iters <= 3);
    let gab: bool = kani::any();
    set_filters(fh, iters, gab, kani::any());
    (iters, gab)
}
fn set_filters(fh: &mut FrameHeader, iters: u32, gab: bool, ycbcr: bool) {
    fh.restoration_filter.epf = if iters == 0 {
        EdgePreservingFilter::Disabled
    } else {
        EdgePreservingFilter::Enabled(EpfParams { iters, ..Default::default() })
    };
    fh.restoration_filter.gab = if gab { jxl_frame::filter::Gabor::Enabled([[0.115169525, 0.061248592]; 3]) } else { jxl_frame::filter::Gabor::Disabled };
    fh.do_ycbcr = ycbcr;
}

/// lower bound from the kernel supports + alignment, all filter settings, one colour upsampling / extra channel set per harness
fn pad_color_region_for(cf: u32, ec: &[(u32, u32)]) {
    let (img, mut fh) = upsampling_headers(cf, ec);
    let (iters, gab) = any_filters(&mut fh);
    let r1 = any_frame_region();
    let p1 = pad_color_region(&img, &fh, r1);
    // the request at colour-sample resolution, grown by the support of every enabled stage
    let need = upsampling_support(cf) + epf_support(iters) + gab as i64 + fh.do_ycbcr as i64;
    let (cl, cr, ct, cb) = (floor_shift(l(r1), cf), ceil_shift(rt(r1), cf), floor_shift(t(r1), cf), ceil_shift(bt(r1), cf));
    assert!(extent_covers(p1, cl - need, ct - need, cr + need, cb + need),
        "[C06] pad_color_region >= request at colour resolution + upsampling(2) + EPF(2/3/6 for 1/2/3 iterations) + Gabor(1) + chroma upsampling(1) on every side");
    if iters != 0 {
        assert!(l(p1) & 7 == 0 && t(p1) & 7 == 0 && p1.width & 7 == 0 && p1.height & 7 == 0, "[C06] with EPF the colour region is made of whole 8x8 blocks (sigma is per block)");
    }
    if fh.do_ycbcr {
        assert!(l(p1) & 1 == 0 && t(p1) & 1 == 0 && p1.width & 1 == 0 && p1.height & 1 == 0, "[C06] with chroma subsampling the colour region is even-aligned");
    }
    if iters == 0 && !gab && !fh.do_ycbcr && cf == 0 && ec.iter().all(|&(u, d)| u + d == 0) {
        assert!(p1 == r1, "[C06] pad_color_region: no upsampling, no filter => the request itself");
    }
    kani::cover!(iters == 3 && gab && !fh.do_ycbcr && !r1.is_empty() && l(r1) < 0);
    kani::cover!(iters == 0 && !gab && fh.do_ycbcr);
    kani::cover!(iters == 0 && !gab && !fh.do_ycbcr);
    kani::cover!(iters == 2);
    kani::cover!(iters == 1);
}
/// monotone in the request, one complete header configuration per harness (the two-call form does not close with
/// symbolic filter settings)
fn pad_color_region_monotone_for(cf: u32, ec: &[(u32, u32)], iters: u32, gab: bool, ycbcr: bool) {
    let (img, mut fh) = upsampling_headers(cf, ec);
    set_filters(&mut fh, iters, gab, ycbcr);
    let (r1, r2) = any_nested_frame_regions();
    let p1 = pad_color_region(&img, &fh, r1);
    let p2 = pad_color_region(&img, &fh, r2);
    assert!(covers(p2, p1), "[C06] pad_color_region is monotone");
    kani::cover!(r1 != r2 && !r1.is_empty());
}

macro_rules! cfg_harness {
    ($name:ident, $body:ident ( $($arg:expr),* )) => {
        #[kani::proof]
        #[kani::unwind(4)]
        fn $name() {
            $body($($arg),*);
        }
    };
}
// colour upsampling 1, 2, 4, 8 without extra channels
cfg_harness!(pad_upsampling_c0, pad_upsampling_for(0, &[]));
cfg_harness!(pad_upsampling_c1, pad_upsampling_for(1, &[]));
cfg_harness!(pad_upsampling_c2, pad_upsampling_for(2, &[]));
cfg_harness!(pad_upsampling_c3, pad_upsampling_for(3, &[]));
// extra channels: (log2 ec_upsampling, dim_shift); the largest cumulative shift decides (two passes above 3)
cfg_harness!(pad_upsampling_ec_a, pad_upsampling_for(1, &[(3, 3), (1, 1)]));
cfg_harness!(pad_upsampling_ec_b, pad_upsampling_for(0, &[(0, 0)]));
cfg_harness!(pad_upsampling_ec_c, pad_upsampling_for(2, &[(2, 0), (0, 3)]));
cfg_harness!(pad_upsampling_ec_d, pad_upsampling_for(0, &[(1, 3)]));
cfg_harness!(pad_color_region_c0, pad_color_region_for(0, &[]));
cfg_harness!(pad_color_region_c1, pad_color_region_for(1, &[]));
cfg_harness!(pad_color_region_c2, pad_color_region_for(2, &[]));
cfg_harness!(pad_color_region_c3, pad_color_region_for(3, &[]));
cfg_harness!(pad_color_region_ec_a, pad_color_region_for(1, &[(3, 3), (1, 1)]));
cfg_harness!(pad_color_region_ec_c, pad_color_region_for(2, &[(2, 0), (0, 3)]));
cfg_harness!(pad_color_region_monotone_a, pad_color_region_monotone_for(0, &[], 0, false, false));
cfg_harness!(pad_color_region_monotone_b, pad_color_region_monotone_for(1, &[], 3, true, false));
cfg_harness!(pad_color_region_monotone_c, pad_color_region_monotone_for(3, &[], 1, true, true));
cfg_harness!(pad_color_region_monotone_d, pad_color_region_monotone_for(0, &[], 2, false, true));
cfg_harness!(pad_color_region_monotone_e, pad_color_region_monotone_for(2, &[(2, 0), (0, 3)], 2, true, false));

/// C01: `mirror` terminates without overflow for every offset a padded kernel can ask for (|offset| within one period
/// of the reflection, len >= 1), and lands inside 0..len on the reflected position.
#[kani::proof]
#[kani::unwind(4)]
fn mirror_contract() {
    let len: usize = kani::any();
    let offset: isize = kani::any();
    kani::assume(len >= 1 && len <= (1 << 30) + (1 << 13));
    kani::assume(offset >= -(len as isize) && offset < 2 * len as isize);
    let m = mirror(offset, len);
    assert!(m < len, "[C06] mirror lands inside the row");
    let expect = if offset < 0 { (-offset - 1) as usize } else if offset as usize >= len { 2 * len - 1 - offset as usize } else { offset as usize };
    assert!(m == expect, "[C06] mirror reflects about the edge without repeating the edge sample twice");
    kani::cover!(offset < 0);
    kani::cover!(offset as usize >= len && offset > 0);
}
