// Contract for the end-of-data classification used by every "need more data" decision (C11):
//   Error::unexpected_eof()  <=>  the error is, through any chain of wrapper variants, a
//   jxl_bitstream::Error::Io(e) with e.kind() == UnexpectedEof.
// One harness drives the real implementations of all crates through jxl_render::Error (the outermost
// wrapper): jxl_bitstream, jxl_coding, jxl_modular, jxl_vardct, jxl_frame, jxl_color, jxl_render.
use super::*;

/// symbolic leaf; returns (error, is_eof)
fn any_bitstream_error() -> (jxl_bitstream::Error, bool) {
    let k: u8 = kani::any();
    kani::assume(k < 7);
    match k {
        0 => (jxl_bitstream::Error::Io(std::io::ErrorKind::UnexpectedEof.into()), true),
        1 => (jxl_bitstream::Error::Io(std::io::ErrorKind::InvalidData.into()), false),
        2 => (jxl_bitstream::Error::InvalidBox, false),
        3 => (jxl_bitstream::Error::NonZeroPadding, false),
        4 => (jxl_bitstream::Error::InvalidFloat, false),
        5 => (jxl_bitstream::Error::ValidationFailed("x"), false),
        _ => (jxl_bitstream::Error::ProfileConformance("x"), false),
    }
}

fn any_coding_error() -> (jxl_coding::Error, bool) {
    let k: u8 = kani::any();
    kani::assume(k < 4);
    match k {
        0 => { let (b, e) = any_bitstream_error(); (jxl_coding::Error::Bitstream(b), e) }
        1 => (jxl_coding::Error::InvalidAnsStream, false),
        2 => (jxl_coding::Error::Lz77NotAllowed, false),
        _ => (jxl_coding::Error::InvalidCluster(kani::any()), false),
    }
}

fn any_modular_error() -> (jxl_modular::Error, bool) {
    let k: u8 = kani::any();
    kani::assume(k < 4);
    match k {
        0 => { let (b, e) = any_bitstream_error(); (jxl_modular::Error::Bitstream(b), e) }
        1 => { let (c, e) = any_coding_error(); (jxl_modular::Error::Decoder(c), e) }
        2 => (jxl_modular::Error::InvalidMaTree, false),
        _ => (jxl_modular::Error::InvalidSqueezeParams, false),
    }
}

fn any_vardct_error() -> (jxl_vardct::Error, bool) {
    let k: u8 = kani::any();
    kani::assume(k < 3);
    match k {
        0 => { let (b, e) = any_bitstream_error(); (jxl_vardct::Error::Bitstream(b), e) }
        1 => { let (c, e) = any_coding_error(); (jxl_vardct::Error::Decoder(c), e) }
        _ => { let (m, e) = any_modular_error(); (jxl_vardct::Error::Modular(m), e) }
    }
}

fn any_frame_error() -> (jxl_frame::Error, bool) {
    let k: u8 = kani::any();
    kani::assume(k < 7);
    match k {
        0 => { let (b, e) = any_bitstream_error(); (jxl_frame::Error::Bitstream(b), e) }
        1 => { let (c, e) = any_coding_error(); (jxl_frame::Error::Decoder(c), e) }
        2 => { let (m, e) = any_modular_error(); (jxl_frame::Error::Modular(m), e) }
        3 => { let (v, e) = any_vardct_error(); (jxl_frame::Error::VarDct(v), e) }
        4 => (jxl_frame::Error::InvalidTocPermutation, false),
        5 => (jxl_frame::Error::IncompleteFrameData { field: "x" }, false),
        _ => (jxl_frame::Error::HadError, false),
    }
}

fn any_color_error() -> (jxl_color::Error, bool) {
    let k: u8 = kani::any();
    kani::assume(k < 4);
    match k {
        0 => { let (b, e) = any_bitstream_error(); (jxl_color::Error::Bitstream(b), e) }
        1 => { let (c, e) = any_coding_error(); (jxl_color::Error::Decoder(c), e) }
        2 => (jxl_color::Error::InvalidIccStream("x"), false),
        _ => (jxl_color::Error::IccProfileEmbedded, false),
    }
}

macro_rules! eof_contract {
    ($name:ident, $gen:expr, $label:expr) => {
        #[kani::proof]
        fn $name() {
            let (err, is_eof) = $gen;
            let got = err.unexpected_eof();
            assert!(got == is_eof, $label);
            kani::cover!(is_eof);
            kani::cover!(!is_eof);
            std::mem::forget(err);
        }
    };
}

eof_contract!(eof_via_bitstream, { let (b, e) = any_bitstream_error(); (Error::Bitstream(b), e) },
    "[C11] unexpected_eof() <=> wrapped Io(UnexpectedEof)  (render <- bitstream)");
eof_contract!(eof_via_decoder, { let (c, e) = any_coding_error(); (Error::Decoder(c), e) },
    "[C11] unexpected_eof() <=> wrapped Io(UnexpectedEof)  (render <- coding <- bitstream)");
eof_contract!(eof_via_modular, { let (m, e) = any_modular_error(); (Error::Modular(m), e) },
    "[C11] unexpected_eof() <=> wrapped Io(UnexpectedEof)  (render <- modular <- ...)");
eof_contract!(eof_via_frame, { let (f, e) = any_frame_error(); (Error::Frame(f), e) },
    "[C11] unexpected_eof() <=> wrapped Io(UnexpectedEof)  (render <- frame <- (bitstream | coding | modular | vardct <- ...))");
eof_contract!(eof_via_color, { let (c, e) = any_color_error(); (Error::Color(c), e) },
    "[C11] unexpected_eof() <=> wrapped Io(UnexpectedEof)  (render <- color <- ...)");

#[kani::proof]
fn eof_other_variants() {
    let k: u8 = kani::any();
    let err = match k % 5 {
        0 => Error::IncompleteFrame,
        1 => Error::FailedReference,
        2 => Error::NotReady,
        3 => Error::InvalidReference(kani::any()),
        _ => Error::UninitializedLfFrame(kani::any()),
    };
    assert!(!err.unexpected_eof(), "[C11] non-wrapper render errors are never classified as end-of-data");
}
