// Contracts for crates/jxl-vardct/src/hf_metadata.rs (child module of hf_metadata).
//
// Everything else in this file is the body of HfMetadata::parse, which needs a decoded Modular sub-image (not
// constructible in a harness: Modular::parse does not close under CBMC). What can be called in isolation is the
// occupancy predicate of the varblock placement loop (hf_metadata.rs:125,165): a cell is free iff it is still Uninit;
// `Data` (top-left cell of a varblock) and `Occupied` (any other covered cell) both block a new varblock. The
// placement loop's two rejections ("varblocks overlap", "doesn't fit") and HfCoeff's `BlockInfo::Data` scan rest on it.
use super::*;

#[kani::proof]
fn block_info_occupied_contract() {
    let v: u8 = kani::any();
    let hf_mul: i32 = kani::any();
    let which: u8 = kani::any();
    let dct_select = match TransformType::try_from(v) {
        Ok(t) => t,
        Err(e) => {
            std::mem::forget(e); // (its drop glue is recursive through io::Error)
            return;
        }
    };
    let b = match which {
        0 => BlockInfo::Uninit,
        1 => BlockInfo::Occupied,
        _ => BlockInfo::Data { dct_select, hf_mul },
    };
    assert!(b.is_occupied() == (which != 0), "[C01,C17] a cell is free exactly when it is Uninit (Data and Occupied cells are taken)");
    assert!(!BlockInfo::default().is_occupied(), "[C01,C17] a fresh grid (BlockInfo::default) is free");
    kani::cover!(which == 0);
    kani::cover!(which == 1);
    kani::cover!(which == 2 && v == 26);
}
