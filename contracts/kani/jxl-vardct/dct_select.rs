// Contracts for crates/jxl-vardct/src/dct_select.rs (child module of dct_select).
//
// Spec sources: ISO/IEC 18181-1, Table "DctSelect" (numbering 0..=26 and the varblock size of every transform) and
// the tables libjxl derives from it (transcribed; libjxl's DCTAxB means A rows by B columns):
//   * lib/jxl/ac_strategy.h  AcStrategy::Type (numbering), covered_blocks_x() / covered_blocks_y() kLut
//   * lib/jxl/quant_weights.h kQuantTable: DctSelect -> index of the dequantisation-matrix parameter set (17 sets)
//   * lib/jxl/coeff_order_fwd.h kStrategyOrder: DctSelect -> coefficient-order id (13 orders)
// `TransformType::try_from(u8)` is the only producer of TransformType values from decoded data
// (hf_metadata.rs:133, the DctSelect channel sample truncated to u8); it transmutes the byte behind a range guard, so
// a wrong guard manufactures an invalid enum value (undefined behaviour, C02).
use super::*;

#[path = "@SPEC@/vardct_tables.rs"]
mod tables;
use tables::*;

#[kani::proof]
fn canary() {
    let v: u8 = kani::any();
    assert!(TransformType::try_from(v).is_ok(), "canary: must fail");
}

// ------------------------------------------------------------------------------------------------
// TryFrom<u8>: Ok exactly for the 27 valid discriminants, and the value is the variant with that number
// ------------------------------------------------------------------------------------------------
#[kani::proof]
fn try_from_contract() {
    let v: u8 = kani::any();
    let r = TransformType::try_from(v);
    let is_ok = r.is_ok();
    assert!(is_ok == (v <= 26), "[C02,C01] Ok exactly for the valid discriminants 0..=26 (anything else would be an invalid enum value)");
    match r {
        Ok(t) => {
            // only reached with v <= 26 on a correct guard; the index is clamped so that a wrong guard is reported by
            // the tagged assert above and not as a harness defect
            let want = SPEC_VARIANT[if v <= 26 { v as usize } else { 0 }];
            assert!(v > 26 || t as u8 == v, "[C02,C17] the discriminant of the returned value is v");
            assert!(v > 26 || t == want, "[C17] the returned value is the transform with number v of Table DctSelect");
        }
        Err(jxl_bitstream::Error::InvalidEnum { name, value }) => {
            assert!(value == v as u32, "[C01] the error reports the rejected value");
            assert!(!name.is_empty(), "[C01] and the type name");
        }
        Err(_) => assert!(false, "[C01] the only failure is InvalidEnum"),
    }
    kani::cover!(is_ok && v == 0);
    kani::cover!(is_ok && v == 26);
    kani::cover!(!is_ok && v == 27);
    kani::cover!(!is_ok && v == 255);
}

// ------------------------------------------------------------------------------------------------
// the pure tables == the standard's / libjxl's tables, for every transform
// ------------------------------------------------------------------------------------------------
#[kani::proof]
fn tables_contract() {
    let v: usize = kani::any();
    kani::assume(v <= 26);
    let t = SPEC_VARIANT[v];
    assert!(t as usize == v, "[C17] the enum numbering is the standard's numbering");
    let (w, h) = t.dct_select_size();
    assert!(w == SPEC_BX[v] && h == SPEC_BY[v], "[C17,C01] dct_select_size == (covered_blocks_x, covered_blocks_y) of Table DctSelect");
    assert!(w.is_power_of_two() && h.is_power_of_two() && w <= 32 && h <= 32,
        "[C01,C02] sizes are powers of two up to 32 blocks (hf_coeff.rs:106 takes trailing_zeros of w * h; hf_metadata.rs:146 compares with the 32-block group)");
    assert!(t.dequant_matrix_param_index() == SPEC_QIDX[v], "[C17,C01] dequant_matrix_param_index == kQuantTable (17 parameter sets, < 17)");
    assert!(t.order_id() == SPEC_ORDER[v], "[C17,C01] order_id == kStrategyOrder (13 orders, < 13)");
    // the matrix / coefficient layout of a W x H block transform is stored with the longer side first:
    // (8 * max, 8 * min), 64 * w * h weights in total
    let (mw, mh) = t.dequant_matrix_size();
    assert!(mw == 8 * w.max(h) && mh == 8 * w.min(h), "[C17,C01] dequant_matrix_size == 8 * (longer side, shorter side) of the varblock");
    // coefficients are kept in that layout; blocks that are at least as tall as wide are stored transposed, the
    // special 8x8 transforms never
    assert!(t.need_transpose() == (!SPEC_SPECIAL_8X8[v] && h >= w), "[C17] need_transpose <=> not a special 8x8 transform and height >= width");
    // transforms sharing a parameter set / an order have the same matrix size (the set is indexed by one of them)
    let u: usize = kani::any();
    kani::assume(u <= 26);
    let tu = SPEC_VARIANT[u];
    if tu.dequant_matrix_param_index() == t.dequant_matrix_param_index() || (tu.order_id() == t.order_id() && t.order_id() != 1 && t.order_id() != 0) {
        assert!(tu.dequant_matrix_size() == t.dequant_matrix_size(), "[C01,C02] same parameter set or order => same matrix size");
    }
    kani::cover!(v == 0);
    kani::cover!(v == 6 && w == 1 && h == 2);
    kani::cover!(v == 26 && w == 32 && h == 16);
    kani::cover!(u != v && tu.order_id() == t.order_id() && t.order_id() == 12);
}
