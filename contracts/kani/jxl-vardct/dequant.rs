// Contracts for crates/jxl-vardct/src/dequant.rs (child module of dequant: sees DequantMatrixParams,
// DequantMatrixParamsEncoding, the private fields of DequantMatrixSet / DequantMatrixSetParams).
//
// Spec (ISO/IEC 18181-1, "Dequantization matrices"; libjxl lib/jxl/quant_weights.cc ComputeQuantTable / Decode):
//  * encoding modes Hornuss (1), DCT2 (2), DCT4 (3), DCT4x8 (4), AFV (5) describe an 8x8 matrix and are only valid for
//    the parameter sets of the 8x8 transforms (libjxl: "required_size_x != 1 || required_size_y != 1 -> failure");
//  * Hornuss: weight[i] = p0 for every i, weight[1] = weight[8] = p1, weight[9] = p2 (position 0 is the unused DC slot);
//  * DCT2:    for the cell (x, y) with m = max(x, y) >= 1 and s = floor(log2 m): p[2s + 1] if min(x, y) >= 2^s, else p[2s];
//  * every weight must be strictly positive (and its reciprocal below 1e8): otherwise the stream is invalid. The set
//    stores the RECIPROCAL 1 / weight (the decoder multiplies).
// Parameter ranges: Hornuss / DCT2 parameters are read with Bitstream::read_f16_as_f32 (dequant.rs:450-456), i.e. any
// FINITE binary16 value (NaN / infinity are rejected there, obligation bs.read_f16): |p| <= 65504 and p == 0 or
// |p| >= 2^-24. The harnesses assume the (slightly larger) set of all f32 with these bounds.
// The nested helpers interpolate / mult / dct_quant_weights are items inside into_matrix's body and cannot be named from
// here; they use powf / sqrt, which CBMC does not model exactly -- the DCT-band modes are not under contract.
use super::*;

#[path = "@SPEC@/vardct_tables.rs"]
mod tables;
use tables::*;

/// superset of the finite binary16 values
fn f16_range(p: f32) -> bool {
    p.abs() <= 65504.0 && (p == 0.0 || p.abs() >= 5.9604645e-8)
}

fn is_validation_failed<T>(r: &Result<T>) -> bool {
    matches!(r, Err(crate::Error::Bitstream(jxl_bitstream::Error::ValidationFailed(_))))
}

// ------------------------------------------------------------------------------------------------
// into_matrix, Hornuss mode
// NOT REGISTERED (into_matrix_hornuss, into_matrix_dct2): neither closes. `params.map(..)` builds the [Vec<f32>; 3]
// through MaybeUninit copies, after which CBMC no longer resolves the slice iterators' `ptr == end` tests: the
// FlattenCompat loop of `weights.iter_mut().flatten()` is unwound to the bound on every one of the 192 calls
// (measured: out of memory at 14 GB after 12 min with unwind 195; 10 min without reaching the solver with unwind 66).
// Kept as the statement of the intended contract.
// ------------------------------------------------------------------------------------------------
#[kani::proof]
#[kani::unwind(195)]
fn into_matrix_hornuss() {
    let p: [[f32; 3]; 3] = kani::any();
    let mut all_pos = true;
    let mut c = 0;
    while c < 3 {
        let mut j = 0;
        while j < 3 {
            kani::assume(f16_range(p[c][j]));
            all_pos &= p[c][j] > 0.0;
            j += 1;
        }
        c += 1;
    }
    let m = DequantMatrixParams { dct_select: TransformType::Hornuss, encoding: DequantMatrixParamsEncoding::Hornuss(p) };
    let r = m.into_matrix();
    assert!(r.is_ok() == all_pos, "[C01,C17] accepted exactly when every weight parameter is strictly positive");
    assert!(r.is_ok() || is_validation_failed(&r), "[C01] rejection is a validation error");
    if let Ok(w) = &r {
        let c: usize = kani::any();
        let i: usize = kani::any();
        kani::assume(c < 3 && i < 64);
        assert!(w[c].len() == 64, "[C01,C02] 64 weights per channel");
        let want = if i == 0 { 1.0 } else if i == 1 || i == 8 { p[c][1] } else if i == 9 { p[c][2] } else { p[c][0] };
        assert!(w[c][i] > 0.0 && w[c][i] < 1e8, "[C01,C17] every stored multiplier is strictly positive and below 1e8");
        assert!(w[c][i] == 1.0 / want, "[C17] stored multiplier == 1 / weight of the Hornuss layout (p0 everywhere, p1 at 1 and 8, p2 at 9)");
    }
    kani::cover!(r.is_ok());
    kani::cover!(r.is_err() && p[2][2] == 0.0 && p[0][0] > 0.0);
    kani::cover!(r.is_err() && p[1][1] < 0.0);
    std::mem::forget(r); // (the drop glue of crate::Error is recursive through io::Error)
}

// ------------------------------------------------------------------------------------------------
// into_matrix, DCT2 mode
// ------------------------------------------------------------------------------------------------
#[kani::proof]
#[kani::unwind(195)]
fn into_matrix_dct2() {
    let p: [[f32; 6]; 3] = kani::any();
    let mut all_pos = true;
    let mut c = 0;
    while c < 3 {
        let mut j = 0;
        while j < 6 {
            kani::assume(f16_range(p[c][j]));
            all_pos &= p[c][j] > 0.0;
            j += 1;
        }
        c += 1;
    }
    let m = DequantMatrixParams { dct_select: TransformType::Dct2, encoding: DequantMatrixParamsEncoding::Dct2(p) };
    let r = m.into_matrix();
    assert!(r.is_ok() == all_pos, "[C01,C17] accepted exactly when every weight parameter is strictly positive");
    assert!(r.is_ok() || is_validation_failed(&r), "[C01] rejection is a validation error");
    if let Ok(w) = &r {
        let c: usize = kani::any();
        let x: usize = kani::any();
        let y: usize = kani::any();
        kani::assume(c < 3 && x < 8 && y < 8);
        assert!(w[c].len() == 64, "[C01,C02] 64 weights per channel");
        let (mx, mn) = (x.max(y), x.min(y));
        let want = if mx == 0 {
            1.0
        } else {
            let s = if mx >= 4 { 2 } else if mx >= 2 { 1 } else { 0 };
            if mn >= (1 << s) { p[c][2 * s + 1] } else { p[c][2 * s] }
        };
        let got = w[c][y * 8 + x];
        assert!(got > 0.0 && got < 1e8, "[C01,C17] every stored multiplier is strictly positive and below 1e8");
        assert!(got == 1.0 / want, "[C17] stored multiplier == 1 / weight of the DCT2 layout");
    }
    kani::cover!(r.is_ok());
    kani::cover!(r.is_err() && p[2][5] == 0.0 && p[0][0] > 0.0);
    std::mem::forget(r);
}

// ------------------------------------------------------------------------------------------------
// DequantMatrixSet::get / get_transposed: the parameter-set index of every transform
// ------------------------------------------------------------------------------------------------
#[kani::proof]
#[kani::unwind(19)]
fn set_get_contract() {
    // what DequantMatrixSet::parse builds: 17 sets x 3 channels (DCT_SELECT_LIST, dequant.rs:591-594); here every
    // matrix has a distinct length so that the returned slice identifies (kind, set, channel)
    let mut matrices: Vec<[Vec<f32>; 3]> = Vec::with_capacity(17);
    let mut matrices_tr: Vec<[Vec<f32>; 3]> = Vec::with_capacity(17);
    let mut s = 0;
    while s < 17 {
        matrices.push([vec![0.0; 3 * s + 1], vec![0.0; 3 * s + 2], vec![0.0; 3 * s + 3]]);
        matrices_tr.push([vec![0.0; 60 + 3 * s + 1], vec![0.0; 60 + 3 * s + 2], vec![0.0; 60 + 3 * s + 3]]);
        s += 1;
    }
    let set = DequantMatrixSet { matrices, matrices_tr, jpeg_matrices: Vec::new() };
    let v: usize = kani::any();
    let c: usize = kani::any();
    kani::assume(v <= 26 && c < 3);
    let t = SPEC_VARIANT[v];
    let q = SPEC_QIDX[v] as usize;
    assert!(set.get(c, t).len() == 3 * q + c + 1, "[C17,C01] get(channel, t) is matrix kQuantTable[t] of that channel (no index panic for any transform)");
    assert!(set.get_transposed(c, t).len() == 60 + 3 * q + c + 1, "[C17,C01] get_transposed likewise, from the transposed set");
    assert!(q == t.dequant_matrix_param_index() as usize, "[C17] consistent with dequant_matrix_param_index");
    assert!(set.jpeg_quant_values(c).is_none(), "[C17] no raw JPEG tables were kept");
    kani::cover!(v == 26 && q == 16);
    kani::cover!(v == 13 && q == 9 && c == 2);
}

// ------------------------------------------------------------------------------------------------
// DequantMatrixParams::parse: the 8x8-only encoding modes are rejected for every other parameter set; Hornuss
// parameters are the nine F16 fields in channel-major order
// NOT REGISTERED: the encoding mode is read from the bit stream, so the arm of mode 7 (Modular::parse + decode of a
// raw matrix) is part of the formula although the assumption excludes it; symbolic execution did not finish in 15 min.
// Kept as the statement of the intended contract.
// ------------------------------------------------------------------------------------------------
#[kani::proof]
#[kani::unwind(12)]
fn parse_mode_guard() {
    let data: [u8; 20] = kani::any();
    let mode = data[0] & 7;
    let v: usize = kani::any();
    kani::assume(v <= 26);
    let t = SPEC_VARIANT[v];
    let is_8x8 = SPEC_BX[v] == 1 && SPEC_BY[v] == 1;
    // modes 3..=5 on an 8x8 set read band vectors of symbolic length (not under contract): keep to the guard + Hornuss
    kani::assume((1..=5).contains(&mode) && (mode == 1 || !is_8x8));
    let pool = jxl_threadpool::JxlThreadPool::none();
    let params = DequantMatrixSetParams { dct_select: t, bit_depth: 8, stream_index: 1, global_ma_config: None, tracker: None, pool: &pool };
    let mut bs = Bitstream::new(&data);
    let r = DequantMatrixParams::parse(&mut bs, params);
    if !is_8x8 {
        assert!(is_validation_failed(&r), "[C01,C17] Hornuss / DCT2 / DCT4 / DCT4x8 / AFV encodings are rejected for parameter sets of transforms larger than 8x8");
    } else {
        // reference: the same fields read one by one (Bitstream::read_f16_as_f32 is under contract bs.read_f16)
        let mut bs2 = Bitstream::new(&data);
        if let Err(e) = bs2.read_bits(3) {
            std::mem::forget(e);
        }
        let mut want = [[0.0f32; 3]; 3];
        let mut bad = false;
        let mut k = 0;
        while k < 9 && !bad {
            match bs2.read_f16_as_f32() {
                Ok(x) => want[k / 3][k % 3] = x,
                Err(e) => {
                    std::mem::forget(e);
                    bad = true;
                }
            }
            k += 1;
        }
        match &r {
            Ok(DequantMatrixParams { dct_select, encoding: DequantMatrixParamsEncoding::Hornuss(p) }) => {
                assert!(!bad, "[C17,C01] Ok only if all nine fields are finite F16 values");
                assert!(*dct_select == t, "[C17] the transform is kept");
                let (c, j): (usize, usize) = (kani::any(), kani::any());
                kani::assume(c < 3 && j < 3);
                assert!(p[c][j] == want[c][j], "[C17] parameter (c, j) is the (3c + j)-th F16 field after the 3-bit mode");
                assert!(bs.num_read_bits() == 3 + 9 * 16, "[C17] 147 bits consumed");
            }
            Ok(_) => assert!(false, "[C17] mode 1 yields the Hornuss encoding"),
            Err(_) => assert!(bad, "[C17,C01] the only failure is a NaN / infinite field"),
        }
    }
    kani::cover!(!is_8x8 && mode == 5 && v == 26);
    kani::cover!(is_8x8 && r.is_ok() && v == 14);
    kani::cover!(is_8x8 && r.is_err());
    std::mem::forget(r);
}
