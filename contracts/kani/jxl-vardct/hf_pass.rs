// Contracts for crates/jxl-vardct/src/hf_pass.rs (child module of hf_pass: sees BLOCK_SIZES, NATURAL_ORDER,
// natural_order_lazy, const_compute_natural_order, fill_natural_order).
//
// Spec (ISO/IEC 18181-1, "Natural ordering of the DCT coefficients"; libjxl lib/jxl/ac_strategy.cc CoeffOrderAndLut):
// a coefficient order for a transform of bw x bh coefficients (stored with the longer side horizontal, bw >= bh,
// cx = bw / 8, cy = bh / 8) is the concatenation of
//   LLF: the cells x < cx, y < cy in raster order (index y * cx + x), and
//   HF:  every other cell, sorted by the zig-zag key of the bw x bw square it is embedded in: with the row
//        y' = y * (bw / bh) of the square, key1 = x + y' (the anti-diagonal), and inside an anti-diagonal x ascending
//        when key1 is even, x descending when key1 is odd.
// For the 8x8 DCT this is the JPEG zig-zag sequence (ITU-T T.81 Figure A.6), which the JPEG reconstruction relies on
// byte for byte (crates/jxl-jbr/src/reconstruct/scan.rs:480 walks DCT8_NATURAL_ORDER[Ss..=Se]).
// The spec is stated as a recogniser (`is_natural_order_at`): LLF entries by value, HF entries in range and strictly
// increasing in the key; since the key is injective on cells and the vector has exactly bw * bh entries, a vector
// passing at every index is THE sorted vector. Nothing of the real construction loops is reused.
use super::*;

#[path = "@SPEC@/vardct_tables.rs"]
mod tables;

/// T.81 Figure A.6: zig-zag index -> raster index (8 * row + column)
const JPEG_ZIGZAG: [u8; 64] = [
    0, 1, 8, 16, 9, 2, 3, 10, 17, 24, 32, 25, 18, 11, 4, 5, 12, 19, 26, 33, 40, 48, 41, 34, 27, 20, 13, 6, 7, 14, 21, 28,
    35, 42, 49, 56, 57, 50, 43, 36, 29, 22, 15, 23, 30, 37, 44, 51, 58, 59, 52, 45, 38, 31, 39, 46, 53, 60, 61, 54, 47, 55, 62, 63,
];

/// 18181-1 Table DctSelect -> coefficient layout (bw, bh) of the order with that id (libjxl kStrategyOrder and
/// covered_blocks: 8 * (longer side, shorter side) in blocks)
const SPEC_BLOCK_SIZES: [(usize, usize); 13] = [
    (8, 8), (8, 8), (16, 16), (32, 32), (16, 8), (32, 8), (32, 16), (64, 64), (64, 32), (128, 128), (128, 64), (256, 256), (256, 128),
];

/// zig-zag key of an HF cell: (anti-diagonal, position inside it); lexicographically increasing along the order
fn spec_key(bw: usize, bh: usize, x: usize, y: usize) -> (usize, usize) {
    let ys = y * (bw / bh);
    let key1 = x + ys;
    (key1, if key1 % 2 == 0 { x } else { ys })
}

/// does `ord` look like the natural order of a bw x bh transform at index k (and k + 1)?
fn is_natural_order_at(ord: &[(u16, u16)], bw: usize, bh: usize, k: usize) -> bool {
    let (cx, cy) = (bw / 8, bh / 8);
    let (x, y) = (ord[k].0 as usize, ord[k].1 as usize);
    if k < cx * cy {
        return x == k % cx && y == k / cx;
    }
    if !(x < bw && y < bh && (x >= cx || y >= cy)) {
        return false;
    }
    if k + 1 < ord.len() {
        let (x1, y1) = (ord[k + 1].0 as usize, ord[k + 1].1 as usize);
        let (a, b) = (spec_key(bw, bh, x, y), spec_key(bw, bh, x1, y1));
        return a.0 < b.0 || (a.0 == b.0 && a.1 < b.1);
    }
    true
}

// ------------------------------------------------------------------------------------------------
// DCT8_NATURAL_ORDER == the JPEG zig-zag sequence
// ------------------------------------------------------------------------------------------------
#[kani::proof]
fn dct8_order_is_jpeg_zigzag() {
    assert!(DCT8_NATURAL_ORDER.len() == 64, "[C17,C01] 64 coefficients (scan.rs:480 slices it with Ss.max(1)..Se + 1 <= 64)");
    let k: usize = kani::any();
    kani::assume(k < 64);
    let (x, y) = DCT8_NATURAL_ORDER[k];
    assert!(x < 8 && y < 8, "[C17,C01,C02] coordinates inside the 8x8 block (scan.rs:482 reads the coefficient grid there)");
    assert!(y as u8 * 8 + x as u8 == JPEG_ZIGZAG[k], "[C17] k-th coefficient of the order == k-th coefficient of the T.81 zig-zag sequence (x = column, y = row)");
    kani::cover!(k == 63 && x == 7 && y == 7);
    kani::cover!(k == 1 && x == 1 && y == 0);
}

// ------------------------------------------------------------------------------------------------
// natural_order_lazy(id) for the compile-time orders (ids 0..=8, transforms up to 64x64)
// ------------------------------------------------------------------------------------------------
fn check_const_order(id: usize) {
    let (bw, bh) = SPEC_BLOCK_SIZES[id];
    assert!(BLOCK_SIZES[id] == (bw, bh), "[C17,C01] BLOCK_SIZES == layout of the order per Table DctSelect");
    let ord = natural_order_lazy(id);
    assert!(ord.len() == bw * bh, "[C17,C01,C02] one entry per coefficient (hf_coeff.rs:207 skips the first w8 * h8 and walks the rest)");
    let k: usize = kani::any();
    kani::assume(k < bw * bh);
    assert!(is_natural_order_at(ord, bw, bh, k), "[C17,C01] LLF cells in raster order, then every HF cell exactly once in zig-zag key order, all inside bw x bh");
    kani::cover!(k == bw * bh - 1);
    kani::cover!(k == 0);
}

#[kani::proof]
fn const_orders_small() {
    check_const_order(0);
    check_const_order(1);
    check_const_order(2);
    check_const_order(4);
    check_const_order(5);
}

#[kani::proof]
fn const_orders_large() {
    check_const_order(3);
    check_const_order(6);
    check_const_order(7);
    check_const_order(8);
}

// ------------------------------------------------------------------------------------------------
// fill_natural_order (the run-time twin used for the 128 / 256 transforms) on small sizes: writes every entry,
// stays inside the slice, and produces the same vector as the compile-time construction / the spec
// ------------------------------------------------------------------------------------------------
fn check_fill<const N: usize>(id: usize) {
    let (bw, bh) = SPEC_BLOCK_SIZES[id];
    assert!(N == bw * bh);
    let mut out = [(u16::MAX, u16::MAX); N];
    fill_natural_order((bw, bh), &mut out);
    let k: usize = kani::any();
    kani::assume(k < N);
    assert!(is_natural_order_at(&out, bw, bh, k), "[C17,C01,C02] fill_natural_order writes exactly bw * bh entries (no out-of-bounds index) forming the natural order");
    assert!(out[k] == NATURAL_ORDER[id][k], "[C17] run-time and compile-time constructions agree");
    kani::cover!(k + 1 == N);
}

#[kani::proof]
#[kani::unwind(34)]
fn fill_order_8x8_16x8_16x16() {
    check_fill::<64>(0);
    check_fill::<128>(4);
    check_fill::<256>(2);
}

#[kani::proof]
#[kani::unwind(66)]
fn fill_order_32x8_32x16_32x32() {
    check_fill::<256>(5);
    check_fill::<512>(6);
    check_fill::<1024>(3);
}

// ------------------------------------------------------------------------------------------------
// natural_order_lazy for one of the lazily built orders (id 10: 128x64, the smallest): the `static mut` +
// Once initialisation yields a fully initialised vector of the right length
// NOT REGISTERED: does not close (CBMC exceeds 14 GB on the 8192-entry Vec::resize + fill_natural_order(128, 64)).
// ------------------------------------------------------------------------------------------------
#[kani::proof]
#[kani::unwind(8194)]
fn lazy_order_128x64() {
    let ord = natural_order_lazy(10);
    assert!(ord.len() == 128 * 64, "[C01,C02,C17] one entry per coefficient");
    let k: usize = kani::any();
    kani::assume(k < 128 * 64);
    assert!(is_natural_order_at(ord, 128, 64, k), "[C17,C01,C02] natural order of the 128x64 layout, every entry initialised");
    let again = natural_order_lazy(10);
    assert!(again.len() == ord.len() && again[k] == ord[k], "[C02] a second call returns the same initialised table");
}

// ------------------------------------------------------------------------------------------------
// what write_hf_coeff needs from (TransformType, order) together (hf_coeff.rs:105-108,203-236): for a varblock of
// w8 x h8 blocks the order of its order_id has 64 * w8 * h8 entries, and every entry -- swapped when need_transpose()
// -- lies inside the varblock's 8*w8 x 8*h8 coefficient area
// ------------------------------------------------------------------------------------------------
#[kani::proof]
fn order_fits_varblock() {
    // (not through try_from: dropping its Err drags the recursive drop glue of io::Error into the formula)
    let v: usize = kani::any();
    kani::assume(v <= 26);
    let t = tables::SPEC_VARIANT[v];
    let (w8, h8) = t.dct_select_size();
    let id = t.order_id() as usize;
    assert!(id < 13, "[C01] order_id indexes BLOCK_SIZES / HfPass::permutation (13 entries); natural_order_lazy panics otherwise");
    let (bw, bh) = BLOCK_SIZES[id];
    assert!(bw * bh == 64 * (w8 * h8) as usize, "[C01,C17] the order has 64 entries per covered block (hf_coeff.rs:207-211: index >> log2(blocks) <= 62 into a 63-entry table)");
    assert!(if t.need_transpose() { bh == 8 * w8 as usize && bw == 8 * h8 as usize } else { bw == 8 * w8 as usize && bh == 8 * h8 as usize },
        "[C01,C02,C17] the order's layout, swapped when need_transpose(), is the varblock's coefficient area (hf_coeff.rs:229-236 writes coeff_grid at sx * 8 + dx, sy * 8 + dy)");
    if id < 9 {
        // (concrete ids: the lazily initialised arm of natural_order_lazy must stay out of the formula)
        let ord = match id {
            0 => natural_order_lazy(0),
            1 => natural_order_lazy(1),
            2 => natural_order_lazy(2),
            3 => natural_order_lazy(3),
            4 => natural_order_lazy(4),
            5 => natural_order_lazy(5),
            6 => natural_order_lazy(6),
            7 => natural_order_lazy(7),
            _ => natural_order_lazy(8),
        };
        let k: usize = kani::any();
        kani::assume(k < ord.len());
        let (mut dx, mut dy) = ord[k];
        if t.need_transpose() {
            std::mem::swap(&mut dx, &mut dy);
        }
        assert!((dx as u32) < 8 * w8 && (dy as u32) < 8 * h8, "[C01,C02,C17] every coefficient coordinate lies inside the varblock");
    }
    kani::cover!(v == 6);
    kani::cover!(v == 7);
    kani::cover!(v == 20 && id == 8);
    kani::cover!(v == 26 && id == 12);
}
