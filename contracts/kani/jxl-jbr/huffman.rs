// Contracts for crates/jxl-jbr/src/huffman.rs (child module: sees HuffmanCode, BuiltHuffmanTable fields).
//
// Specification of `HuffmanCode::build`: ITU-T T.81 Annex C -- Figure C.1 (Generate_size_table: HUFFSIZE
// from BITS), Figure C.2 (Generate_code_table: canonical codes, consecutive within a length, shifted left
// when the length grows) and Figure C.3 (Order_codes: EHUFCO/EHUFSI indexed by symbol value), transcribed
// in `spec_jpeg_canonical_code`. The reconstruction format (18181-2 jbrd, as libjxl writes it) stores per
// table counts[0..=16] (codes per length) and the symbol list INCLUDING a final sentinel symbol 256 that
// occupies the last (longest, all-ones) code: the real table is everything but the last entry. So
// BITS[i] = counts[i], HUFFVAL = values[..n-1], and HUFFSIZE/HUFFCODE are generated for all n entries.
// Code words are handed to the bit writer left-aligned in a u64 (see bit_writer.rs contract).
//
// What the parser can return (HuffmanCode::parse, huffman.rs:65-92; proved by `parse_contract`):
//   is_ac, is_last: any bool; id: 0..=3; counts[i]: 0..=255 for every i in 0..=16 (U32(0, 1, 2+u(3), u(8)));
//   values.len() == sum(counts) (0..=4335); values[k]: any u8 (U32(u(2), 4+u(2), 8+u(4), 1+u(8)) truncated
//   to u8, so the sentinel 256 is stored as 0). NOTHING else is validated: in particular sum(counts) may be
//   0 or 1, counts[0] may be non-zero, and the code may be over-subscribed.
use super::*;

// ------------------------------------------------------------------------------------------------
// abstract bit view of the input (18181-1 section 9: LSB-first within a byte) and spec field readers
// ------------------------------------------------------------------------------------------------
struct SpecBits<'a> {
    data: &'a [u8],
    pos: usize,
}

impl SpecBits<'_> {
    fn u(&mut self, n: usize) -> Option<u32> {
        if self.pos + n > self.data.len() * 8 {
            return None;
        }
        let mut v = 0u32;
        let mut i = 0;
        while i < n {
            let p = self.pos + i;
            v |= (((self.data[p / 8] >> (p % 8)) & 1) as u32) << i;
            i += 1;
        }
        self.pos += n;
        Some(v)
    }
    /// U32(d0, d1, d2, d3) with d = (offset, bits)
    fn u32(&mut self, d: [(u32, usize); 4]) -> Option<u32> {
        let sel = self.u(2)? as usize;
        let (off, n) = d[sel];
        Some(off + self.u(n)?)
    }
}

pub(crate) const MAXV: usize = 6;

struct SpecHuffmanCode {
    is_ac: bool,
    id: u8,
    is_last: bool,
    counts: [u8; 17],
    n: usize,
    values: [u8; MAXV],
}

/// 18181-2 jbrd Huffman code bundle; None = ran out of bits (or more than MAXV values: not decided here)
fn spec_parse(data: &[u8]) -> Option<(SpecHuffmanCode, usize)> {
    let mut b = SpecBits { data, pos: 0 };
    let is_ac = b.u(1)? != 0;
    let id = b.u(2)? as u8;
    let is_last = b.u(1)? != 0;
    let mut counts = [0u8; 17];
    let mut n = 0usize;
    let mut i = 0;
    while i < 17 {
        let c = b.u32([(0, 0), (1, 0), (2, 3), (0, 8)])?;
        counts[i] = c as u8;
        n += c as usize;
        i += 1;
    }
    let mut values = [0u8; MAXV];
    let mut k = 0;
    while k < MAXV {
        if k < n {
            values[k] = b.u32([(0, 2), (4, 2), (8, 4), (1, 8)])? as u8;
        }
        k += 1;
    }
    if n > MAXV {
        // the input is too short for that many values (see parse_contract): the real parser hits the end too
        b.u32([(0, 2), (4, 2), (8, 4), (1, 8)])?;
        return None;
    }
    Some((SpecHuffmanCode { is_ac, id, is_last, counts, n, values }, b.pos))
}

// ------------------------------------------------------------------------------------------------
// T.81 Annex C
// ------------------------------------------------------------------------------------------------
pub(crate) struct SpecTable {
    pub ehufsi: [u8; 256],
    pub ehufco: [u32; 256],
}

/// `bits[i]`, i in 1..=16: number of codes of length i (BITS); `huffval[..n]`: symbols in code order, the
/// last of the n entries being the sentinel that gets a code but no table entry. Requires n >= 1, n <= MAXV,
/// sum(bits[1..=16]) == n.
pub(crate) fn spec_jpeg_canonical_code(bits: &[u8; 17], huffval: &[u8], n: usize) -> SpecTable {
    // Figure C.1 -- Generate_size_table
    let mut huffsize = [0u8; MAXV + 1];
    let mut k = 0usize;
    let mut i = 1usize;
    while i <= 16 {
        let mut j = 1usize;
        while j <= bits[i] as usize {
            huffsize[k] = i as u8;
            k += 1;
            j += 1;
        }
        i += 1;
    }
    huffsize[k] = 0;
    let lastk = k;
    // Figure C.2 -- Generate_code_table
    let mut huffcode = [0u32; MAXV + 1];
    let mut k = 0usize;
    let mut code = 0u32;
    let mut si = huffsize[0];
    loop {
        loop {
            huffcode[k] = code;
            code += 1;
            k += 1;
            if huffsize[k] != si {
                break;
            }
        }
        if huffsize[k] == 0 {
            break;
        }
        loop {
            code <<= 1;
            si += 1;
            if huffsize[k] == si {
                break;
            }
        }
    }
    // Figure C.3 -- Order_codes (all entries but the sentinel)
    let mut t = SpecTable { ehufsi: [0; 256], ehufco: [0; 256] };
    let mut k = 0usize;
    while k + 1 < lastk {
        let v = huffval[k] as usize;
        t.ehufco[v] = huffcode[k];
        t.ehufsi[v] = huffsize[k];
        k += 1;
    }
    let _ = n;
    t
}

fn any_code_in_parser_range(maxv: usize) -> HuffmanCode {
    let counts: [u8; 17] = kani::any();
    let mut sum = 0usize;
    let mut i = 0;
    while i < 17 {
        sum += counts[i] as usize;
        i += 1;
    }
    kani::assume(sum <= maxv);
    let raw: [u8; MAXV] = kani::any();
    let mut values = raw.to_vec();
    values.truncate(sum);
    let id: u8 = kani::any();
    kani::assume(id <= 3);
    HuffmanCode { is_ac: kani::any(), id, is_last: kani::any(), counts, values }
}

// ------------------------------------------------------------------------------------------------
// HuffmanCode::parse: exactly the fields of the bundle; derives the set of values the parser can return
// ------------------------------------------------------------------------------------------------
const PARSE_BYTES: usize = 8;

#[kani::proof]
#[kani::unwind(18)]
fn parse_contract() {
    // 4 + 17 * 2 = 38 bits is the shortest header; every value takes >= 4 bits: 8 bytes hold <= 6 values
    let data: [u8; PARSE_BYTES] = kani::any();
    let len: usize = kani::any();
    kani::assume(len <= PARSE_BYTES);
    let mut bs = Bitstream::new(&data[..len]);
    let r = HuffmanCode::parse(&mut bs, ());
    let s = spec_parse(&data[..len]);
    match (&r, &s) {
        (Ok(hc), Some((sp, pos))) => {
            assert!(hc.is_ac == sp.is_ac && hc.id == sp.id && hc.is_last == sp.is_last, "[C17] is_ac = u(1), id = u(2), is_last = u(1)");
            assert!(hc.id <= 3, "[C17,C01] table id indexes dc_tables/ac_tables ([_; 4], reconstruct.rs:485,487)");
            assert!(hc.counts == sp.counts, "[C17] counts[i] = U32(0, 1, 2 + u(3), u(8)), i = 0..=16");
            assert!(hc.values.len() == sp.n, "[C17,C01] one value per counted code: values.len() == sum(counts)");
            let k: usize = kani::any();
            kani::assume(k < sp.n);
            assert!(hc.values[k] == sp.values[k], "[C17] values[k] = U32(u(2), 4 + u(2), 8 + u(4), 1 + u(8)) as u8");
            assert!(bs.num_read_bits() == *pos, "[C17] exactly the bundle's bits are consumed");
        }
        (Err(e), None) => {
            assert!(e.unexpected_eof(), "[C01,C17] the only failure is running out of input");
        }
        _ => assert!(false, "[C17,C01] parse succeeds exactly when the bundle is complete"),
    }
    kani::cover!(r.is_ok());
    kani::cover!(r.is_err());
    kani::cover!(matches!(&r, Ok(hc) if hc.values.is_empty()));
    kani::cover!(matches!(&r, Ok(hc) if hc.values.len() == 6));
    kani::cover!(matches!(&r, Ok(hc) if hc.counts[0] == 1));
    kani::cover!(matches!(&r, Ok(hc) if hc.counts[16] == 255 || hc.counts[3] == 9));
}
