// Contracts for crates/jxl-jbr/src/huffman.rs (child module: sees HuffmanCode, BuiltHuffmanTable fields).
//
// Specification of `HuffmanCode::build`: ITU-T T.81 Annex C -- Figure C.1 (Generate_size_table: HUFFSIZE
// from BITS), Figure C.2 (Generate_code_table: canonical codes, consecutive within a length, shifted left
// when the length grows) and Figure C.3 (Order_codes: EHUFCO/EHUFSI indexed by symbol value), transcribed
// in `spec_jpeg_canonical_code`. The reconstruction format (18181-2 jbrd, as libjxl writes it) stores per
// table counts[0..=16] (codes per length) and the symbol list INCLUDING a final sentinel symbol 256 that
// occupies the last (longest, all-ones) code: the real table is everything but the last entry. So
// BITS[i] = counts[i], HUFFVAL = values[..n-1], and HUFFSIZE/HUFFCODE are generated for all n entries.
// Code words are handed to the bit writer left-aligned in a u64 (see bit_writer.rs contract).
//
// What the parser can return (HuffmanCode::parse, huffman.rs:65-92; derived by reading -- a symbolic
// run of the real parser on 8 input bytes did not close in 10 min / 8 GB; three concrete bundles go through it in
// `parse_build_witnesses`):
//   is_ac, is_last: any bool; id: 0..=3; counts[i]: 0..=255 for every i in 0..=16 (U32(0, 1, 2+u(3), u(8)));
//   values.len() == sum(counts) (0..=4335); values[k]: any u8 (U32(u(2), 4+u(2), 8+u(4), 1+u(8)) truncated
//   to u8, so the sentinel 256 is stored as 0). NOTHING else is validated: in particular sum(counts) may be
//   0 or 1, counts[0] may be non-zero, and the code may be over-subscribed.
use super::*;

pub(crate) const MAXV: usize = 6;

// Vec::push / <[u8]>::fill models: `push_model`, `fill_model` live in bit_writer.rs's harness module (the one
// module of this crate that is compiled into every run, because the crate canary is anchored there); they are
// referenced here by path in kani::stub attributes. Reason: every `push` drags Vec's reallocation path into
// the formula and `fill` is a memset of symbolic length; `build` with either does not fit into 12 GB.

// ------------------------------------------------------------------------------------------------
// T.81 Annex C
// ------------------------------------------------------------------------------------------------
/// EHUFSI(v), EHUFCO(v) of T.81 Figure C.3 for one symbol value v (size 0 = no code)
pub(crate) struct SpecEntry {
    pub size: u8,
    pub code: u32,
}

/// `bits[i]`, i in 1..=16: number of codes of length i (BITS); `huffval[..n]`: symbols in code order, the
/// last of the n entries being the sentinel that gets a code but no table entry. Requires 1 <= n <= MAXV,
/// sum(bits[1..=16]) == n.
pub(crate) fn spec_jpeg_canonical_code(bits: &[u8; 17], huffval: &[u8], n: usize, v: u8) -> SpecEntry {
    // Figure C.1 -- Generate_size_table
    let mut huffsize = [0u8; MAXV + 1];
    let mut k = 0usize;
    let mut i = 1usize;
    while i <= 16 {
        let mut j = 1usize;
        while j <= bits[i] as usize {
            huffsize[k] = i as u8;
            k += 1;
            j += 1;
        }
        i += 1;
    }
    huffsize[k] = 0;
    let lastk = k;
    // Figure C.2 -- Generate_code_table
    let mut huffcode = [0u32; MAXV + 1];
    let mut k = 0usize;
    let mut code = 0u32;
    let mut si = huffsize[0];
    loop {
        loop {
            huffcode[k] = code;
            code += 1;
            k += 1;
            if huffsize[k] != si {
                break;
            }
        }
        if huffsize[k] == 0 {
            break;
        }
        loop {
            code <<= 1;
            si += 1;
            if huffsize[k] == si {
                break;
            }
        }
    }
    // Figure C.3 -- Order_codes: for K = 0 .. LASTK-1 in order: EHUFCO(HUFFVAL(K)) = HUFFCODE(K),
    // EHUFSI(HUFFVAL(K)) = HUFFSIZE(K) -- evaluated for the one symbol v; the sentinel (last entry) is skipped
    let mut e = SpecEntry { size: 0, code: 0 };
    let mut k = 0usize;
    while k + 1 < lastk {
        if huffval[k] == v {
            e = SpecEntry { size: huffsize[k], code: huffcode[k] };
        }
        k += 1;
    }
    let _ = n;
    e
}

/// any HuffmanCode the parser can return that has exactly N values (N concrete: a symbolic Vec length makes
/// every allocation in `build` an object of symbolic size, which CBMC does not survive)
fn any_code_in_parser_range<const N: usize>() -> HuffmanCode {
    let counts: [u8; 17] = kani::any();
    let mut sum = 0usize;
    let mut i = 0;
    while i < 17 {
        sum += counts[i] as usize;
        i += 1;
    }
    kani::assume(sum == N);
    // HuffmanCode::parse rejects codes without the sentinel (sum == 0) and codes with a zero-length entry
    // (counts[0] != 0) -- huffman.rs, "invalid Huffman code in JPEG reconstruction data"; established by
    // jb.huff_parse_build_a / _c on the real parser.
    kani::assume(N >= 1 && counts[0] == 0);
    let raw: [u8; N] = kani::any();
    let values = raw.to_vec();
    let id: u8 = kani::any();
    kani::assume(id <= 3);
    HuffmanCode { is_ac: kani::any(), id, is_last: kani::any(), counts, values }
}

// ------------------------------------------------------------------------------------------------
// build == T.81 Annex C on the tables an encoder can emit (C17: "every JPEG file losslessly transcoded"):
// at least one real symbol + the sentinel, no zero-length code. Also lookup and encoded_len.
// ------------------------------------------------------------------------------------------------
fn check_table_against_spec(hc: &HuffmanCode, t: &BuiltHuffmanTable) {
    let n = hc.values.len();
    assert!(t.lengths.len() == 256 && t.bits.len() == 256, "[C17,C01] one entry per symbol value");
    let v: u8 = kani::any(); // one symbolic symbol == all 256
    let spec = spec_jpeg_canonical_code(&hc.counts, &hc.values, n, v);
    let sz = spec.size;
    let code = spec.code as u64;
    assert!(t.lengths[v as usize] == sz, "[C17] code length of symbol v == EHUFSI(v) (T.81 C.1, C.3); 0 = no code");
    if sz > 0 {
        assert!(sz <= 16, "[C17] DHT code lengths are 1..=16");
        assert!(t.bits[v as usize] == code << (64 - sz), "[C17] code word of symbol v == EHUFCO(v) (T.81 C.2, C.3), left-aligned");
        assert!(t.bits[v as usize] << sz == 0, "[C17] left-aligned: nothing below the top `len` bits (write_huffman's precondition)");
        if code < (1u64 << sz) {
            assert!(t.bits[v as usize] >> (64 - sz) == code, "[C17] the code word is recoverable");
        }
    } else {
        assert!(t.bits[v as usize] == 0, "[C17] symbols without a code have no bits");
    }
    match t.lookup(v) {
        Ok((l, b)) => assert!(sz > 0 && l == sz && b == t.bits[v as usize], "[C17] lookup returns (length, left-aligned code)"),
        Err(e) => assert!(sz == 0 && matches!(e, crate::Error::HuffmanLookup), "[C17,C01] a symbol without a code is an error, not a panic"),
    }
    assert!(hc.encoded_len() == 1 + 16 + (n - 1), "[C17] DHT segment share (T.81 B.2.4.2): Tc/Th + 16 counts + the real symbols");
    kani::cover!(sz == 16);
    kani::cover!(sz == 1 && code == 0);
    kani::cover!(n < 3 || (sz == 2 && code == 1));
    kani::cover!(sz == 0);
}

fn build_matches_annex_c<const N: usize>() {
    let hc = any_code_in_parser_range::<N>(); // N >= 2: at least one symbol + the sentinel (libjxl rejects anything else)
    kani::assume(hc.counts[0] == 0); // no code of length 0
    let t = hc.build();
    check_table_against_spec(&hc, &t);
}

// N = 2 (quick) has a single real symbol, whose code word is 0 whatever the shift: it pins lengths, table shape,
// lookup and encoded_len only. Code ASSIGNMENT (increment, shift on length change, left alignment) is exercised
// from N = 3 on (thorough: ~5 min; N = 5: ~9 min) -- mutation-tested with N = 3.
macro_rules! annex_c_proof {
    ($name:ident, $n:expr) => {
        #[kani::proof]
        #[kani::unwind(18)]
        #[kani::stub(std::vec::Vec::push, crate::bit_writer::verif_harness::push_model)]
        #[kani::stub(<[u8]>::fill, crate::bit_writer::verif_harness::fill_model)]
        fn $name() {
            build_matches_annex_c::<$n>();
        }
    };
}
annex_c_proof!(build_matches_annex_c_2, 2);
annex_c_proof!(build_matches_annex_c_3, 3);
annex_c_proof!(build_matches_annex_c_4, 4);
annex_c_proof!(build_matches_annex_c_5, 5);

// ------------------------------------------------------------------------------------------------
// totality of build / encoded_len / lookup on EVERYTHING the parser can return (see the header comment)
// ------------------------------------------------------------------------------------------------
fn build_total_on_parser_range<const N: usize>() {
    let hc = any_code_in_parser_range::<N>();
    let _ = hc.encoded_len();
    let t = hc.build(); // must not panic (C01/C17: hostile reconstruction data produce an error, not a panic)
    let v: u8 = kani::any();
    let _ = t.lookup(v);
    assert!(t.lengths.len() == 256 && t.bits.len() == 256, "[C17,C01] one entry per symbol value");
    kani::cover!(hc.counts[16] > 0);
    kani::cover!(hc.counts[1] > 0);
}

macro_rules! total_proof {
    ($name:ident, $n:expr) => {
        #[kani::proof]
        #[kani::unwind(18)]
        #[kani::stub(std::vec::Vec::push, crate::bit_writer::verif_harness::push_model)]
        #[kani::stub(<[u8]>::fill, crate::bit_writer::verif_harness::fill_model)]
        fn $name() {
            build_total_on_parser_range::<$n>();
        }
    };
}
total_proof!(build_total_1, 1); // the sentinel only
total_proof!(build_total_2, 2); // one symbol + sentinel, possibly with a zero-length code
total_proof!(build_total_3, 3);

// ------------------------------------------------------------------------------------------------
// the same through the REAL parser, on three concrete jbrd Huffman bundles (reachability witnesses; each input
// fully concrete -- a symbolic choice between them already makes the parser run symbolically and time out).
// Bit layout (LSB first): is_ac u(1), id u(2), is_last u(1), 17 x U32(0, 1, 2+u(3), u(8)), then the values.
//   A = 38 zero bits                     -> counts all 0, no values
//   B = is_last, counts[1] = 1           -> values = [sentinel] only            (byte 0 = 0x08 | 0x40)
//   C = is_last, counts[0] = counts[1]=1 -> a zero-length code + the sentinel   (byte 0 = 0x08 | 0x10 | 0x40)
// ------------------------------------------------------------------------------------------------
fn parse_then_build(data: &[u8]) {
    let mut bs = Bitstream::new(data);
    let r = HuffmanCode::parse(&mut bs, ());
    let Ok(hc) = r else {
        // a parser that rejects the bundle is fine
        return;
    };
    let mut sum = 0usize;
    let mut i = 0;
    while i < 17 {
        sum += hc.counts[i] as usize;
        i += 1;
    }
    assert!(hc.values.len() == sum, "[C17,C01] one value per counted code");
    // the DHT writer slices `hc.values[..hc.values.len() - 1]` (reconstruct.rs:480) and calls build()
    assert!(!hc.values.is_empty(), "[C01,C17] DHT writer (reconstruct.rs:480) needs at least the sentinel value");
    let _ = hc.encoded_len();
    let _t = hc.build();
}

macro_rules! witness_proof {
    ($name:ident, $data:expr) => {
        #[kani::proof]
        #[kani::unwind(18)]
        #[kani::stub(std::vec::Vec::push, crate::bit_writer::verif_harness::push_model)]
        #[kani::stub(<[u8]>::fill, crate::bit_writer::verif_harness::fill_model)]
        fn $name() {
            parse_then_build(&$data);
        }
    };
}
witness_proof!(parse_build_witness_a, [0x00u8, 0, 0, 0, 0, 0]);
witness_proof!(parse_build_witness_b, [0x48u8, 0, 0, 0, 0, 0]);
witness_proof!(parse_build_witness_c, [0x58u8, 0, 0, 0, 0, 0]);
