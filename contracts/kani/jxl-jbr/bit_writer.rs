// Contracts for crates/jxl-jbr/src/bit_writer.rs (child module: sees the private fields of BitWriter).
//
// Specification (ITU-T T.81 | ISO/IEC 10918-1: F.1.2.1/F.1.2.2 bit order of codes and additional bits,
// F.1.2.3 byte stuffing, B.1.1.5 entropy-coded segments). An entropy-coded segment is a SEQUENCE OF BITS.
//   (S1) packing:  bit k of the sequence is bit (7 - k % 8) of raw byte k / 8 (most significant bit first);
//   (S2) stuffing: the byte stream is the raw bytes in order with one 0x00 inserted after every raw byte
//                  that equals 0xFF, and nothing else;
//   (S3) a code word of `len` bits left-aligned in a u64 contributes bits 63, 62, .. (64 - len) in that
//        order; a value of `len` additional bits contributes bits len-1, .., 0 of the value in that order.
// (S1)-(S3) live in contracts/spec/jpeg_bits.rs (shared with scan.rs). The spec is stated relationally and
// checked pointwise at a symbolic bit index (i.e. for all indices): `destuff` is (S2) read backwards -- it
// accepts a byte string iff it is the stuffed form of n raw bytes and returns them -- and `bit_of_bytes` is
// (S1). Nothing of the real writer's 64-bit accumulator or its has_ff_byte fast path is reused.
//
// Vec cost: every `Vec::push` / `extend_from_slice` on a Vec of symbolic length drags the reallocation path
// into the formula (measured: 8 conditional pushes = 35 s, a write + finalize = out of memory at 12 GB). The
// obligations on flush_buf / finalize / write_* therefore replace `BitWriter::emit_byte` and
// `Vec::extend_from_slice` by models that write into capacity reserved by the harness (and FAIL if it does
// not suffice); emit_byte_contract / emit_byte_model_contract and extend_real_contract /
// extend_model_contract prove real == model (same deterministic, complete postcondition).
//
// Data-structure invariant  wf(w):  valid_buf_bits <= 63 and the low (64 - valid_buf_bits) bits of
//                                    `buf` are zero (the pending bits are left-aligned in `buf`).
// Abstract view:  the bytes of `w.output` (already stuffed, opaque) followed by the pending bit sequence
//                 pend(w, k) = bit (63 - k) of buf, k < valid_buf_bits.
// write_huffman / write_raw / padding_bits / finalize are specified from an ARBITRARY well-formed state
// (inductive step => any number of writes); `bitwriter_sequence_N` additionally runs <= N writes from
// `BitWriter::new()` end to end (N = 2, 3).
//
// Preconditions (from the call sites):
//  * write_huffman(bits, len): `bits` is left-aligned -- only its top `len` bits may be set -- and
//    len <= 16: the only sources are `BuiltHuffmanTable::lookup` (huffman.rs:131; entries are
//    `code << (64 - len)`, huffman.rs:43, len = a DHT code length 1..=16) and the (0, 0) placeholder
//    of scan.rs:326-330; write_raw forwards `bits << (64 - len)` with its own len. The contract below is
//    proved on the wider domain len <= 63.
//  * write_raw(bits, len): len <= 63. Call sites: coefficient bit lengths <= 16 (scan.rs:151,175,216,243),
//    1 (scan.rs:280,315), EOBn <= 14 (scan.rs:77), padding <= 7 (scan.rs:106) and refinement bit runs
//    whose length is at most the number of AC coefficients of one block in the scan, <= 63
//    (scan.rs:83,298,318,342,357; the slice is DCT8_NATURAL_ORDER[ss..se], ss >= 1, se <= 64, scan.rs:400-401,480).
//    `bits` may carry garbage above bit `len` (a sign-extended i16, scan.rs:151): it must be ignored.
//    len == 64 with an empty buffer would evaluate `bits << 64` (bit_writer.rs:44); no call site reaches it.
use super::*;

#[path = "@SPEC@/jpeg_bits.rs"]
mod jpeg_bits;
use jpeg_bits::*;

pub(crate) fn wf(w: &BitWriter) -> bool {
    w.valid_buf_bits <= 63 && (w.buf << w.valid_buf_bits) == 0
}

/// `emit_byte` for a Vec whose capacity is known to suffice: the same bytes are appended, but the
/// reallocation path of `Vec::push` (which costs CBMC minutes per conditional push) does not exist.
/// It replaces `BitWriter::emit_byte` (kani::stub) in the obligations on its callers; its equivalence with
/// the real `emit_byte` is obligation `emit_byte_contract` below. It asserts that the capacity suffices, so
/// a harness that reserved too little fails instead of proving something else.
pub(crate) fn emit_byte_model(w: &mut BitWriter, b: u8) {
    let l = w.output.len();
    let n = if b == 0xff { 2 } else { 1 };
    assert!(l + n <= w.output.capacity(), "harness reserves enough capacity");
    unsafe {
        let p = w.output.as_mut_ptr();
        p.add(l).write(b);
        if b == 0xff {
            p.add(l + 1).write(0);
        }
        w.output.set_len(l + n);
    }
}


/// `Vec::extend_from_slice` for a Vec whose capacity is known to suffice (same reason as emit_byte_model:
/// the reallocation path makes CBMC run out of memory as soon as the length is symbolic). Replaces
/// `Vec::extend_from_slice` (kani::stub; needs `#![feature(allocator_api)]`, added to the scratch copy by the
/// runner via `crate_attrs`) in the obligations on flush_buf/finalize; equivalence with the real method for
/// T = u8 is obligation `extend_model_contract`.
pub(crate) fn extend_model<T: Clone, A: core::alloc::Allocator>(v: &mut Vec<T, A>, s: &[T]) {
    assert!(!core::mem::needs_drop::<T>(), "model is a bitwise copy");
    let l = v.len();
    assert!(l + s.len() <= v.capacity(), "harness reserves enough capacity");
    unsafe {
        core::ptr::copy_nonoverlapping(s.as_ptr(), v.as_mut_ptr().add(l), s.len());
        v.set_len(l + s.len());
    }
}

// capacity reserved by the harnesses: 2 earlier bytes + 8 raw bytes, each possibly stuffed (one operation);
// 4 x 63 bits = 32 raw bytes, each possibly stuffed (sequence)
const RESERVE: usize = 18;
const RESERVE_SEQ: usize = 64;

/// `BitWriter::new()` with capacity already reserved (capacity is not observable): lets obligations in other
/// modules (scan.rs), which cannot see BitWriter's fields, use emit_byte_model / extend_model.
/// `new_reserved_contract` checks it against the postcondition of `new_contract`.
pub(crate) fn new_reserved() -> BitWriter {
    BitWriter { output: Vec::with_capacity(RESERVE_SEQ), buf: 0, valid_buf_bits: 0 }
}

/// any well-formed writer whose already emitted output is an arbitrary byte string of length <= 2
/// (the operations only append to it; the contracts check that they do not touch it)
fn any_wf_writer() -> (BitWriter, [u8; 2], usize) {
    let prefix: [u8; 2] = kani::any();
    let plen: usize = kani::any();
    kani::assume(plen <= 2);
    // built without `push` (each conditional push drags Vec's reallocation path into the formula)
    let mut output: Vec<u8> = Vec::with_capacity(RESERVE);
    unsafe {
        let p = output.as_mut_ptr();
        p.write(prefix[0]);
        p.add(1).write(prefix[1]);
        output.set_len(plen);
    }
    let w = BitWriter { output, buf: kani::any(), valid_buf_bits: kani::any() };
    kani::assume(wf(&w));
    (w, prefix, plen)
}

fn prefix_kept(out: &[u8], prefix: &[u8; 2], plen: usize) -> bool {
    out.len() >= plen && (plen < 1 || out[0] == prefix[0]) && (plen < 2 || out[1] == prefix[1])
}

#[kani::proof]
fn canary() {
    let (w, _, _) = any_wf_writer();
    assert!(w.valid_buf_bits > 63, "canary: must fail");
}

// ------------------------------------------------------------------------------------------------
// has_ff_byte
// ------------------------------------------------------------------------------------------------
#[kani::proof]
#[kani::unwind(9)]
fn has_ff_byte_contract() {
    let v: u64 = kani::any();
    let mut expect = false;
    let mut i = 0;
    while i < 8 {
        if (v >> (8 * i)) as u8 == 0xff {
            expect = true;
        }
        i += 1;
    }
    assert!(has_ff_byte(v) == expect, "[C17,C01] has_ff_byte(v) <=> some byte of v is 0xFF");
    kani::cover!(expect);
    kani::cover!(!expect);
}

// ------------------------------------------------------------------------------------------------
// emit_byte: T.81 F.1.2.3 for one byte; also justifies `emit_byte_model`
// ------------------------------------------------------------------------------------------------
fn check_emit(model: bool) {
    let (mut w, prefix, plen) = any_wf_writer();
    let (buf, vbb) = (w.buf, w.valid_buf_bits);
    let b: u8 = kani::any();
    if model {
        emit_byte_model(&mut w, b);
    } else {
        w.emit_byte(b);
    }
    assert!(prefix_kept(&w.output, &prefix, plen), "[C17] earlier output is not touched");
    assert!(w.output.len() == plen + if b == 0xff { 2 } else { 1 }, "[C17,C01] one byte is appended, two for 0xFF");
    assert!(w.output[plen] == b, "[C17] the byte itself");
    assert!(b != 0xff || w.output[plen + 1] == 0x00, "[C17] T.81 F.1.2.3: a zero byte is stuffed after 0xFF");
    assert!(w.buf == buf && w.valid_buf_bits == vbb, "[C17] pending bits untouched");
    kani::cover!(b == 0xff);
    kani::cover!(b != 0xff && plen == 2);
}

#[kani::proof]
fn emit_byte_contract() {
    check_emit(false);
}

/// the model satisfies the same (deterministic, complete) postcondition, hence model == real
#[kani::proof]
fn emit_byte_model_contract() {
    check_emit(true);
}

fn check_extend(model: bool) {
    let (mut w, prefix, plen) = any_wf_writer();
    let src: [u8; 8] = kani::any();
    let n: usize = kani::any();
    kani::assume(n <= 8);
    if model {
        extend_model(&mut w.output, &src[..n]);
    } else {
        w.output.extend_from_slice(&src[..n]);
    }
    assert!(prefix_kept(&w.output, &prefix, plen), "earlier output is not touched");
    assert!(w.output.len() == plen + n, "n bytes are appended");
    kani::cover!(n == 8 && plen == 2);
    kani::cover!(n == 0);
    let k: usize = kani::any();
    kani::assume(k < n);
    assert!(w.output[plen + k] == src[k], "the appended bytes are the slice");
}

/// the real method and the model satisfy the same deterministic, complete postcondition => they agree
#[kani::proof]
fn extend_real_contract() {
    check_extend(false);
}

#[kani::proof]
fn extend_model_contract() {
    check_extend(true);
}

// ------------------------------------------------------------------------------------------------
// Vec::push / <[u8]>::fill models for HuffmanCode::build (kept here: this module is part of every run)
// ------------------------------------------------------------------------------------------------
/// `Vec::push` for a Vec whose capacity is known to suffice: `build` pushes into
/// `Vec::with_capacity(values.len())` at most values.len() - 1 times (huffman.rs:34,43); used by the huffman.rs and scan.rs obligations. Every `push` drags
/// Vec's reallocation path into the formula (CBMC runs out of memory on `build` otherwise); the model has no
/// such path and FAILS an assertion if the capacity would not suffice. Needs `#![feature(allocator_api)]`
/// (added to the scratch copy by the runner via `crate_attrs`). Equivalence with the real `push`:
/// obligations `push_real_contract` / `push_model_contract` (same deterministic postcondition).
pub(crate) fn push_model<T, A: core::alloc::Allocator>(v: &mut Vec<T, A>, x: T) {
    let l = v.len();
    assert!(l < v.capacity(), "push_model: capacity suffices (build reserves values.len())");
    unsafe {
        v.as_mut_ptr().add(l).write(x);
        v.set_len(l + 1);
    }
}

/// `<[T]>::fill` as an element-wise loop (the library version is a memset with a symbolic length, which CBMC's
/// array theory does not survive when 17 of them are chained in `build`). Same result by definition of fill.
pub(crate) fn fill_model<T: Clone>(s: &mut [T], value: T) {
    let mut i = 0;
    while i < s.len() {
        s[i] = value.clone();
        i += 1;
    }
}

fn check_push(model: bool) {
    let mut v: Vec<u64> = Vec::with_capacity(4);
    let init: [u64; 3] = kani::any();
    let l0: usize = kani::any();
    kani::assume(l0 <= 3);
    unsafe {
        let p = v.as_mut_ptr();
        p.write(init[0]);
        p.add(1).write(init[1]);
        p.add(2).write(init[2]);
        v.set_len(l0);
    }
    let x: u64 = kani::any();
    if model {
        push_model(&mut v, x);
    } else {
        v.push(x);
    }
    assert!(v.len() == l0 + 1 && v[l0] == x, "x is appended");
    assert!((l0 < 1 || v[0] == init[0]) && (l0 < 2 || v[1] == init[1]) && (l0 < 3 || v[2] == init[2]), "earlier elements kept");
    kani::cover!(l0 == 3);
    kani::cover!(l0 == 0);
}

#[kani::proof]
fn push_real_contract() {
    check_push(false);
}

#[kani::proof]
fn push_model_contract() {
    check_push(true);
}


// ------------------------------------------------------------------------------------------------
// new
// ------------------------------------------------------------------------------------------------
#[kani::proof]
fn new_contract() {
    let w = BitWriter::new();
    assert!(wf(&w), "[C17,C01] new() is well-formed");
    assert!(w.output.is_empty() && w.valid_buf_bits == 0, "[C17] new() holds no bytes and no bits");
    assert!(w.padding_bits() == 0, "[C17] an empty stream is byte aligned");
}

#[kani::proof]
fn new_reserved_contract() {
    let w = new_reserved();
    assert!(wf(&w) && w.output.is_empty() && w.valid_buf_bits == 0 && w.buf == 0, "new_reserved() == new() up to capacity");
    let n = BitWriter::new();
    assert!(n.buf == w.buf && n.valid_buf_bits == w.valid_buf_bits && n.output == w.output);
}

// ------------------------------------------------------------------------------------------------
// one write from any well-formed state (shared by write_huffman and write_raw)
// ------------------------------------------------------------------------------------------------
fn check_write(raw_kind: bool) {
    let (mut w, prefix, plen) = any_wf_writer();
    let bits: u64 = kani::any();
    let len: u8 = kani::any();
    kani::assume(len <= 63);
    if !raw_kind {
        kani::assume((bits << len) == 0); // left-aligned code word: nothing below its top `len` bits
    }
    let vbb = w.valid_buf_bits;
    let pend = w.buf;
    let total = vbb + len as usize;
    if raw_kind {
        w.write_raw(bits, len);
    } else {
        w.write_huffman(bits, len);
    }
    assert!(wf(&w), "[C17,C01] a write keeps the invariant");
    assert!(prefix_kept(&w.output, &prefix, plen), "[C17] earlier output is not touched");
    assert!(w.valid_buf_bits == total % 64, "[C17] number of pending bits");
    // the bit sequence after the write: 8 raw bytes if 64 bits were completed, then the pending bits
    let raw: [u8; 8] = if total >= 64 {
        match destuff::<8>(&w.output, plen, 8) {
            Some(r) => r,
            None => {
                assert!(false, "[C17] a completed 64-bit word is appended as 8 raw bytes with 0x00 stuffed after each 0xFF and nothing else");
                return;
            }
        }
    } else {
        assert!(w.output.len() == plen, "[C17] fewer than 64 pending bits: nothing is output");
        [0; 8]
    };
    let k: usize = kani::any();
    kani::assume(k < total);
    let before = if k < vbb {
        bit_of_code(pend, k)
    } else if raw_kind {
        bit_of_value(bits, len as usize, k - vbb)
    } else {
        bit_of_code(bits, k - vbb)
    };
    let after = if total >= 64 {
        if k < 64 { bit_of_bytes(&raw, k) } else { bit_of_code(w.buf, k - 64) }
    } else {
        bit_of_code(w.buf, k)
    };
    assert!(after == before, "[C17] pending bits followed by the written bits, MSB first, in order");
    kani::cover!(total >= 64 && w.output.len() == plen + 8); // no 0xFF: the has_ff_byte fast path
    kani::cover!(total >= 64 && w.output.len() == plen + 16); // every byte stuffed
    kani::cover!(total > 64 && k >= 64);
    kani::cover!(total < 64 && len > 0);
    kani::cover!(len == 0);
    kani::cover!(!raw_kind || (len > 0 && (bits >> len) != 0)); // garbage above the value is ignored
}

#[kani::proof]
#[kani::unwind(9)]
#[kani::stub(BitWriter::emit_byte, emit_byte_model)]
#[kani::stub(std::vec::Vec::extend_from_slice, extend_model)]
fn write_huffman_contract() {
    check_write(false);
}

#[kani::proof]
#[kani::unwind(9)]
#[kani::stub(BitWriter::emit_byte, emit_byte_model)]
#[kani::stub(std::vec::Vec::extend_from_slice, extend_model)]
fn write_raw_contract() {
    check_write(true);
}

// ------------------------------------------------------------------------------------------------
// padding_bits / finalize
// ------------------------------------------------------------------------------------------------
#[kani::proof]
fn padding_bits_contract() {
    let (w, _, _) = any_wf_writer();
    let p = w.padding_bits();
    // w.output holds whole bytes, so the bit sequence is byte aligned iff the pending bits are
    assert!(p <= 7 && (w.valid_buf_bits + p) % 8 == 0,
        "[C17,C01] padding_bits is the number of bits missing to the next byte boundary");
    kani::cover!(p == 7);
    kani::cover!(p == 0 && w.valid_buf_bits > 0);
}

#[kani::proof]
#[kani::unwind(9)]
#[kani::stub(BitWriter::emit_byte, emit_byte_model)]
#[kani::stub(std::vec::Vec::extend_from_slice, extend_model)]
fn finalize_contract() {
    let (w, prefix, plen) = any_wf_writer();
    let vbb = w.valid_buf_bits;
    let pend = w.buf;
    let nbytes = (vbb + 7) / 8;
    let bytes = w.finalize();
    assert!(prefix_kept(&bytes, &prefix, plen), "[C17] earlier output is not touched");
    let Some(raw) = destuff::<8>(&bytes, plen, nbytes) else {
        assert!(false, "[C17,C01] finalize appends ceil(pending/8) raw bytes, 0x00 stuffed after each 0xFF (also a final one), nothing else");
        return;
    };
    kani::cover!(vbb == 0 && bytes.len() == plen);
    kani::cover!(vbb == 63 && bytes.len() == plen + 15); // seven 0xFF + 0xFE, seven stuffed zeros
    kani::cover!(vbb == 9 && bytes.len() == plen + 2);
    kani::cover!(vbb == 8 && bytes.len() == plen + 2); // a final 0xFF is stuffed as well
    let k: usize = kani::any();
    kani::assume(k < nbytes * 8);
    let expect = if k < vbb { bit_of_code(pend, k) } else { 0 };
    assert!(bit_of_bytes(&raw, k) == expect, "[C17] pending bits MSB first; the incomplete last byte is completed with 0-bits");
    kani::cover!(vbb % 8 != 0 && k >= vbb);
}

// ------------------------------------------------------------------------------------------------
// end to end: <= N writes of either kind from new(), then finalize (N = 2: quick, N = 3: thorough; N = 4 did
// not close within 20 min -- the inductive step contracts above cover any number of writes)
// ------------------------------------------------------------------------------------------------
fn bitwriter_sequence_n<const N: usize>() {
    let mut w = BitWriter::new();
    w.output.reserve_exact(RESERVE_SEQ); // see emit_byte_model
    let count: usize = kani::any();
    kani::assume(count <= N);
    let mut bits = [0u64; N];
    let mut lens = [0usize; N];
    let mut raw_kind = [false; N];
    let mut total = 0usize;
    let mut i = 0;
    while i < N {
        if i < count {
            let b: u64 = kani::any();
            let l: u8 = kani::any();
            kani::assume(l <= 63);
            raw_kind[i] = kani::any();
            if raw_kind[i] {
                w.write_raw(b, l);
            } else {
                kani::assume((b << l) == 0);
                w.write_huffman(b, l);
            }
            bits[i] = b;
            lens[i] = l as usize;
            total += l as usize;
            assert!(w.padding_bits() == (8 - total % 8) % 8, "[C17] padding_bits after each write");
        }
        i += 1;
    }
    let bytes = w.finalize();
    let nbytes = (total + 7) / 8;
    let Some(raw) = destuff::<24>(&bytes, 0, nbytes) else {
        assert!(false, "[C17,C01] output is ceil(total/8) raw bytes with 0x00 stuffed after each 0xFF and nothing else");
        return;
    };
    kani::cover!(count == 0 && bytes.is_empty());
    kani::cover!(count == N && total == 63 * N && bytes.len() == 2 * nbytes - 1); // all 0xFF but the last byte
    kani::cover!(count == N && total > 64 && bytes.len() == nbytes); // no stuffing
    let k: usize = kani::any();
    kani::assume(k < nbytes * 8);
    // which write does bit k belong to?
    let mut expect = 0u8; // past the last write: 0-bit fill
    let mut start = 0usize;
    let mut j = 0;
    while j < N {
        if k >= start && k < start + lens[j] {
            expect = if raw_kind[j] { bit_of_value(bits[j], lens[j], k - start) } else { bit_of_code(bits[j], k - start) };
        }
        start += lens[j];
        j += 1;
    }
    assert!(bit_of_bytes(&raw, k) == expect, "[C17] bit k of the output is bit k of the concatenated writes (MSB first), then 0-bits to the byte boundary");
}

#[kani::proof]
#[kani::unwind(25)]
#[kani::stub(BitWriter::emit_byte, emit_byte_model)]
#[kani::stub(std::vec::Vec::extend_from_slice, extend_model)]
fn bitwriter_sequence_2() {
    bitwriter_sequence_n::<2>();
}

#[kani::proof]
#[kani::unwind(25)]
#[kani::stub(BitWriter::emit_byte, emit_byte_model)]
#[kani::stub(std::vec::Vec::extend_from_slice, extend_model)]
fn bitwriter_sequence_3() {
    bitwriter_sequence_n::<3>();
}
