// Contracts for crates/jxl-jbr/src/reconstruct/scan.rs (child module: sees ScanState and its fields).
//
// Spec sources (ITU-T T.81 | ISO/IEC 10918-1):
//  * F.1.2.3 / B.1.1.5: before a marker the entropy-coded segment is completed to a byte boundary with 1-bits;
//    the reconstruction format (18181-2 jbrd `padding_bits`, as written by libjxl: one entry per padding bit,
//    in stream order) may instead prescribe the exact padding bits so that the original file is reproduced.
//  * E.1.4 / B.2.1: restart markers RSTm, m counting modulo 8 starting from 0 in every scan; F.1.1.5.1: the DC
//    prediction is reset to 0 at a restart.
//  * G.1.2.2, Figure G.4 (Encode_EOBRUN): SSSS = floor(log2(EOBRUN)), code for symbol (SSSS << 4), then the SSSS
//    low-order bits of EOBRUN; G.1.2.3 Figure G.6 (Append_BR_bits): buffered correction bits follow.
// The BitWriter underneath is covered by the bit_writer.rs contracts; its fields are not visible from here, so
// the bit sequence is observed through `finalize()` and the shared T.81 bit-stream spec (jpeg_bits.rs).
// BitWriter::new / emit_byte / Vec::extend_from_slice are replaced by the models justified in bit_writer.rs
// (new_reserved_contract, emit_byte_contract + emit_byte_model_contract, extend_real/model_contract).
use super::*;

#[path = "@SPEC@/jpeg_bits.rs"]
mod jpeg_bits;
use jpeg_bits::*;

/// finalize the writer of `state` and return (raw bytes after destuffing, number of raw bytes)
fn drain(state: &mut ScanState<'_>, nbits: usize) -> Option<[u8; 16]> {
    let bw = std::mem::replace(&mut state.bit_writer, BitWriter::new());
    let bytes = bw.finalize();
    destuff::<16>(&bytes, 0, (nbits + 7) / 8)
}

// ------------------------------------------------------------------------------------------------
// update_dc_pred: DIFF = DC - PRED, PRED = DC (F.1.1.5.1)
// ------------------------------------------------------------------------------------------------
#[kani::proof]
#[kani::unwind(5)]
fn update_dc_pred_contract() {
    let mut st = ScanState::new(3);
    let p: [i16; 3] = kani::any();
    st.dc_pred[0] = p[0];
    st.dc_pred[1] = p[1];
    st.dc_pred[2] = p[2];
    let c: usize = kani::any();
    kani::assume(c < 3);
    let dc: i16 = kani::any();
    let d = st.update_dc_pred(c, dc);
    assert!(d == dc.wrapping_sub(p[c]), "[C17,C01] DIFF = DC - PRED (no overflow panic)");
    assert!(st.dc_pred[c] == dc, "[C17] PRED = DC of this component");
    let o: usize = kani::any();
    kani::assume(o < 3 && o != c);
    assert!(st.dc_pred[o] == p[o], "[C17] other components' predictions untouched");
}

// ------------------------------------------------------------------------------------------------
// flush_bit_writer: completes the segment to a byte boundary and hands the bytes to the writer
// ------------------------------------------------------------------------------------------------
const MAXPEND: usize = 24;

fn check_flush(with_padding_stream: bool, check_order: bool) {
    let mut st = ScanState::new(1);
    let bits: u64 = kani::any();
    let len: u8 = kani::any();
    kani::assume(len as usize <= if with_padding_stream { 15 } else { MAXPEND });
    st.bit_writer.write_raw(bits, len);
    let pad_needed = (8 - len as usize % 8) % 8;
    let pad_src: [u8; 2] = kani::any();
    let mut pbs = Bitstream::new(&pad_src);
    let skip: usize = 0;
    // a Vec as the io::Write sink: infallible (no io::Error construction), capacity reserved for extend_model
    let mut out: Vec<u8> = Vec::with_capacity(12);
    let r = if with_padding_stream {
        st.flush_bit_writer(Some(&mut pbs), &mut out)
    } else {
        st.flush_bit_writer(None, &mut out)
    };
    assert!(r.is_ok(), "[C17,C01] enough padding bits: Ok");
    let written = out.len();
    let total = len as usize + pad_needed;
    let Some(raw) = destuff::<4>(&out, 0, total / 8) else {
        assert!(false, "[C17] exactly (bits + padding) / 8 raw bytes, stuffed, reach the writer");
        return;
    };
    if with_padding_stream {
        assert!(pbs.num_read_bits() == skip + pad_needed, "[C17] exactly the needed padding bits are taken from the padding stream");
    }
    assert!(st.bit_writer.padding_bits() == 0 && st.eobrun == 0, "[C17] the scan continues with an empty, byte-aligned writer");
    let k: usize = kani::any();
    kani::assume(k < total);
    if k < len as usize {
        assert!(bit_of_bytes(&raw, k) == bit_of_value(bits, len as usize, k), "[C17] the segment's bits are unchanged");
    } else if !with_padding_stream {
        assert!(bit_of_bytes(&raw, k) == 1, "[C17] T.81 F.1.2.3: padded with 1-bits");
    } else if check_order {
        // j-th padding bit of this flush = bit (skip + j) of the padding stream (18181-1 bit order: LSB first)
        let j = k - len as usize;
        let p = skip + j;
        let want = (pad_src[p / 8] >> (p % 8)) & 1;
        assert!(bit_of_bytes(&raw, k) == want, "[C17] padding bits are emitted in the order in which the reconstruction data lists them");
    } else {
        // order-insensitive part: the multiset of padding bits emitted == the ones consumed
        let mut ones_out = 0;
        let mut ones_in = 0;
        let mut j = 0;
        while j < 7 {
            if j < pad_needed {
                ones_out += bit_of_bytes(&raw, len as usize + j) as u32;
                let p = skip + j;
                ones_in += ((pad_src[p / 8] >> (p % 8)) & 1) as u32;
            }
            j += 1;
        }
        assert!(ones_out == ones_in, "[C17] the padding consists of the bits taken from the padding stream");
    }
    kani::cover!(pad_needed == 7);
    kani::cover!(pad_needed == 0 && len > 0);
    kani::cover!(written == total / 8 + 1); // a stuffed 0xFF
}

#[kani::proof]
#[kani::unwind(9)]
#[kani::stub(crate::bit_writer::BitWriter::new, crate::bit_writer::verif_harness::new_reserved)]
#[kani::stub(crate::bit_writer::BitWriter::emit_byte, crate::bit_writer::verif_harness::emit_byte_model)]
#[kani::stub(std::vec::Vec::extend_from_slice, crate::bit_writer::verif_harness::extend_model)]
fn flush_ones_contract() {
    check_flush(false, false);
}

#[kani::proof]
#[kani::unwind(9)]
#[kani::stub(crate::bit_writer::BitWriter::new, crate::bit_writer::verif_harness::new_reserved)]
#[kani::stub(crate::bit_writer::BitWriter::emit_byte, crate::bit_writer::verif_harness::emit_byte_model)]
#[kani::stub(std::vec::Vec::extend_from_slice, crate::bit_writer::verif_harness::extend_model)]
fn flush_padding_stream_contract() {
    check_flush(true, false);
}

#[kani::proof]
#[kani::unwind(9)]
#[kani::stub(crate::bit_writer::BitWriter::new, crate::bit_writer::verif_harness::new_reserved)]
#[kani::stub(crate::bit_writer::BitWriter::emit_byte, crate::bit_writer::verif_harness::emit_byte_model)]
#[kani::stub(std::vec::Vec::extend_from_slice, crate::bit_writer::verif_harness::extend_model)]
fn flush_padding_order_contract() {
    check_flush(true, true);
}

// ------------------------------------------------------------------------------------------------
// restart: flush with padding, RSTm marker, m modulo 8, DC predictions reset (E.1.4, F.1.1.5.1)
// ------------------------------------------------------------------------------------------------
#[kani::proof]
#[kani::unwind(9)]
#[kani::stub(crate::bit_writer::BitWriter::new, crate::bit_writer::verif_harness::new_reserved)]
#[kani::stub(crate::bit_writer::BitWriter::emit_byte, crate::bit_writer::verif_harness::emit_byte_model)]
#[kani::stub(std::vec::Vec::extend_from_slice, crate::bit_writer::verif_harness::extend_model)]
fn restart_contract() {
    let mut st = ScanState::new(3);
    let p: [i16; 3] = kani::any();
    st.dc_pred[0] = p[0];
    st.dc_pred[1] = p[1];
    st.dc_pred[2] = p[2];
    let m: u8 = kani::any();
    kani::assume(m <= 7); // invariant of rst_m: starts at 0 (scan.rs:42), only changed by restart
    st.rst_m = m;
    let bits: u64 = kani::any();
    let len: u8 = kani::any();
    kani::assume(len <= 15);
    st.bit_writer.write_raw(bits, len);
    let mut out: Vec<u8> = Vec::with_capacity(12);
    let r = st.restart(None, &mut out);
    assert!(r.is_ok(), "[C17,C01] restart without a padding stream cannot fail on a Vec sink");
    let n = out.len();
    assert!(n >= 2 && out[n - 2] == 0xff && out[n - 1] == 0xd0 + m, "[C17] the segment is followed by the marker RSTm = FF D0+m");
    assert!(st.rst_m == (m + 1) % 8, "[C17,C01] m counts modulo 8 (T.81 E.1.4)");
    assert!(st.dc_pred[0] == 0 && st.dc_pred[1] == 0 && st.dc_pred[2] == 0, "[C17] DC predictions are reset at a restart (T.81 F.1.1.5.1)");
    kani::cover!(len == 0 && n == 2);
    let total = (len as usize + 7) / 8 * 8;
    let Some(raw) = destuff::<2>(&out[..n - 2], 0, total / 8) else {
        assert!(false, "[C17] before the marker: the byte-aligned, stuffed segment and nothing else");
        return;
    };
    let k: usize = kani::any();
    kani::assume(k < total);
    let want = if k < len as usize { bit_of_value(bits, len as usize, k) } else { 1 };
    assert!(bit_of_bytes(&raw, k) == want, "[C17] segment bits, then 1-bit padding");
    kani::cover!(m == 7);
    kani::cover!(len == 15);
}

// ------------------------------------------------------------------------------------------------
// emit_eobrun (T.81 G.1.2.2 Encode_EOBRUN + G.1.2.3 Append_BR_bits) with a concrete 4-bit code table in
// which symbol (n << 4) has the code word n, n = 0..=14 (built by the real HuffmanCode::build)
// ------------------------------------------------------------------------------------------------
#[kani::proof]
#[kani::unwind(18)]
#[kani::stub(crate::bit_writer::BitWriter::new, crate::bit_writer::verif_harness::new_reserved)]
#[kani::stub(crate::bit_writer::BitWriter::emit_byte, crate::bit_writer::verif_harness::emit_byte_model)]
#[kani::stub(std::vec::Vec::extend_from_slice, crate::bit_writer::verif_harness::extend_model)]
#[kani::stub(std::vec::Vec::push, crate::bit_writer::verif_harness::push_model)]
#[kani::stub(<[u8]>::fill, crate::bit_writer::verif_harness::fill_model)]
fn emit_eobrun_contract() {
    let mut counts = [0u8; 17];
    counts[4] = 16;
    let values: Vec<u8> = vec![0x00, 0x10, 0x20, 0x30, 0x40, 0x50, 0x60, 0x70, 0x80, 0x90, 0xa0, 0xb0, 0xc0, 0xd0, 0xe0, 0x00];
    let table = crate::huffman::HuffmanCode { is_ac: true, id: 0, is_last: true, counts, values }.build();
    let mut st = ScanState::new(1);
    st.try_init_ac_table(&table); // process_scan always does this before any block is coded (scan.rs:438)
    let eobrun: u32 = kani::any();
    kani::assume(eobrun <= 32767); // emitted as soon as it reaches 32767 (scan.rs:263,369)
    st.eobrun = eobrun;
    let rbits: u64 = kani::any();
    let rlen: u8 = kani::any();
    kani::assume(rlen <= 10);
    let has_ref: bool = kani::any();
    if has_ref {
        // (buffer_refinement_bits pushes into Vec::new(): build the one-entry buffers directly)
        st.refinement_bits = vec![rbits];
        st.refinement_bitlen = vec![rlen];
    }
    let r = st.emit_eobrun();
    assert!(r.is_ok(), "[C17,C01] every EOBn symbol has a code in this table: Ok");
    assert!(st.eobrun == 0, "[C17] the run is reset");
    if eobrun == 0 {
        // nothing pending: nothing is written, buffered bits stay
        assert!(st.bit_writer.padding_bits() == 0 && st.refinement_bits.len() == has_ref as usize, "[C17] EOBRUN == 0: no-op");
        let Some(_) = drain(&mut st, 0) else {
            assert!(false, "[C17] EOBRUN == 0: nothing written");
            return;
        };
        return;
    }
    assert!(st.refinement_bits.is_empty() && st.refinement_bitlen.is_empty(), "[C17] buffered correction bits are flushed");
    // SSSS = floor(log2(EOBRUN))
    let mut ssss = 0usize;
    while (eobrun >> (ssss + 1)) != 0 {
        ssss += 1;
    }
    let rl = if has_ref { rlen as usize } else { 0 };
    let total = 4 + ssss + rl;
    let Some(raw) = drain(&mut st, total) else {
        assert!(false, "[C17] exactly code + SSSS + correction bits are written");
        return;
    };
    let k: usize = kani::any();
    kani::assume(k < total);
    let want = if k < 4 {
        bit_of_value(ssss as u64, 4, k) // the table's code word for symbol (SSSS << 4) is SSSS in 4 bits
    } else if k < 4 + ssss {
        bit_of_value(eobrun as u64, ssss, k - 4) // the SSSS low-order bits of EOBRUN
    } else {
        bit_of_value(rbits, rl, k - 4 - ssss)
    };
    assert!(bit_of_bytes(&raw, k) == want, "[C17] EOBn code, then the low SSSS bits of EOBRUN, then the buffered correction bits");
    kani::cover!(eobrun == 32767);
    kani::cover!(eobrun == 1 && !has_ref);
    kani::cover!(has_ref && rlen == 10 && ssss == 14);
}

// ================================================================================================
// PART 2: EOB-run accounting of progressive scans (T.81 G.1.2.2 Figures G.3 / G.4, G.1.2.3 Figures G.7 - G.9)
// ================================================================================================
// A band that ends in zero coefficients is not coded by itself: the encoder counts such blocks in EOBRUN and codes
// the run when a block with something to code follows, at the end of the scan / restart interval, or when the run
// reaches its maximum 0x7FFF = 32767 ("if EOBRUN = X'7FFF' then Encode_EOBRUN", Figures G.3 and G.7). Hence between
// blocks 0 <= EOBRUN <= 32766 (invariant assumed on entry and proved on exit), and EOB14 followed by 14 one-bits is the
// longest run ever coded (symbol 0xF0 is ZRL, there is no EOB15).
// Refinement scan (successive approximation, Figure G.7 Encode_AC_coefficients_SA), for a band ZZ(Ss..Se):
//     R = 0; BR = empty
//     for each coefficient v of the band:
//         v == 0:   R += 1
//         |v| > 1:  append bit 0 of v to BR                                  (correction bit of an already-nonzero coefficient)
//         |v| == 1: Encode_EOBRUN; code(R << 4 | 1); sign bit (1 = positive); BR; R = 0; BR = empty   (newly nonzero)
//     at the end: if R > 0 or BR not empty: EOBRUN += 1; BR is appended to the buffered bits BE;
//                                           if EOBRUN = 0x7FFF: Encode_EOBRUN
//     Encode_EOBRUN (Figures G.4, G.9): nothing if EOBRUN = 0; else code(SSSS << 4), SSSS = floor(log2 EOBRUN), the SSSS
//     low-order bits of EOBRUN, then the buffered bits BE; EOBRUN = 0, BE = empty.
//     (ZRL is only needed for R > 15; the bands of these obligations are shorter.)
// `spec_refinement` below is this procedure producing the list of (value, length) bit fields; it is compared bit by bit
// with what the real functions wrote. Code table of these obligations (built by the real HuffmanCode::build, with the
// Vec::push / fill models justified in bit_writer.rs): 5-bit code words, EOBn <-> n, ZRL <-> 15, (run r, size 1) <-> 16 + r.
const CODE_LEN: usize = 5;

fn table_progressive() -> BuiltHuffmanTable {
    let mut counts = [0u8; 17];
    counts[CODE_LEN] = 32;
    let values: Vec<u8> = vec![
        0x00, 0x10, 0x20, 0x30, 0x40, 0x50, 0x60, 0x70, 0x80, 0x90, 0xa0, 0xb0, 0xc0, 0xd0, 0xe0, 0xf0, // EOB0..EOB14, ZRL
        0x01, 0x11, 0x21, 0x31, 0x41, 0x51, 0x61, 0x71, 0x81, 0x91, 0xa1, 0xb1, 0xc1, 0xd1, 0xe1, // (run r, size 1)
        0x00, // sentinel: no code
    ];
    crate::huffman::HuffmanCode { is_ac: true, id: 0, is_last: true, counts, values }.build()
}

/// a scan state between two blocks: EOBRUN = e, at most one buffered correction-bit entry (only while a run is pending);
/// the buffers get capacity for the push model
fn state_between_blocks<'t>(table: &'t BuiltHuffmanTable, e: u32, prior: Option<(u64, u8)>) -> ScanState<'t> {
    let mut st = ScanState::new(1);
    st.try_init_ac_table(table); // process_scan does this before any block is coded (scan.rs:438)
    st.eobrun = e;
    st.refinement_bits = Vec::with_capacity(4);
    st.refinement_bitlen = Vec::with_capacity(4);
    if let Some((bits, len)) = prior {
        st.refinement_bits.push(bits);
        st.refinement_bitlen.push(len);
    }
    st
}

/// bit fields in the order in which they are written
struct Fields {
    f: [(u64, usize); 12],
    n: usize,
}

impl Fields {
    fn put(&mut self, v: u64, len: usize) {
        self.f[self.n] = (v, len);
        self.n += 1;
    }
    fn total(&self) -> usize {
        let mut t = 0;
        let mut i = 0;
        while i < 12 {
            t += self.f[i].1;
            i += 1;
        }
        t
    }
    /// bit k of the concatenation (MSB of every field first)
    fn bit(&self, k: usize) -> u8 {
        let mut start = 0;
        let mut r = 0;
        let mut i = 0;
        while i < 12 {
            let (v, len) = self.f[i];
            if k >= start && k < start + len {
                r = bit_of_value(v, len, k - start);
            }
            start += len;
            i += 1;
        }
        r
    }
}

/// Encode_EOBRUN of the spec state (e, buffered entries be[..nbe])
fn spec_encode_eobrun(out: &mut Fields, e: &mut u32, be: &mut [(u64, usize); 2], nbe: &mut usize) {
    if *e == 0 {
        return;
    }
    let mut ssss = 0usize;
    while (*e >> (ssss + 1)) != 0 {
        ssss += 1;
    }
    out.put(ssss as u64, CODE_LEN); // EOBn <-> code word n
    out.put((*e & ((1u32 << ssss) - 1)) as u64, ssss);
    let mut i = 0;
    while i < 2 {
        if i < *nbe {
            out.put(be[i].0 & ((1u64 << be[i].1) - 1), be[i].1);
        }
        i += 1;
    }
    *e = 0;
    *nbe = 0;
}

/// Figure G.7 for a short band; returns (fields written, EOBRUN after, buffered entries after)
fn spec_refinement(ac: &[i16], e0: u32, prior: Option<(u64, u8)>) -> (Fields, u32, [(u64, usize); 2], usize) {
    let mut out = Fields { f: [(0, 0); 12], n: 0 };
    let mut e = e0;
    let mut be = [(0u64, 0usize); 2];
    let mut nbe = 0usize;
    if let Some((b, l)) = prior {
        be[0] = (b, l as usize);
        nbe = 1;
    }
    let (mut r, mut br, mut brlen) = (0u64, 0u64, 0usize);
    let mut i = 0;
    while i < ac.len() {
        let v = ac[i];
        if v == 0 {
            r += 1;
        } else if v != 1 && v != -1 {
            br = (br << 1) | (v & 1) as u64;
            brlen += 1;
        } else {
            spec_encode_eobrun(&mut out, &mut e, &mut be, &mut nbe);
            out.put(16 + r, CODE_LEN); // (run r, size 1) <-> code word 16 + r
            out.put((v == 1) as u64, 1);
            out.put(br, brlen);
            r = 0;
            br = 0;
            brlen = 0;
        }
        i += 1;
    }
    if r > 0 || brlen > 0 {
        e += 1;
        be[nbe] = (br, brlen);
        nbe += 1;
        if e == 0x7fff {
            spec_encode_eobrun(&mut out, &mut e, &mut be, &mut nbe);
        }
    }
    (out, e, be, nbe)
}

/// run process_progressive_refinement on the concrete band `ac` from every state between blocks and compare with the spec
fn check_refinement(table: &BuiltHuffmanTable, ac: &[i16]) {
    let e: u32 = kani::any();
    kani::assume(e <= 32766); // invariant between blocks (see above); proved on exit below
    let has_prior: bool = kani::any();
    let pbits: u64 = kani::any();
    let plen: u8 = kani::any();
    kani::assume(plen <= 10);
    kani::assume(!has_prior || e > 0); // correction bits are only buffered while a run is pending
    let prior = if has_prior { Some((pbits, plen)) } else { None };
    let mut st = state_between_blocks(table, e, prior);
    let r = process_progressive_refinement(&mut st, table, None, ac, None);
    assert!(r.is_ok(), "[C17,C01] every needed symbol has a code in this table: Ok");
    std::mem::forget(r);
    let (want, e1, be, nbe) = spec_refinement(ac, e, prior);
    assert!(st.eobrun <= 32766, "[C17,C01] invariant: the run never stays at 32767 (there is no EOB15)");
    assert!(st.eobrun == e1, "[C17] EOBRUN after the block: +1 iff the band ends with a pending zero run OR pending correction bits (T.81 Figure G.7), reset when coded");
    assert!(st.refinement_bits.len() == nbe && st.refinement_bitlen.len() == nbe, "[C17] buffered correction-bit entries: this block's are appended to a pending run, none remain after a coded run");
    let j: usize = kani::any();
    if j < nbe {
        assert!(st.refinement_bitlen[j] as usize == be[j].1, "[C17] one correction bit per already-nonzero coefficient");
        assert!(st.refinement_bits[j] & ((1u64 << be[j].1) - 1) == be[j].0 & ((1u64 << be[j].1) - 1), "[C17] buffered correction bits, earlier entries first, band order inside an entry");
    }
    let total = want.total();
    let Some(raw) = drain(&mut st, total) else {
        assert!(false, "[C17] exactly the bit fields of T.81 Figure G.7 are written");
        return;
    };
    // (no kani::assume here: this function is called several times in one harness)
    let k: usize = kani::any();
    if k < total {
        assert!(bit_of_bytes(&raw, k) == want.bit(k), "[C17] written bits == Encode_EOBRUN / R-ZZ code / sign / correction bits in the order of Figure G.7");
    }
    kani::cover!(e == 32766);
    kani::cover!(has_prior && plen == 10 && k < total);
    kani::cover!(e == 0);
}

// ------------------------------------------------------------------------------------------------
// first pass of a band (Ah = 0): a block whose band is all zero joins the run; the run is flushed at 32767
// ------------------------------------------------------------------------------------------------
fn check_first_all_zero(table: &BuiltHuffmanTable, zeros: &[i16]) {
    let l = zeros.len(); // band length Se - Ss + 1 (0 for the DC-only scan Ss = Se = 0)
    let e: u32 = kani::any();
    kani::assume(e <= 32766);
    let mut st = state_between_blocks(table, e, None);
    let r = process_progressive_first(&mut st, 0, table, table, None, zeros, None);
    assert!(r.is_ok(), "[C17,C01] every EOBn symbol has a code in this table: Ok");
    std::mem::forget(r);
    assert!(st.eobrun <= 32766, "[C17,C01] invariant: the run never stays at 32767 (EOB15 does not exist; symbol 0xF0 is ZRL)");
    assert!(st.refinement_bits.is_empty() && st.refinement_bitlen.is_empty(), "[C17] a first pass buffers no correction bits");
    let flushed = l > 0 && e + 1 == 32767;
    if l == 0 {
        assert!(st.eobrun == e, "[C17] an empty band (DC-only scan) takes no part in EOB runs");
    } else if !flushed {
        assert!(st.eobrun == e + 1, "[C17] an all-zero band adds one block to the run");
    } else {
        assert!(st.eobrun == 0, "[C17] the run is coded and reset when it reaches 32767 (T.81 Figure G.3)");
    }
    let total = if flushed { CODE_LEN + 14 } else { 0 };
    let Some(raw) = drain(&mut st, total) else {
        assert!(false, "[C17] nothing is written unless the run is flushed; a flushed run is EOB14 + 14 bits");
        return;
    };
    let k: usize = kani::any();
    if flushed && k < total {
        let want = if k < CODE_LEN { bit_of_value(14, CODE_LEN, k) } else { 1 };
        assert!(bit_of_bytes(&raw, k) == want, "[C17] run 32767 = EOB14 code followed by the 14 low-order bits of 32767 (all ones)");
    }
    kani::cover!(flushed || l == 0);
    kani::cover!(!flushed && e == 0);
}

#[kani::proof]
#[kani::unwind(34)]
#[kani::stub(crate::bit_writer::BitWriter::new, crate::bit_writer::verif_harness::new_reserved)]
#[kani::stub(crate::bit_writer::BitWriter::emit_byte, crate::bit_writer::verif_harness::emit_byte_model)]
#[kani::stub(std::vec::Vec::extend_from_slice, crate::bit_writer::verif_harness::extend_model)]
#[kani::stub(std::vec::Vec::push, crate::bit_writer::verif_harness::push_model)]
#[kani::stub(<[u8]>::fill, crate::bit_writer::verif_harness::fill_model)]
fn progressive_first_eobrun_contract() {
    let table = table_progressive();
    check_first_all_zero(&table, &[]);
    check_first_all_zero(&table, &[0, 0, 0]);
    kani::cover!(); // every call above returns (no vacuous path cut)
}

// ------------------------------------------------------------------------------------------------
// refinement pass (Ah > 0), one concrete band per harness (several bands in one harness ran out of memory):
//  * bands without newly-nonzero coefficients: the block joins the run iff a zero run or correction bits are pending
//    -- [2] has no zero at all --, correction bits are buffered; flush at 32767
//  * bands with a newly-nonzero coefficient (+-1): the pending run is coded FIRST, then (run, 1), sign and the correction
//    bits skipped over; a band ending in the coded coefficient starts no run
// ------------------------------------------------------------------------------------------------
macro_rules! refinement_harness {
    ($name:ident, $band:expr) => {
        #[kani::proof]
        #[kani::unwind(34)]
        #[kani::stub(crate::bit_writer::BitWriter::new, crate::bit_writer::verif_harness::new_reserved)]
        #[kani::stub(crate::bit_writer::BitWriter::emit_byte, crate::bit_writer::verif_harness::emit_byte_model)]
        #[kani::stub(std::vec::Vec::extend_from_slice, crate::bit_writer::verif_harness::extend_model)]
        #[kani::stub(std::vec::Vec::push, crate::bit_writer::verif_harness::push_model)]
        #[kani::stub(<[u8]>::fill, crate::bit_writer::verif_harness::fill_model)]
        fn $name() {
            let table = table_progressive();
            let band: &[i16] = &$band;
            check_refinement(&table, band);
        }
    };
}

refinement_harness!(refinement_band_z, [0]);
refinement_harness!(refinement_band_n, [2]);
refinement_harness!(refinement_band_p, [1]);
refinement_harness!(refinement_band_np, [-2, 1]);
// (band [-1, 2] -- a tail with a correction bit after the coded coefficient, which starts a new run -- exceeds the 14 GB
// memory limit under CBMC and is not instantiated)
