// Contracts for crates/jxl-jbr/src/reconstruct/scan.rs (child module: sees ScanState and its fields).
//
// Spec sources (ITU-T T.81 | ISO/IEC 10918-1):
//  * F.1.2.3 / B.1.1.5: before a marker the entropy-coded segment is completed to a byte boundary with 1-bits;
//    the reconstruction format (18181-2 jbrd `padding_bits`, as written by libjxl: one entry per padding bit,
//    in stream order) may instead prescribe the exact padding bits so that the original file is reproduced.
//  * E.1.4 / B.2.1: restart markers RSTm, m counting modulo 8 starting from 0 in every scan; F.1.1.5.1: the DC
//    prediction is reset to 0 at a restart.
//  * G.1.2.2, Figure G.4 (Encode_EOBRUN): SSSS = floor(log2(EOBRUN)), code for symbol (SSSS << 4), then the SSSS
//    low-order bits of EOBRUN; G.1.2.3 Figure G.6 (Append_BR_bits): buffered correction bits follow.
// The BitWriter underneath is covered by the bit_writer.rs contracts; its fields are not visible from here, so
// the bit sequence is observed through `finalize()` and the shared T.81 bit-stream spec (jpeg_bits.rs).
// BitWriter::new / emit_byte / Vec::extend_from_slice are replaced by the models justified in bit_writer.rs
// (new_reserved_contract, emit_byte_contract + emit_byte_model_contract, extend_real/model_contract).
use super::*;

#[path = "@SPEC@/jpeg_bits.rs"]
mod jpeg_bits;
use jpeg_bits::*;

/// finalize the writer of `state` and return (raw bytes after destuffing, number of raw bytes)
fn drain(state: &mut ScanState<'_>, nbits: usize) -> Option<[u8; 16]> {
    let bw = std::mem::replace(&mut state.bit_writer, BitWriter::new());
    let bytes = bw.finalize();
    destuff::<16>(&bytes, 0, (nbits + 7) / 8)
}

// ------------------------------------------------------------------------------------------------
// update_dc_pred: DIFF = DC - PRED, PRED = DC (F.1.1.5.1)
// ------------------------------------------------------------------------------------------------
#[kani::proof]
#[kani::unwind(5)]
fn update_dc_pred_contract() {
    let mut st = ScanState::new(3);
    let p: [i16; 3] = kani::any();
    st.dc_pred[0] = p[0];
    st.dc_pred[1] = p[1];
    st.dc_pred[2] = p[2];
    let c: usize = kani::any();
    kani::assume(c < 3);
    let dc: i16 = kani::any();
    let d = st.update_dc_pred(c, dc);
    assert!(d == dc.wrapping_sub(p[c]), "[C17,C01] DIFF = DC - PRED (no overflow panic)");
    assert!(st.dc_pred[c] == dc, "[C17] PRED = DC of this component");
    let o: usize = kani::any();
    kani::assume(o < 3 && o != c);
    assert!(st.dc_pred[o] == p[o], "[C17] other components' predictions untouched");
}

// ------------------------------------------------------------------------------------------------
// flush_bit_writer: completes the segment to a byte boundary and hands the bytes to the writer
// ------------------------------------------------------------------------------------------------
const MAXPEND: usize = 24;

fn check_flush(with_padding_stream: bool, check_order: bool) {
    let mut st = ScanState::new(1);
    let bits: u64 = kani::any();
    let len: u8 = kani::any();
    kani::assume(len as usize <= if with_padding_stream { 15 } else { MAXPEND });
    st.bit_writer.write_raw(bits, len);
    let pad_needed = (8 - len as usize % 8) % 8;
    let pad_src: [u8; 2] = kani::any();
    let mut pbs = Bitstream::new(&pad_src);
    let skip: usize = 0;
    // a Vec as the io::Write sink: infallible (no io::Error construction), capacity reserved for extend_model
    let mut out: Vec<u8> = Vec::with_capacity(12);
    let r = if with_padding_stream {
        st.flush_bit_writer(Some(&mut pbs), &mut out)
    } else {
        st.flush_bit_writer(None, &mut out)
    };
    assert!(r.is_ok(), "[C17,C01] enough padding bits: Ok");
    let written = out.len();
    let total = len as usize + pad_needed;
    let Some(raw) = destuff::<4>(&out, 0, total / 8) else {
        assert!(false, "[C17] exactly (bits + padding) / 8 raw bytes, stuffed, reach the writer");
        return;
    };
    if with_padding_stream {
        assert!(pbs.num_read_bits() == skip + pad_needed, "[C17] exactly the needed padding bits are taken from the padding stream");
    }
    assert!(st.bit_writer.padding_bits() == 0 && st.eobrun == 0, "[C17] the scan continues with an empty, byte-aligned writer");
    let k: usize = kani::any();
    kani::assume(k < total);
    if k < len as usize {
        assert!(bit_of_bytes(&raw, k) == bit_of_value(bits, len as usize, k), "[C17] the segment's bits are unchanged");
    } else if !with_padding_stream {
        assert!(bit_of_bytes(&raw, k) == 1, "[C17] T.81 F.1.2.3: padded with 1-bits");
    } else if check_order {
        // j-th padding bit of this flush = bit (skip + j) of the padding stream (18181-1 bit order: LSB first)
        let j = k - len as usize;
        let p = skip + j;
        let want = (pad_src[p / 8] >> (p % 8)) & 1;
        assert!(bit_of_bytes(&raw, k) == want, "[C17] padding bits are emitted in the order in which the reconstruction data lists them");
    } else {
        // order-insensitive part: the multiset of padding bits emitted == the ones consumed
        let mut ones_out = 0;
        let mut ones_in = 0;
        let mut j = 0;
        while j < 7 {
            if j < pad_needed {
                ones_out += bit_of_bytes(&raw, len as usize + j) as u32;
                let p = skip + j;
                ones_in += ((pad_src[p / 8] >> (p % 8)) & 1) as u32;
            }
            j += 1;
        }
        assert!(ones_out == ones_in, "[C17] the padding consists of the bits taken from the padding stream");
    }
    kani::cover!(pad_needed == 7);
    kani::cover!(pad_needed == 0 && len > 0);
    kani::cover!(written == total / 8 + 1); // a stuffed 0xFF
}

#[kani::proof]
#[kani::unwind(9)]
#[kani::stub(crate::bit_writer::BitWriter::new, crate::bit_writer::verif_harness::new_reserved)]
#[kani::stub(crate::bit_writer::BitWriter::emit_byte, crate::bit_writer::verif_harness::emit_byte_model)]
#[kani::stub(std::vec::Vec::extend_from_slice, crate::bit_writer::verif_harness::extend_model)]
fn flush_ones_contract() {
    check_flush(false, false);
}

#[kani::proof]
#[kani::unwind(9)]
#[kani::stub(crate::bit_writer::BitWriter::new, crate::bit_writer::verif_harness::new_reserved)]
#[kani::stub(crate::bit_writer::BitWriter::emit_byte, crate::bit_writer::verif_harness::emit_byte_model)]
#[kani::stub(std::vec::Vec::extend_from_slice, crate::bit_writer::verif_harness::extend_model)]
fn flush_padding_stream_contract() {
    check_flush(true, false);
}

#[kani::proof]
#[kani::unwind(9)]
#[kani::stub(crate::bit_writer::BitWriter::new, crate::bit_writer::verif_harness::new_reserved)]
#[kani::stub(crate::bit_writer::BitWriter::emit_byte, crate::bit_writer::verif_harness::emit_byte_model)]
#[kani::stub(std::vec::Vec::extend_from_slice, crate::bit_writer::verif_harness::extend_model)]
fn flush_padding_order_contract() {
    check_flush(true, true);
}

// ------------------------------------------------------------------------------------------------
// restart: flush with padding, RSTm marker, m modulo 8, DC predictions reset (E.1.4, F.1.1.5.1)
// ------------------------------------------------------------------------------------------------
#[kani::proof]
#[kani::unwind(9)]
#[kani::stub(crate::bit_writer::BitWriter::new, crate::bit_writer::verif_harness::new_reserved)]
#[kani::stub(crate::bit_writer::BitWriter::emit_byte, crate::bit_writer::verif_harness::emit_byte_model)]
#[kani::stub(std::vec::Vec::extend_from_slice, crate::bit_writer::verif_harness::extend_model)]
fn restart_contract() {
    let mut st = ScanState::new(3);
    let p: [i16; 3] = kani::any();
    st.dc_pred[0] = p[0];
    st.dc_pred[1] = p[1];
    st.dc_pred[2] = p[2];
    let m: u8 = kani::any();
    kani::assume(m <= 7); // invariant of rst_m: starts at 0 (scan.rs:42), only changed by restart
    st.rst_m = m;
    let bits: u64 = kani::any();
    let len: u8 = kani::any();
    kani::assume(len <= 15);
    st.bit_writer.write_raw(bits, len);
    let mut out: Vec<u8> = Vec::with_capacity(12);
    let r = st.restart(None, &mut out);
    assert!(r.is_ok(), "[C17,C01] restart without a padding stream cannot fail on a Vec sink");
    let n = out.len();
    assert!(n >= 2 && out[n - 2] == 0xff && out[n - 1] == 0xd0 + m, "[C17] the segment is followed by the marker RSTm = FF D0+m");
    assert!(st.rst_m == (m + 1) % 8, "[C17,C01] m counts modulo 8 (T.81 E.1.4)");
    assert!(st.dc_pred[0] == 0 && st.dc_pred[1] == 0 && st.dc_pred[2] == 0, "[C17] DC predictions are reset at a restart (T.81 F.1.1.5.1)");
    kani::cover!(len == 0 && n == 2);
    let total = (len as usize + 7) / 8 * 8;
    let Some(raw) = destuff::<2>(&out[..n - 2], 0, total / 8) else {
        assert!(false, "[C17] before the marker: the byte-aligned, stuffed segment and nothing else");
        return;
    };
    let k: usize = kani::any();
    kani::assume(k < total);
    let want = if k < len as usize { bit_of_value(bits, len as usize, k) } else { 1 };
    assert!(bit_of_bytes(&raw, k) == want, "[C17] segment bits, then 1-bit padding");
    kani::cover!(m == 7);
    kani::cover!(len == 15);
}

// ------------------------------------------------------------------------------------------------
// emit_eobrun (T.81 G.1.2.2 Encode_EOBRUN + G.1.2.3 Append_BR_bits) with a concrete 4-bit code table in
// which symbol (n << 4) has the code word n, n = 0..=14 (built by the real HuffmanCode::build)
// ------------------------------------------------------------------------------------------------
#[kani::proof]
#[kani::unwind(18)]
#[kani::stub(crate::bit_writer::BitWriter::new, crate::bit_writer::verif_harness::new_reserved)]
#[kani::stub(crate::bit_writer::BitWriter::emit_byte, crate::bit_writer::verif_harness::emit_byte_model)]
#[kani::stub(std::vec::Vec::extend_from_slice, crate::bit_writer::verif_harness::extend_model)]
#[kani::stub(std::vec::Vec::push, crate::bit_writer::verif_harness::push_model)]
#[kani::stub(<[u8]>::fill, crate::bit_writer::verif_harness::fill_model)]
fn emit_eobrun_contract() {
    let mut counts = [0u8; 17];
    counts[4] = 16;
    let values: Vec<u8> = vec![0x00, 0x10, 0x20, 0x30, 0x40, 0x50, 0x60, 0x70, 0x80, 0x90, 0xa0, 0xb0, 0xc0, 0xd0, 0xe0, 0x00];
    let table = crate::huffman::HuffmanCode { is_ac: true, id: 0, is_last: true, counts, values }.build();
    let mut st = ScanState::new(1);
    st.try_init_ac_table(&table); // process_scan always does this before any block is coded (scan.rs:438)
    let eobrun: u32 = kani::any();
    kani::assume(eobrun <= 32767); // emitted as soon as it reaches 32767 (scan.rs:263,369)
    st.eobrun = eobrun;
    let rbits: u64 = kani::any();
    let rlen: u8 = kani::any();
    kani::assume(rlen <= 10);
    let has_ref: bool = kani::any();
    if has_ref {
        // (buffer_refinement_bits pushes into Vec::new(): build the one-entry buffers directly)
        st.refinement_bits = vec![rbits];
        st.refinement_bitlen = vec![rlen];
    }
    let r = st.emit_eobrun();
    assert!(r.is_ok(), "[C17,C01] every EOBn symbol has a code in this table: Ok");
    assert!(st.eobrun == 0, "[C17] the run is reset");
    if eobrun == 0 {
        // nothing pending: nothing is written, buffered bits stay
        assert!(st.bit_writer.padding_bits() == 0 && st.refinement_bits.len() == has_ref as usize, "[C17] EOBRUN == 0: no-op");
        let Some(_) = drain(&mut st, 0) else {
            assert!(false, "[C17] EOBRUN == 0: nothing written");
            return;
        };
        return;
    }
    assert!(st.refinement_bits.is_empty() && st.refinement_bitlen.is_empty(), "[C17] buffered correction bits are flushed");
    // SSSS = floor(log2(EOBRUN))
    let mut ssss = 0usize;
    while (eobrun >> (ssss + 1)) != 0 {
        ssss += 1;
    }
    let rl = if has_ref { rlen as usize } else { 0 };
    let total = 4 + ssss + rl;
    let Some(raw) = drain(&mut st, total) else {
        assert!(false, "[C17] exactly code + SSSS + correction bits are written");
        return;
    };
    let k: usize = kani::any();
    kani::assume(k < total);
    let want = if k < 4 {
        bit_of_value(ssss as u64, 4, k) // the table's code word for symbol (SSSS << 4) is SSSS in 4 bits
    } else if k < 4 + ssss {
        bit_of_value(eobrun as u64, ssss, k - 4) // the SSSS low-order bits of EOBRUN
    } else {
        bit_of_value(rbits, rl, k - 4 - ssss)
    };
    assert!(bit_of_bytes(&raw, k) == want, "[C17] EOBn code, then the low SSSS bits of EOBRUN, then the buffered correction bits");
    kani::cover!(eobrun == 32767);
    kani::cover!(eobrun == 1 && !has_ref);
    kani::cover!(has_ref && rlen == 10 && ssss == 14);
}
