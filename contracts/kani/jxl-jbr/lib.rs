use super::*;
