// Contracts for crates/jxl-jbr/src/lib.rs (child module of the crate root: sees JpegBitstreamHeader,
// AppMarker, ... and their private fields).
//
// JPEG side (ITU-T T.81 B.2.4.6 APPn: marker 0xFFEn, then a 2-byte length Lp that counts itself, then
// Lp - 2 bytes). The reconstruction header stores per APPn marker `length` = 1 + Lp (the marker's second byte
// + the segment; reconstruct.rs:698 writes Lp = length - 1) and a type: 0 = bytes kept verbatim in the
// data stream, 1 = ICC chunk ("ICC_PROFILE\0" + seq + count + payload, marker 0xE2), 2 = Exif
// ("Exif\0\0" + payload, 0xE1), 3 = XMP ("http://ns.adobe.com/xap/1.0/\0" + payload, 0xE1). Hence the payload
// taken from the ICC / Exif / xml boxes is   length - 1 - 2 - 12 - 2 = length - 17   (ICC),
// length - 1 - 2 - 6 = length - 9 (Exif), length - 1 - 2 - 29 = length - 32 (XMP).
//
// What the parser admits (AppMarker::parse, lib.rs:300-305; proved by `app_marker_parse_contract`):
//   ty = U32(0, 1, 2 + u(1), 4 + u(2))  in 0..=7,   length = u(16) + 1  in 1..=65536, independent of ty.
// Nothing relates length to ty, and ty 4..=7 is accepted.
use super::*;

fn header_with(app_markers: Vec<AppMarker>, com_lengths: Vec<u32>, intermarker_lengths: Vec<u32>, tail_data_length: u32) -> JpegBitstreamHeader {
    JpegBitstreamHeader {
        is_gray: false,
        markers: Vec::new(),
        app_markers,
        com_lengths,
        quant_tables: Vec::new(),
        components: Vec::new(),
        huffman_codes: Vec::new(),
        scan_info: Vec::new(),
        restart_interval: 0,
        scan_more_info: Vec::new(),
        intermarker_lengths,
        tail_data_length,
        padding_bits: None,
    }
}

/// u(n) of 18181-1 at bit position `at` of a little-endian word
fn u(w: u64, at: usize, n: usize) -> u32 {
    ((w >> at) & ((1u64 << n) - 1)) as u32
}

/// spec of the AppMarker bundle on the bit view `w` of `nbits` bits: Some((ty, length, bits used))
fn spec_app_marker(w: u64, nbits: usize) -> Option<(u32, u32, usize)> {
    if nbits < 2 {
        return None;
    }
    let (off, n) = [(0u32, 0usize), (1, 0), (2, 1), (4, 2)][u(w, 0, 2) as usize];
    if nbits < 2 + n + 16 {
        return None;
    }
    Some((off + u(w, 2, n), u(w, 2 + n, 16) + 1, 2 + n + 16))
}

// ------------------------------------------------------------------------------------------------
// AppMarker::parse: exactly which (ty, length) the parser admits
// ------------------------------------------------------------------------------------------------
#[kani::proof]
#[kani::unwind(9)]
fn app_marker_parse_contract() {
    let data: [u8; 3] = kani::any();
    let len: usize = kani::any();
    kani::assume(len <= 3);
    let w = u32::from_le_bytes([data[0], data[1], data[2], 0]) as u64;
    let mut bs = Bitstream::new(&data[..len]);
    let r = AppMarker::parse(&mut bs, ());
    // what the bundle admits (after the fix "validate app marker type and length"): ty 0..=3 only, and a marker of a known
    // type must be long enough for its fixed header: ICC 5 + 12, Exif 3 + 6, XMP 3 + 29 bytes
    let admitted = |ty: u32, length: u32| match ty { 0 => true, 1 => length >= 17, 2 => length >= 9, 3 => length >= 32, _ => false };
    match (&r, spec_app_marker(w, len * 8)) {
        (Ok(am), Some((ty, length, used))) => {
            assert!(am.ty == ty, "[C17] ty = U32(0, 1, 2 + u(1), 4 + u(2))");
            assert!(am.length == length, "[C17] length = u(16) + 1");
            assert!(bs.num_read_bits() == used, "[C17] exactly the bundle's bits are consumed");
            assert!(admitted(am.ty, am.length) && am.length <= 65536, "[C17,C01] only markers the consumers can handle are returned");
        }
        (Err(e), None) => assert!(e.unexpected_eof(), "[C01,C17] an incomplete bundle is unexpected-eof"),
        (Err(e), Some((ty, length, _))) => {
            assert!(!admitted(ty, length), "[C17] a complete bundle is rejected only for an unknown type or a too short known marker");
            assert!(!e.unexpected_eof(), "[C17,C11] a malformed marker is a hard error, not end-of-data");
        }
        (Ok(_), None) => assert!(false, "[C17,C01] parse must not succeed on an incomplete bundle"),
    }
    // the boundary cases on both sides are reachable
    kani::cover!(matches!(&r, Ok(am) if am.ty == 1 && am.length == 17));
    kani::cover!(matches!(&r, Ok(am) if am.ty == 2 && am.length == 9));
    kani::cover!(matches!(&r, Ok(am) if am.ty == 3 && am.length == 32));
    kani::cover!(matches!(&r, Ok(am) if am.ty == 0 && am.length == 1));
    kani::cover!(matches!(&r, Ok(am) if am.ty == 3 && am.length == 65536));
    kani::cover!(r.is_err());
}

// ------------------------------------------------------------------------------------------------
// expected_icc_len / expected_exif_len / expected_xmp_len / expected_data_len on headers whose APPn entries
// come out of the REAL parser (two of them, parsed back to back from 5 symbolic bytes)
// ------------------------------------------------------------------------------------------------
#[kani::proof]
#[kani::unwind(9)]
fn expected_lens_total() {
    let data: [u8; 5] = kani::any();
    let mut bs = Bitstream::new(&data);
    let Ok(a) = AppMarker::parse(&mut bs, ()) else { return };
    let (aty, alen) = (a.ty, a.length as usize);
    let two: bool = kani::any();
    let mut b_tl = None;
    let v = if two {
        let Ok(b) = AppMarker::parse(&mut bs, ()) else { return };
        b_tl = Some((b.ty, b.length as usize));
        vec![a, b]
    } else {
        vec![a]
    };
    let tail: u32 = kani::any();
    kani::assume(tail <= 65793 + (1 << 22) - 1); // lib.rs:215 U32(0, 1 + u(8), 257 + u(16), 65793 + u(22))
    let h = header_with(v, Vec::new(), Vec::new(), tail);
    // none of these may panic, whatever the parser returned (jpeg_reconstruction_status calls the first three on
    // a header straight out of the parser, jxl-oxide/src/lib.rs:809-823; finalize calls the fourth, lib.rs:80)
    let icc = h.expected_icc_len();
    let exif = h.expected_exif_len();
    let xmp = h.expected_xmp_len();
    let dl = h.expected_data_len();
    // values, where the header describes real segments
    let (bty, blen) = b_tl.unwrap_or((0, 0));
    let n_b = b_tl.is_some();
    let icc_ok = (aty != 1 || alen >= 17) && (!n_b || bty != 1 || blen >= 17);
    if icc_ok {
        let e = if aty == 1 { alen - 17 } else { 0 } + if n_b && bty == 1 { blen - 17 } else { 0 };
        assert!(icc == e, "[C17] expected_icc_len == sum over ICC chunks of (length - 17)");
    }
    let first_exif = if aty == 2 { Some(alen) } else if n_b && bty == 2 { Some(blen) } else { None };
    match first_exif {
        Some(l) if l >= 9 => assert!(exif == l - 9, "[C17] expected_exif_len == length - 9 of the first Exif marker"),
        None => assert!(exif == 0, "[C17] no Exif marker: 0"),
        _ => {}
    }
    let first_xmp = if aty == 3 { Some(alen) } else if n_b && bty == 3 { Some(blen) } else { None };
    match first_xmp {
        Some(l) if l >= 32 => assert!(xmp == l - 32, "[C17] expected_xmp_len == length - 32 of the first XMP marker"),
        None => assert!(xmp == 0, "[C17] no XMP marker: 0"),
        _ => {}
    }
    let e = if aty == 0 { alen } else { 0 } + if n_b && bty == 0 { blen } else { 0 } + tail as usize;
    assert!(dl == e, "[C17] expected_data_len == verbatim APPn bytes + COM + inter-marker + tail bytes");
    kani::cover!(two && aty == 1 && bty == 1 && icc_ok && icc > 0);
    kani::cover!(!two && aty == 2 && exif == 65527);
    kani::cover!(two && bty == 3 && xmp > 0);
}

// ------------------------------------------------------------------------------------------------
// expected_data_len with COM / inter-marker / tail lengths in the ranges the header parser produces
//   com_lengths[i] = u(16) + 1 (lib.rs:169), intermarker_lengths[i] = u(16) (lib.rs:212), tail (lib.rs:215)
// ------------------------------------------------------------------------------------------------
fn expected_data_len_n<const NA: usize, const NC: usize, const NM: usize>() {
    let c: [u32; NC] = kani::any();
    let m: [u32; NM] = kani::any();
    let a: [u32; NA] = kani::any();
    let aty: [u32; NA] = kani::any();
    let tail: u32 = kani::any();
    kani::assume(tail <= 65793 + (1 << 22) - 1);
    let mut e = tail as usize;
    let mut av = Vec::with_capacity(NA);
    let mut i = 0;
    while i < NA {
        kani::assume(a[i] >= 1 && a[i] <= 65536 && aty[i] <= 7);
        if aty[i] == 0 {
            e += a[i] as usize;
        }
        av.push(AppMarker { ty: aty[i], length: a[i] });
        i += 1;
    }
    let mut i = 0;
    while i < NC {
        kani::assume(c[i] >= 1 && c[i] <= 65536);
        e += c[i] as usize;
        i += 1;
    }
    let mut i = 0;
    while i < NM {
        kani::assume(m[i] <= 65535);
        e += m[i] as usize;
        i += 1;
    }
    let h = header_with(av, c.to_vec(), m.to_vec(), tail);
    assert!(h.expected_data_len() == e, "[C17,C01] expected_data_len == verbatim APPn + COM + inter-marker + tail bytes, no overflow");
    assert!(h.app_data_len() + h.com_data_len() + h.intermarker_data_len() + tail as usize == e, "[C17] the section offsets used by the reconstructor (reconstruct.rs:91-93) add up to it");
    kani::cover!(NA == 0 || aty[0] == 0);
    kani::cover!(NA < 2 || (aty[0] == 0 && aty[1] == 0 && e == 2 * 65536 + NC * 65536 + NM * 65535 + 65793 + (1 << 22) - 1));
}

#[kani::proof]
#[kani::unwind(4)]
fn expected_data_len_contract() {
    expected_data_len_n::<2, 2, 2>();
}

#[kani::proof]
#[kani::unwind(4)]
fn expected_data_len_empty() {
    expected_data_len_n::<0, 0, 0>();
}

// ------------------------------------------------------------------------------------------------
// consumer precondition: the APPn writer treats ty > 3 as unreachable!() (reconstruct.rs:699-757)
// ------------------------------------------------------------------------------------------------
#[kani::proof]
#[kani::unwind(9)]
fn app_marker_type_known() {
    let data: [u8; 3] = kani::any();
    let mut bs = Bitstream::new(&data);
    let Ok(am) = AppMarker::parse(&mut bs, ()) else { return };
    assert!(am.ty <= 3, "[C01,C17] APPn writer (reconstruct.rs:699-757) has `_ => unreachable!()` for ty > 3: the parser must not return it");
    kani::cover!(am.ty == 3);
}

// ================================================================================================
// PART 2: ScanInfo / ScanComponentInfo / ScanMoreInfo bundles
// ================================================================================================
// jbrd syntax (ISO/IEC 18181-2 Annex "JPEG bitstream reconstruction data"; libjxl lib/jxl/jpeg/jpeg_data.cc
// JPEGData::VisitFields), bit fields in 18181-1 notation:
//   scan_info[i]:       num_comps = u(2) + 1; Ss = u(6); Se = u(6); Al = u(4); Ah = u(4);
//                       num_comps x { comp_idx = u(2); ac_tbl_idx = u(2); dc_tbl_idx = u(2) };
//                       last_needed_pass = U32(0, 1, 2, 3 + u(3))
//   scan_more_info[i]:  num_reset_points = U32(0, 1 + u(2), 4 + u(4), 20 + u(16));
//                       per reset point: delta = U32(0, 1 + u(3), 9 + u(5), 41 + u(28));
//                       num_extra_zero_runs = U32(0, 1 + u(2), 4 + u(4), 20 + u(16));
//                       per entry: num_runs = U32(1, 2 + u(2), 5 + u(4), 20 + u(8)); delta = U32(0, 1 + u(3), 9 + u(5), 41 + u(28))
//   Both lists are delta coded block indices (libjxl: `last_block_idx = -1; block_idx = delta + last_block_idx + 1`):
//                       index_0 = delta_0,   index_k = index_(k-1) + delta_k + 1   (strictly increasing),
//   an index above the block-count limit 3 * 2^26 is a stream error.

/// the first 16 bytes of the bundle as one little-endian word: bit k of the bit stream is bit k of the word
fn word16(data: &[u8; 16]) -> u128 {
    u128::from_le_bytes(*data)
}

/// u(n), n <= 32, at bit position *pos of a stream of `nbits` bits; None = the stream ends before
fn su(w: u128, nbits: usize, pos: &mut usize, n: usize) -> Option<u32> {
    if *pos + n > nbits {
        return None;
    }
    let v = ((w >> *pos) & ((1u128 << n) - 1)) as u32;
    *pos += n;
    Some(v)
}

/// U32(d0, d1, d2, d3), each distribution given as (offset, bits)
fn su32(w: u128, nbits: usize, pos: &mut usize, d: [(u32, usize); 4]) -> Option<u32> {
    let sel = su(w, nbits, pos, 2)? as usize;
    let (off, n) = d[sel];
    Some(off + su(w, nbits, pos, n)?)
}

/// ASSUMPTION "enough data" (same as contracts/kani/jxl-frame/toc.rs): Bitstream::read_bits with the end-of-data Err pruned.
/// `consume_bits` builds (and, on success, drops) a std::io::Error on EVERY call and a possible Err inside
/// `collect::<Result<Vec<_>, _>>()` makes every later length symbolic; neither closes. After the refill done by
/// peek_bits, skip_bits(n) is consume_bits(n) whenever n bits are buffered (bitstream.rs:133-141 vs 164-169, obligation
/// bs.skip_bits) and fails exactly when consume_bits fails (input exhausted). The end-of-data outcome of the bundle
/// parsers is therefore NOT covered by the obligations using this stub (it is `?`-propagation of that Err; bs.* prefix
/// obligations cover the primitive).
pub(crate) fn read_bits_enough_data<'a>(bs: &mut Bitstream<'a>, n: usize) -> jxl_bitstream::BitstreamResult<u32>
where
    'a: 'a,
{
    let ret = bs.peek_bits(n);
    if let Err(e) = bs.skip_bits(n) {
        std::mem::forget(e);
        kani::assume(false);
    }
    Ok(ret)
}

const D_COUNT: [(u32, usize); 4] = [(0, 0), (1, 2), (4, 4), (20, 16)];
const D_DELTA: [(u32, usize); 4] = [(0, 0), (1, 3), (9, 5), (41, 28)];
const D_RUNS: [(u32, usize); 4] = [(1, 0), (2, 2), (5, 4), (20, 8)];
const D_PASS: [(u32, usize); 4] = [(0, 0), (1, 0), (2, 0), (3, 3)];
const MAX_BLOCK_IDX: u32 = 3 << 26;

fn is_validation_failed<T>(r: &Result<T, jxl_bitstream::Error>) -> bool {
    matches!(r, Err(jxl_bitstream::Error::ValidationFailed(_)))
}

// ------------------------------------------------------------------------------------------------
// ScanInfo::parse (with its ScanComponentInfo entries)
// ------------------------------------------------------------------------------------------------
// (24 symbolic bytes: longer than the longest bundle, 51 bits; read_bits = read_bits_enough_data)
#[kani::proof]
#[kani::unwind(6)]
#[kani::stub(jxl_bitstream::Bitstream::read_bits, read_bits_enough_data)]
fn scan_info_parse_contract() {
    let data: [u8; 24] = kani::any();
    let w = u128::from_le_bytes([data[0], data[1], data[2], data[3], data[4], data[5], data[6], data[7], data[8], data[9], data[10], data[11], data[12], data[13], data[14], data[15]]);
    let nbits = 128;
    let mut bs = Bitstream::new(&data);
    let r = ScanInfo::parse(&mut bs, ());
    // spec
    let mut pos = 0usize;
    let spec = (|| {
        let n = su(w, nbits, &mut pos, 2)? + 1;
        let ss = su(w, nbits, &mut pos, 6)?;
        let se = su(w, nbits, &mut pos, 6)?;
        let al = su(w, nbits, &mut pos, 4)?;
        let ah = su(w, nbits, &mut pos, 4)?;
        let mut comps = [(0u32, 0u32, 0u32); 4];
        let mut i = 0;
        while i < 4 {
            if (i as u32) < n {
                comps[i] = (su(w, nbits, &mut pos, 2)?, su(w, nbits, &mut pos, 2)?, su(w, nbits, &mut pos, 2)?);
            }
            i += 1;
        }
        let lnp = su32(w, nbits, &mut pos, D_PASS)?;
        Some((n, ss, se, al, ah, comps, lnp))
    })();
    match (&r, spec) {
        (Ok(si), Some((n, ss, se, al, ah, comps, lnp))) => {
            assert!(si.component_info.len() == n as usize && si.num_comps() as u32 == n && (1..=4).contains(&n), "[C17,C01] num_comps = u(2) + 1 components");
            assert!(si.ss as u32 == ss && si.se as u32 == se && si.al as u32 == al && si.ah as u32 == ah, "[C17] Ss = u(6), Se = u(6), Al = u(4), Ah = u(4) in this order");
            assert!(si.ss <= 63 && si.se <= 63 && si.al <= 15 && si.ah <= 15, "[C17,C01] field ranges (the SOS writer packs (Ah << 4) | Al into one byte, reconstruct.rs:545)");
            let k: usize = kani::any();
            kani::assume(k < n as usize);
            let c = &si.component_info[k];
            assert!((c.comp_idx as u32, c.ac_tbl_idx as u32, c.dc_tbl_idx as u32) == comps[k], "[C17] component k: comp_idx = u(2), ac_tbl_idx = u(2), dc_tbl_idx = u(2)");
            assert!(c.ac_tbl_idx <= 3 && c.dc_tbl_idx <= 3, "[C01,C17] table selectors index the 4-entry dc_tables / ac_tables (scan.rs:431-436)");
            assert!(si.last_needed_pass as u32 == lnp && lnp <= 10, "[C17] last_needed_pass = U32(0, 1, 2, 3 + u(3))");
            assert!(bs.num_read_bits() == pos, "[C17] exactly the bundle's bits are consumed");
        }
        _ => assert!(false, "[C17,C01] a complete bundle parses"),
    }
    kani::cover!(matches!(&r, Ok(si) if si.component_info.len() == 4 && si.last_needed_pass == 10));
    kani::cover!(matches!(&r, Ok(si) if si.component_info.len() == 1 && si.ss == 63 && si.ah == 15));
    std::mem::forget(r);
}

// ------------------------------------------------------------------------------------------------
// consumer preconditions on what ScanInfo::parse returns (the consumers need a Frame and cannot be driven here):
//  * spectral range: process_scan slices DCT8_NATURAL_ORDER[Ss.max(1) .. Se + 1] and reserves (Se + 1 - Ss.max(1)) entries
//    (scan.rs:400-401, 479-480): needs Ss.max(1) <= Se + 1, i.e. Ss <= Se or the DC-only scan Ss = Se = 0 (T.81 B.2.3:
//    Ss <= Se). Otherwise: u8 subtraction overflow (checked build) / slice index starts after its end (any build).
//  * component index: the SOS writer indexes header.components (1..=4 entries), a [u32; 3] sampling table
//    (reconstruct.rs:537, 556, 560) and process_scan a 3-entry channel permutation (scan.rs:443) with comp_idx.
// ------------------------------------------------------------------------------------------------
#[kani::proof]
#[kani::unwind(6)]
#[kani::stub(jxl_bitstream::Bitstream::read_bits, read_bits_enough_data)]
fn scan_info_spectral_range_pre() {
    let data: [u8; 24] = kani::any();
    let mut bs = Bitstream::new(&data);
    let r = ScanInfo::parse(&mut bs, ());
    if let Ok(si) = &r {
        assert!(si.ss.max(1) <= si.se + 1, "[C01,C17] process_scan (scan.rs:400-401,479-480) slices DCT8_NATURAL_ORDER[Ss.max(1)..Se + 1]: the parser must not return Ss > Se + 1");
        kani::cover!(si.ss == 0 && si.se == 0);
        kani::cover!(si.ss == 1 && si.se == 63);
    }
    std::mem::forget(r);
}

#[kani::proof]
#[kani::unwind(6)]
#[kani::stub(jxl_bitstream::Bitstream::read_bits, read_bits_enough_data)]
fn scan_info_comp_idx_pre() {
    let data: [u8; 24] = kani::any();
    let mut bs = Bitstream::new(&data);
    let r = ScanInfo::parse(&mut bs, ());
    if let Ok(si) = &r {
        let k: usize = kani::any();
        kani::assume(k < si.component_info.len());
        assert!(si.component_info[k].comp_idx <= 2, "[C01,C17] the SOS writer and process_scan index 3-entry tables with comp_idx (reconstruct.rs:556,560; scan.rs:443): the parser must not return comp_idx 3");
        kani::cover!(si.component_info.len() == 4 && k == 3);
    }
    std::mem::forget(r);
}

// ------------------------------------------------------------------------------------------------
// ExtraZeroRun::parse (one entry of the extra_zero_runs list, before delta decoding)
// ------------------------------------------------------------------------------------------------
#[kani::proof]
#[kani::unwind(6)]
#[kani::stub(jxl_bitstream::Bitstream::read_bits, read_bits_enough_data)]
fn extra_zero_run_parse_contract() {
    let data: [u8; 24] = kani::any();
    let w = u128::from_le_bytes([data[0], data[1], data[2], data[3], data[4], data[5], data[6], data[7], data[8], data[9], data[10], data[11], data[12], data[13], data[14], data[15]]);
    let mut bs = Bitstream::new(&data);
    let r = ExtraZeroRun::parse(&mut bs, ());
    let mut pos = 0usize;
    let runs = su32(w, 128, &mut pos, D_RUNS);
    let delta = su32(w, 128, &mut pos, D_DELTA);
    match (&r, runs, delta) {
        (Ok(z), Some(runs), Some(delta)) => {
            assert!(z.num_runs == runs && (1..=275).contains(&runs), "[C17,C01] num_runs = U32(1, 2 + u(2), 5 + u(4), 20 + u(8)), read first");
            assert!(z.run_length == delta && delta <= 41 + (1 << 28) - 1, "[C17,C01] block-index delta = U32(0, 1 + u(3), 9 + u(5), 41 + u(28)), read second");
            assert!(bs.num_read_bits() == pos, "[C17] exactly the entry's bits are consumed");
        }
        _ => assert!(false, "[C17,C01] a complete entry parses"),
    }
    kani::cover!(matches!(&r, Ok(z) if z.num_runs == 275 && z.run_length == 0));
    kani::cover!(matches!(&r, Ok(z) if z.num_runs == 1 && z.run_length == 41 + (1 << 28) - 1));
    std::mem::forget(r);
}

// ------------------------------------------------------------------------------------------------
// ScanMoreInfo::parse: both delta-coded lists
// NOT REGISTERED (scan_more_info_parse_rp2_ez1 / _rp1_ez2): they do not close. The parser collects into
// HashSet<u32> / HashMap<u32, u32>; with the real containers CBMC runs out of memory (14 GB), with the fixed-key /
// constant-hash models below hashbrown's probe and rehash loops are still unwound to the bound inside the (symbolic-count)
// collect loops and symbolic execution does not finish in 20 min; `Extend::extend` / `FromIterator::from_iter` cannot be
// replaced by recording models because Kani 0.68 cannot stub generic functions of traits. Kept as the statement of the
// intended contract (index_0 = delta_0, index_k = index_(k-1) + delta_k + 1 for both lists).
// ------------------------------------------------------------------------------------------------
/// spec of the bundle on a 128-bit stream: (number of reset points, their indices, number of extra-zero-run entries,
/// their (index, num_runs), bits used, some index above the limit); None = incomplete or more entries than RP / EZ
fn spec_scan_more_info<const RP: usize, const EZ: usize>(w: u128) -> Option<(usize, [u32; RP], usize, [(u32, u32); EZ], usize, bool)> {
    let mut pos = 0usize;
    let mut too_large = false;
    let nrp = su32(w, 128, &mut pos, D_COUNT)? as usize;
    if nrp > RP {
        return None;
    }
    let mut rp = [0u32; RP];
    let mut i = 0;
    while i < RP {
        if i < nrp && !too_large {
            let delta = su32(w, 128, &mut pos, D_DELTA)?;
            rp[i] = if i == 0 { delta } else { rp[i - 1] + delta + 1 };
            too_large = rp[i] > MAX_BLOCK_IDX;
        }
        i += 1;
    }
    if too_large {
        return Some((nrp, rp, 0, [(0, 0); EZ], pos, true));
    }
    let nez = su32(w, 128, &mut pos, D_COUNT)? as usize;
    if nez > EZ {
        return None;
    }
    let mut ez = [(0u32, 0u32); EZ];
    let mut i = 0;
    while i < EZ {
        if i < nez && !too_large {
            let runs = su32(w, 128, &mut pos, D_RUNS)?;
            let delta = su32(w, 128, &mut pos, D_DELTA)?;
            ez[i] = (if i == 0 { delta } else { ez[i - 1].0 + delta + 1 }, runs);
            too_large = ez[i].0 > MAX_BLOCK_IDX;
        }
        i += 1;
    }
    Some((nrp, rp, nez, ez, pos, too_large))
}

// Models for the hash containers (HashSet<u32> / HashMap<u32, u32> with the default RandomState): the real
// RandomState::new() asks the operating system for random keys (a foreign call Kani cannot execute) and SipHash over
// symbolic keys makes every bucket position symbolic (CBMC ran out of memory at 14 GB on two insertions). The observable
// behaviour of HashSet / HashMap (len, contains, get) does not depend on the hash VALUES -- any deterministic hasher
// gives the same set / map -- so the obligations run the REAL hashbrown table with fixed keys and a constant hash
// (every key lands in the same probe sequence and is told apart by `==`, which is what decides membership).
// (Recording models of `Extend::extend` are not possible: Kani 0.68 cannot stub generic functions of traits.)
fn random_state_model() -> std::hash::RandomState {
    // RandomState is two u64 keys
    unsafe { std::mem::transmute::<[u64; 2], std::hash::RandomState>([0, 0]) }
}

fn hasher_write_model(_h: &mut std::hash::DefaultHasher, _msg: &[u8]) {}

fn hasher_finish_model(_h: &std::hash::DefaultHasher) -> u64 {
    0
}

fn check_scan_more_info<const RP: usize, const EZ: usize>() {
    let data: [u8; 16] = kani::any();
    let w = word16(&data);
    // bounded: complete bundles with at most RP reset points and EZ extra-zero-run entries (they fit into 128 bits)
    let Some((nrp, rp, nez, ez, used, too_large)) = spec_scan_more_info::<RP, EZ>(w) else { return };
    let mut bs = Bitstream::new(&data);
    let r = ScanMoreInfo::parse(&mut bs, ());
    if too_large {
        assert!(is_validation_failed(&r), "[C17,C01] a block index above 3 * 2^26 is rejected");
    } else {
        match &r {
            Ok(smi) => {
                assert!(smi.reset_points.len() == nrp, "[C17] one reset point per entry (indices are strictly increasing, hence distinct)");
                assert!(smi.extra_zero_runs.len() == nez, "[C17] one extra-zero-run entry per entry");
                let k: usize = kani::any();
                if k < nrp {
                    assert!(smi.reset_points.contains(&rp[k]), "[C17] reset point k is at block index_0 = delta_0, index_k = index_(k-1) + delta_k + 1");
                }
                if k < nez {
                    assert!(smi.extra_zero_runs.get(&ez[k].0) == Some(&ez[k].1), "[C17] extra-zero-run entry k: block index_k (same delta coding) -> num_runs_k");
                }
                assert!(bs.num_read_bits() == used, "[C17] exactly the bundle's bits are consumed");
            }
            Err(_) => assert!(false, "[C17,C01] a complete bundle with indices within the limit parses"),
        }
    }
    kani::cover!(r.is_ok() && nrp == RP && nez == EZ);
    kani::cover!(r.is_ok() && nrp == RP && RP >= 2 && rp[RP - 1] == rp[0] + 1);
    kani::cover!(r.is_ok() && nez == EZ && EZ >= 2 && ez[EZ - 1].0 == ez[0].0 + 1 && ez[0].1 == 275);
    kani::cover!(too_large);
    std::mem::forget(r);
}

#[kani::proof]
#[kani::unwind(9)]
#[kani::stub(std::hash::RandomState::new, random_state_model)]
#[kani::stub(<std::hash::DefaultHasher as std::hash::Hasher>::write, hasher_write_model)]
#[kani::stub(<std::hash::DefaultHasher as std::hash::Hasher>::finish, hasher_finish_model)]
#[kani::stub(jxl_bitstream::Bitstream::read_bits, read_bits_enough_data)]
fn scan_more_info_parse_rp2_ez1() {
    check_scan_more_info::<2, 1>();
}

#[kani::proof]
#[kani::unwind(9)]
#[kani::stub(std::hash::RandomState::new, random_state_model)]
#[kani::stub(<std::hash::DefaultHasher as std::hash::Hasher>::write, hasher_write_model)]
#[kani::stub(<std::hash::DefaultHasher as std::hash::Hasher>::finish, hasher_finish_model)]
#[kani::stub(jxl_bitstream::Bitstream::read_bits, read_bits_enough_data)]
fn scan_more_info_parse_rp1_ez2() {
    check_scan_more_info::<1, 2>();
}
