// Contracts for crates/jxl-jbr/src/lib.rs (child module of the crate root: sees JpegBitstreamHeader,
// AppMarker, ... and their private fields).
//
// JPEG side (ITU-T T.81 B.2.4.6 APPn: marker 0xFFEn, then a 2-byte length Lp that counts itself, then
// Lp - 2 bytes). The reconstruction header stores per APPn marker `length` = 1 + Lp (the marker's second byte
// + the segment; reconstruct.rs:698 writes Lp = length - 1) and a type: 0 = bytes kept verbatim in the
// data stream, 1 = ICC chunk ("ICC_PROFILE\0" + seq + count + payload, marker 0xE2), 2 = Exif
// ("Exif\0\0" + payload, 0xE1), 3 = XMP ("http://ns.adobe.com/xap/1.0/\0" + payload, 0xE1). Hence the payload
// taken from the ICC / Exif / xml boxes is   length - 1 - 2 - 12 - 2 = length - 17   (ICC),
// length - 1 - 2 - 6 = length - 9 (Exif), length - 1 - 2 - 29 = length - 32 (XMP).
//
// What the parser admits (AppMarker::parse, lib.rs:300-305; proved by `app_marker_parse_contract`):
//   ty = U32(0, 1, 2 + u(1), 4 + u(2))  in 0..=7,   length = u(16) + 1  in 1..=65536, independent of ty.
// Nothing relates length to ty, and ty 4..=7 is accepted.
use super::*;

fn header_with(app_markers: Vec<AppMarker>, com_lengths: Vec<u32>, intermarker_lengths: Vec<u32>, tail_data_length: u32) -> JpegBitstreamHeader {
    JpegBitstreamHeader {
        is_gray: false,
        markers: Vec::new(),
        app_markers,
        com_lengths,
        quant_tables: Vec::new(),
        components: Vec::new(),
        huffman_codes: Vec::new(),
        scan_info: Vec::new(),
        restart_interval: 0,
        scan_more_info: Vec::new(),
        intermarker_lengths,
        tail_data_length,
        padding_bits: None,
    }
}

/// u(n) of 18181-1 at bit position `at` of a little-endian word
fn u(w: u64, at: usize, n: usize) -> u32 {
    ((w >> at) & ((1u64 << n) - 1)) as u32
}

/// spec of the AppMarker bundle on the bit view `w` of `nbits` bits: Some((ty, length, bits used))
fn spec_app_marker(w: u64, nbits: usize) -> Option<(u32, u32, usize)> {
    if nbits < 2 {
        return None;
    }
    let (off, n) = [(0u32, 0usize), (1, 0), (2, 1), (4, 2)][u(w, 0, 2) as usize];
    if nbits < 2 + n + 16 {
        return None;
    }
    Some((off + u(w, 2, n), u(w, 2 + n, 16) + 1, 2 + n + 16))
}

// ------------------------------------------------------------------------------------------------
// AppMarker::parse: exactly which (ty, length) the parser admits
// ------------------------------------------------------------------------------------------------
#[kani::proof]
#[kani::unwind(9)]
fn app_marker_parse_contract() {
    let data: [u8; 3] = kani::any();
    let len: usize = kani::any();
    kani::assume(len <= 3);
    let w = u32::from_le_bytes([data[0], data[1], data[2], 0]) as u64;
    let mut bs = Bitstream::new(&data[..len]);
    let r = AppMarker::parse(&mut bs, ());
    match (&r, spec_app_marker(w, len * 8)) {
        (Ok(am), Some((ty, length, used))) => {
            assert!(am.ty == ty, "[C17] ty = U32(0, 1, 2 + u(1), 4 + u(2))");
            assert!(am.length == length, "[C17] length = u(16) + 1");
            assert!(bs.num_read_bits() == used, "[C17] exactly the bundle's bits are consumed");
            assert!(am.ty <= 7 && am.length >= 1 && am.length <= 65536, "[C17,C01] range of what the parser returns");
        }
        (Err(e), None) => assert!(e.unexpected_eof(), "[C01,C17] the only failure is running out of input"),
        _ => assert!(false, "[C17,C01] parse succeeds exactly when the bundle is complete"),
    }
    // every (ty, length) pair in the range is reachable, in particular the ones the consumers mishandle
    kani::cover!(matches!(&r, Ok(am) if am.ty == 1 && am.length == 1));
    kani::cover!(matches!(&r, Ok(am) if am.ty == 1 && am.length == 16));
    kani::cover!(matches!(&r, Ok(am) if am.ty == 2 && am.length == 8));
    kani::cover!(matches!(&r, Ok(am) if am.ty == 3 && am.length == 31));
    kani::cover!(matches!(&r, Ok(am) if am.ty == 7 && am.length == 65536));
    kani::cover!(matches!(&r, Ok(am) if am.ty == 4));
    kani::cover!(r.is_err());
}

// ------------------------------------------------------------------------------------------------
// expected_icc_len / expected_exif_len / expected_xmp_len / expected_data_len on headers whose APPn entries
// come out of the REAL parser (two of them, parsed back to back from 5 symbolic bytes)
// ------------------------------------------------------------------------------------------------
#[kani::proof]
#[kani::unwind(9)]
fn expected_lens_total() {
    let data: [u8; 5] = kani::any();
    let mut bs = Bitstream::new(&data);
    let Ok(a) = AppMarker::parse(&mut bs, ()) else { return };
    let (aty, alen) = (a.ty, a.length as usize);
    let two: bool = kani::any();
    let mut b_tl = None;
    let v = if two {
        let Ok(b) = AppMarker::parse(&mut bs, ()) else { return };
        b_tl = Some((b.ty, b.length as usize));
        vec![a, b]
    } else {
        vec![a]
    };
    let tail: u32 = kani::any();
    kani::assume(tail <= 65793 + (1 << 22) - 1); // lib.rs:215 U32(0, 1 + u(8), 257 + u(16), 65793 + u(22))
    let h = header_with(v, Vec::new(), Vec::new(), tail);
    // none of these may panic, whatever the parser returned (jpeg_reconstruction_status calls the first three on
    // a header straight out of the parser, jxl-oxide/src/lib.rs:809-823; finalize calls the fourth, lib.rs:80)
    let icc = h.expected_icc_len();
    let exif = h.expected_exif_len();
    let xmp = h.expected_xmp_len();
    let dl = h.expected_data_len();
    // values, where the header describes real segments
    let (bty, blen) = b_tl.unwrap_or((0, 0));
    let n_b = b_tl.is_some();
    let icc_ok = (aty != 1 || alen >= 17) && (!n_b || bty != 1 || blen >= 17);
    if icc_ok {
        let e = if aty == 1 { alen - 17 } else { 0 } + if n_b && bty == 1 { blen - 17 } else { 0 };
        assert!(icc == e, "[C17] expected_icc_len == sum over ICC chunks of (length - 17)");
    }
    let first_exif = if aty == 2 { Some(alen) } else if n_b && bty == 2 { Some(blen) } else { None };
    match first_exif {
        Some(l) if l >= 9 => assert!(exif == l - 9, "[C17] expected_exif_len == length - 9 of the first Exif marker"),
        None => assert!(exif == 0, "[C17] no Exif marker: 0"),
        _ => {}
    }
    let first_xmp = if aty == 3 { Some(alen) } else if n_b && bty == 3 { Some(blen) } else { None };
    match first_xmp {
        Some(l) if l >= 32 => assert!(xmp == l - 32, "[C17] expected_xmp_len == length - 32 of the first XMP marker"),
        None => assert!(xmp == 0, "[C17] no XMP marker: 0"),
        _ => {}
    }
    let e = if aty == 0 { alen } else { 0 } + if n_b && bty == 0 { blen } else { 0 } + tail as usize;
    assert!(dl == e, "[C17] expected_data_len == verbatim APPn bytes + COM + inter-marker + tail bytes");
    kani::cover!(two && aty == 1 && bty == 1 && icc_ok && icc > 0);
    kani::cover!(!two && aty == 2 && exif == 65527);
    kani::cover!(two && bty == 3 && xmp > 0);
}

// ------------------------------------------------------------------------------------------------
// expected_data_len with COM / inter-marker / tail lengths in the ranges the header parser produces
//   com_lengths[i] = u(16) + 1 (lib.rs:169), intermarker_lengths[i] = u(16) (lib.rs:212), tail (lib.rs:215)
// ------------------------------------------------------------------------------------------------
fn expected_data_len_n<const NA: usize, const NC: usize, const NM: usize>() {
    let c: [u32; NC] = kani::any();
    let m: [u32; NM] = kani::any();
    let a: [u32; NA] = kani::any();
    let aty: [u32; NA] = kani::any();
    let tail: u32 = kani::any();
    kani::assume(tail <= 65793 + (1 << 22) - 1);
    let mut e = tail as usize;
    let mut av = Vec::with_capacity(NA);
    let mut i = 0;
    while i < NA {
        kani::assume(a[i] >= 1 && a[i] <= 65536 && aty[i] <= 7);
        if aty[i] == 0 {
            e += a[i] as usize;
        }
        av.push(AppMarker { ty: aty[i], length: a[i] });
        i += 1;
    }
    let mut i = 0;
    while i < NC {
        kani::assume(c[i] >= 1 && c[i] <= 65536);
        e += c[i] as usize;
        i += 1;
    }
    let mut i = 0;
    while i < NM {
        kani::assume(m[i] <= 65535);
        e += m[i] as usize;
        i += 1;
    }
    let h = header_with(av, c.to_vec(), m.to_vec(), tail);
    assert!(h.expected_data_len() == e, "[C17,C01] expected_data_len == verbatim APPn + COM + inter-marker + tail bytes, no overflow");
    assert!(h.app_data_len() + h.com_data_len() + h.intermarker_data_len() + tail as usize == e, "[C17] the section offsets used by the reconstructor (reconstruct.rs:91-93) add up to it");
    kani::cover!(NA == 0 || aty[0] == 0);
    kani::cover!(NA < 2 || (aty[0] == 0 && aty[1] == 0 && e == 2 * 65536 + NC * 65536 + NM * 65535 + 65793 + (1 << 22) - 1));
}

#[kani::proof]
#[kani::unwind(4)]
fn expected_data_len_contract() {
    expected_data_len_n::<2, 2, 2>();
}

#[kani::proof]
#[kani::unwind(4)]
fn expected_data_len_empty() {
    expected_data_len_n::<0, 0, 0>();
}

// ------------------------------------------------------------------------------------------------
// consumer precondition: the APPn writer treats ty > 3 as unreachable!() (reconstruct.rs:699-757)
// ------------------------------------------------------------------------------------------------
#[kani::proof]
#[kani::unwind(9)]
fn app_marker_type_known() {
    let data: [u8; 3] = kani::any();
    let mut bs = Bitstream::new(&data);
    let Ok(am) = AppMarker::parse(&mut bs, ()) else { return };
    assert!(am.ty <= 3, "[C01,C17] APPn writer (reconstruct.rs:699-757) has `_ => unreachable!()` for ty > 3: the parser must not return it");
    kani::cover!(am.ty == 3);
}
