// Contracts for crates/jxl-coding/src/permutation.rs (child module).
//
// Under contract: get_context (the context used for `end` and for each Lehmer digit).
// NOT under contract: read_permutation's Lehmer decoding. A harness with a scripted symbol reader, size <= 4 and
// the Lehmer-code DEFINITION as postcondition (digit i == number of later, smaller elements; result is a
// permutation of 0..size) runs in ~4 min for size 3, but Kani 0.68 then reports failed `__rust_dealloc` model
// checks ("allocated size matches its layout", "free argument must be dynamic object") inside the safe std
// Vec code of read_permutation for end == 0 -- not reproducible on micro-harnesses of the same Vec operations
// and not a property of the code (safe Rust). Left out rather than registered with a spurious failure.
use super::*;

fn spec_context(x: u32) -> u32 {
    // min(7, ceil(log2(x + 1)))
    (32 - x.leading_zeros()).min(7)
}

#[kani::proof]
fn get_context_contract() {
    let x: u32 = kani::any();
    assert!(get_context(x) == spec_context(x), "[C04] permutation context = min(7, ceil(log2(x + 1)))");
    assert!(get_context(x) <= 7, "[C01] context index is within the 8 permutation contexts");
}
