// Contracts for crates/jxl-coding/src/prefix.rs (child module: sees Histogram's private constructors and fields).
//
// UNDER CONTRACT
//   * read_symbol against the table it is given (table_wf / slot_wf below): total, in-range indexing, returns the
//     selected entry's symbol, consumes its length, fails only with unexpected-eof when the stream is shorter
//     than the selected codeword -- for every well-formed table within the stated geometry bound.
//   * single-symbol code: with_single_symbol / single_symbol() / read_symbol consume 0 bits.
//
// (cd2.* below: parse_simple for every alphabet size with the code construction cut away, and CONCRETE simple-code
//  headers end to end through the real with_code_lengths with --max-field-sensitivity-array-size 1024.)
// NOT UNDER CONTRACT (measured, Kani 0.68 / CBMC 6.11): `with_code_lengths`, hence "decoding the bit-reversed
// canonical codeword of s (RFC 7932 3.2) returns s and consumes len[s] bits", the two-level table for lengths
// 11..15, parse_simple and parse_complex. Symbolic execution of with_code_lengths does not terminate within
// 20 min even for <= 4 symbols with lengths <= 3 or for ONE concrete length vector: its loop bounds live in
// heap-resident Vec<Vec<u16>> headers, so every loop (incl. the nested fill / chunk loops) is unrolled to the
// unwinding bound with fresh allocations per iteration. The specification (spec_canonical_prefix_code,
// spec_bit_reverse, kraft, check_decodes) and the harnesses `small_codes_contract` / `profile_*` are kept below,
// UNREGISTERED, for a back end that can run them.
//
// Precondition of with_code_lengths established by its callers: Kraft sum <= 1
//   parse_simple  (prefix.rs:168-193): fixed shapes {1,1} {1,2,2} {2,2,2,2} {1,2,3,3}; duplicates only lower the sum
//   parse_complex (prefix.rs:245-251): bitacc > 32 is rejected; (prefix.rs:318-321): bitacc > 2^15 is rejected
// With Kraft sum > 1 the function indexes out of range (e.g. lengths [1,1,1]); that is unreachable.
//
// Bit view: bit i of the stream is (data[i/8] >> (i%8)) & 1, position is num_read_bits().
use super::*;

#[derive(Clone, Copy)]
struct View {
    w: u128,
    total: usize,
}
impl View {
    fn of(data: &[u8; 16], len: usize) -> Self {
        View { w: u128::from_le_bytes(*data), total: len * 8 }
    }
    fn u(&self, at: usize, n: usize) -> u32 {
        let mask = if n == 0 { 0u128 } else { (1u128 << n) - 1 };
        let valid = if self.total >= 128 { u128::MAX } else { (1u128 << self.total) - 1 };
        (((self.w & valid) >> at) & mask) as u32
    }
}

/// RFC 7932 3.2 / RFC 1951 3.2.2, steps 1-3: returns the codeword of symbol `s` (len[s] > 0).
fn spec_canonical_prefix_code(lengths: &[u8], s: usize) -> u32 {
    spec_canonical_prefix_code_upto(lengths, s, 15)
}

/// the same for codes whose lengths are all <= maxbits (the next_code loop stops there; needs a smaller unwinding bound)
fn spec_canonical_prefix_code_upto(lengths: &[u8], s: usize, maxbits: usize) -> u32 {
    let mut bl_count = [0u32; 16];
    let mut i = 0;
    while i < lengths.len() {
        if lengths[i] != 0 { bl_count[lengths[i] as usize] += 1; }
        i += 1;
    }
    let mut next_code = [0u32; 16];
    let mut code = 0u32;
    let mut bits = 1;
    while bits <= maxbits {
        code = (code + bl_count[bits - 1]) << 1;
        next_code[bits] = code;
        bits += 1;
    }
    // codes are handed out to the symbols of one length in increasing symbol order
    let mut k = 0;
    let mut c = next_code[lengths[s] as usize];
    while k < s {
        if lengths[k] == lengths[s] { c += 1; }
        k += 1;
    }
    c
}

/// the `len` low bits of `code` in reverse order: what u(len) reads when the codeword is sent MSB first
fn spec_bit_reverse(code: u32, len: u32) -> u32 {
    if len == 0 { 0 } else { code.reverse_bits() >> (32 - len) }
}

/// Kraft sum in units of 2^-15
fn kraft(lengths: &[u8]) -> u32 {
    let mut sum = 0u32;
    let mut i = 0;
    while i < lengths.len() {
        if lengths[i] != 0 { sum += 1u32 << (15 - lengths[i] as u32); }
        i += 1;
    }
    sum
}

/// decode the codeword of a symbolic symbol through the real table, at a symbolic bit offset, followed by arbitrary bits
fn check_decodes(h: &Histogram, lengths: &[u8]) {
    let s: usize = kani::any();
    kani::assume(s < lengths.len() && lengths[s] != 0);
    let len = lengths[s] as usize;
    let word = spec_bit_reverse(spec_canonical_prefix_code(lengths, s), len as u32);
    let data: [u8; 16] = kani::any();
    let off: usize = kani::any();
    kani::assume(off <= 15);
    let view = View::of(&data, 16);
    kani::assume(view.u(off, len) == word);
    let mut bs = Bitstream::new(&data);
    if bs.skip_bits(off).is_err() { return; }
    let r = h.read_symbol(&mut bs);
    assert!(matches!(r, Ok(x) if x as usize == s), "[C04] decoding the bit-reversed canonical codeword of s returns s");
    assert!(bs.num_read_bits() == off + len, "[C04] exactly len[s] bits are consumed");
    let pos = bs.num_read_bits();
    let next = bs.read_bits(16);
    assert!(matches!(next, Ok(x) if x == view.u(pos, 16)), "[C04] unread bits preserved");
    assert!(h.single_symbol().is_none(), "[C04] a code with >= 2 symbols is not reported as single-symbol");
}

// ------------------------------------------------------------------------------------------------
// every length vector with <= 6 symbols and lengths <= 5            (UNREGISTERED: does not close, see header)
// ------------------------------------------------------------------------------------------------
#[kani::proof]
#[kani::unwind(34)]
fn small_codes_contract() {
    let lengths: [u8; 6] = kani::any();
    let mut i = 0;
    while i < 6 {
        kani::assume(lengths[i] <= 5);
        i += 1;
    }
    let k = kraft(&lengths);
    kani::assume(k <= 1 << 15); // call-site precondition, see file header
    let r = Histogram::with_code_lengths(lengths.to_vec());
    // [C01] reaching here: no index / shift / overflow panic for any length vector with Kraft sum <= 1
    match &r {
        Ok(h) => {
            assert!(k == 1 << 15, "[C04] only complete codes are accepted");
            check_decodes(h, &lengths);
        }
        Err(e) => {
            assert!(k != 1 << 15, "[C04,C01] every complete code is accepted");
            assert!(matches!(e, Error::InvalidPrefixHistogram), "[C04] incomplete code is InvalidPrefixHistogram");
        }
    }
    kani::cover!(r.is_ok() && lengths[0] == 5 && lengths[5] == 1);
    kani::cover!(r.is_ok() && lengths[2] == 0);
    kani::cover!(r.is_err());
}

// ------------------------------------------------------------------------------------------------
// fixed profiles that reach lengths 11..15 (second-level table, chunk carry-over, empty length classes)   (UNREGISTERED)
// ------------------------------------------------------------------------------------------------
fn check_profile(lengths: &[u8]) {
    assert!(kraft(lengths) == 1 << 15);
    let r = Histogram::with_code_lengths(lengths.to_vec());
    match &r {
        Ok(h) => {
            assert!(h.toplevel_bits == 10 && !h.second_level_entries.is_empty());
            check_decodes(h, lengths);
        }
        Err(_) => assert!(false, "[C04,C01] every complete code is accepted"),
    }
    kani::cover!(r.is_ok());
}

#[kani::proof]
#[kani::unwind(1026)]
fn profile_chain_15() {
    // 1, 2, ..., 14, 15, 15: one symbol per length, deepest possible code
    check_profile(&[1, 2, 3, 4, 5, 6, 7, 8, 9, 10, 11, 12, 13, 14, 15, 15]);
}

#[kani::proof]
#[kani::unwind(1026)]
fn profile_chain_15_reversed() {
    // same lengths, symbol order reversed and interleaved: canonical order is by (length, symbol)
    check_profile(&[15, 15, 14, 13, 12, 11, 10, 9, 8, 7, 6, 5, 4, 3, 2, 1]);
}

#[kani::proof]
#[kani::unwind(1026)]
fn profile_gap_and_carry() {
    // 1..10, then no symbol of length 11, two of length 12 (half a chunk, carried over) and four of length 13
    check_profile(&[12, 1, 2, 3, 13, 4, 5, 6, 13, 7, 8, 9, 10, 12, 13, 13]);
}

#[kani::proof]
#[kani::unwind(1026)]
fn profile_wide_11() {
    // 1..9, nothing at 10, four symbols of length 11 interleaved with unused symbols (length 0)
    check_profile(&[11, 0, 1, 2, 3, 11, 4, 5, 0, 6, 7, 8, 9, 11, 0, 11]);
}

// ------------------------------------------------------------------------------------------------
// single-symbol code: zero bits per symbol
// ------------------------------------------------------------------------------------------------
#[kani::proof]
#[kani::unwind(9)]
fn single_symbol_contract() {
    let sym: u16 = kani::any();
    let h = Histogram::with_single_symbol(sym);
    assert!(h.single_symbol() == Some(sym as u32), "[C04] single_symbol() reports the symbol");
    let data: [u8; 16] = kani::any();
    let len: usize = kani::any();
    let off: usize = kani::any();
    kani::assume(len <= 16 && off <= 15);
    let mut bs = Bitstream::new(&data[..len]);
    if bs.skip_bits(off).is_err() { return; }
    let r = h.read_symbol(&mut bs);
    assert!(matches!(r, Ok(x) if x == sym as u32), "[C04,C11] a single-symbol code decodes without reading, even at end of data");
    assert!(bs.num_read_bits() == off, "[C04] and consumes 0 bits");
    kani::cover!(len * 8 == off);
}

// ------------------------------------------------------------------------------------------------
// read_symbol against the table it is given: total, index-safe and exact for EVERY well-formed table
// ------------------------------------------------------------------------------------------------
// table_wf(h): toplevel_bits <= 10, toplevel_mask == 2^toplevel_bits - 1, toplevel_entries.len() == 2^toplevel_bits
// slot_wf(h, p) for the 15 peeked bits p: the entry selected by p is a leaf with bits <= 15, or a `nested` entry whose
//               chunk [offset, offset + mask] lies inside second_level_entries and whose selected leaf has bits <= 15.
// (Established by with_code_lengths / with_single_symbol; assumed here only at the one p that is looked up.)
impl kani::Arbitrary for Entry {
    fn any() -> Self {
        Entry { nested: kani::any(), bits_or_mask: kani::any(), symbol_or_offset: kani::any() }
    }
}

fn table_wf(h: &Histogram) -> bool {
    h.toplevel_bits <= MAX_TOPLEVEL_BITS
        && h.toplevel_mask == (1u32 << h.toplevel_bits) - 1
        && h.toplevel_entries.len() == 1usize << h.toplevel_bits
}

/// Two-level lookup of the standard decoder: Some((symbol, length)) or None if the table is malformed at p.
fn spec_table_lookup(h: &Histogram, p: u32) -> Option<(u32, usize)> {
    let e = h.toplevel_entries[(p & h.toplevel_mask) as usize];
    let leaf = if e.nested {
        let at = e.symbol_or_offset as usize + ((p >> h.toplevel_bits) & e.bits_or_mask as u32) as usize;
        if at >= h.second_level_entries.len() { return None; }
        h.second_level_entries[at]
    } else {
        e
    };
    if leaf.bits_or_mask as usize > MAX_PREFIX_BITS { return None; }
    Some((leaf.symbol_or_offset as u32, leaf.bits_or_mask as usize))
}

const SECOND_LEVEL_BOUND: usize = 40;

fn read_symbol_table<const TOP: usize>(cut_stream: bool) {
    let mut toplevel_entries = kani::vec::exact_vec::<Entry, TOP>();
    let toplevel_bits: usize = kani::any();
    kani::assume(toplevel_bits <= MAX_TOPLEVEL_BITS && (1usize << toplevel_bits) <= TOP);
    toplevel_entries.truncate(1usize << toplevel_bits);
    // BOUND: second-level table of <= SECOND_LEVEL_BOUND entries (real ones have up to 2^15; one entry is read per call)
    let mut second_level_entries = kani::vec::exact_vec::<Entry, SECOND_LEVEL_BOUND>();
    let n2: usize = kani::any();
    kani::assume(n2 <= SECOND_LEVEL_BOUND);
    second_level_entries.truncate(n2);
    let h = Histogram { toplevel_bits, toplevel_mask: kani::any(), toplevel_entries, second_level_entries };
    kani::assume(table_wf(&h));
    let data: [u8; 16] = kani::any();
    let len: usize = kani::any();
    let off: usize = kani::any();
    // full-stream variant: constant length and offset 0, so that the reader's byte-wise slow path is not even
    // explored under the large unwinding bound (position independence of the reader: bs.* obligations)
    kani::assume(if cut_stream { len <= 3 && off <= 7 } else { len == 16 && off == 0 });
    let view = View::of(&data, len);
    if off > view.total { return; }
    let avail = view.total - off;
    // the 15 peeked bits: the stream bits, zero-extended past the end of the data
    let p = view.u(off, 15);
    let Some((symbol, bits)) = spec_table_lookup(&h, p) else { return; }; // slot_wf(h, p)
    let mut bs = if cut_stream { Bitstream::new(&data[..len]) } else { Bitstream::new(&data) };
    if cut_stream && bs.skip_bits(off).is_err() { return; }
    let r = h.read_symbol(&mut bs);
    // [C01] reaching here: both table indexings were in range
    match &r {
        Ok(s) => {
            assert!(*s == symbol, "[C04] read_symbol returns the symbol of the entry selected by the next 15 bits");
            assert!(bits <= avail && bs.num_read_bits() == off + bits, "[C04,C11] and consumes that entry's length, which the stream holds");
        }
        Err(e) => {
            assert!(bits > avail, "[C11] read_symbol fails only if the selected codeword is longer than the remaining data");
            assert!(e.unexpected_eof() && bs.num_read_bits() == off, "[C11] as unexpected-eof, consuming nothing");
        }
    }
    kani::cover!(r.is_ok() && h.toplevel_entries[(p & h.toplevel_mask) as usize].nested && (1usize << toplevel_bits) == TOP);
    kani::cover!(r.is_ok() && toplevel_bits == 0);
    kani::cover!(r.is_err() == cut_stream);
}

/// BOUND: toplevel_bits <= 6 (a fully symbolic 1024-entry first level, toplevel_bits = 10, does not close in 5 min;
/// the lookup code depends on the geometry only through `peeked & toplevel_mask` and `peeked >> toplevel_bits`).
/// Full stream, offset 0: the reader's byte-wise slow path is then not explored under the unwinding bound
/// that building the symbolic table needs.
#[kani::proof]
#[kani::unwind(66)]
fn read_symbol_table_contract() { read_symbol_table::<64>(false); }

/// [C11] cut streams (<= 3 bytes), tables with toplevel_bits <= 3 (the lookup code does not depend on the geometry)
#[kani::proof]
#[kani::unwind(42)]
fn read_symbol_table_cut_stream() { read_symbol_table::<8>(true); }

// ================================================================================================
// cd2.*  parse_simple (RFC 7932 section 3.4 "simple prefix codes", 18181-1 C.2.? prefix code histograms)
// ================================================================================================
// Header after HSKIP == 1:   NSYM - 1 = u(2);  NSYM symbols of ALPHABET_BITS bits each, ALPHABET_BITS = the smallest
// width that can represent every symbol 0 .. alphabet_size - 1 (= ceil(log2(alphabet_size)); 2^k + 1 symbols need
// k + 1 bits, 2^k symbols need k);  for NSYM == 4 one more bit tree_select.
// Code lengths "in the order of the symbols decoded":  NSYM 1: 0 bits;  2: 1,1;  3: 1,2,2;  4: 2,2,2,2 (tree_select 0)
// or 1,2,3,3 (tree_select 1).  A symbol >= alphabet_size or two identical symbols: the stream is rejected.
// Within equal lengths the canonical code (RFC 7932 3.2) orders by symbol value -- that is a property of the
// length VECTOR indexed by symbol, which is what parse_simple hands to with_code_lengths.
//
// CUT: `with_code_lengths` does not finish under CBMC (file header), so it is replaced by a stub with its ASSUMED
// contract "Ok exactly when the Kraft sum of the vector is 1" (decided on the ACTUAL vector: the stub first checks
// that only the transmitted symbols carry a length, then sums over those <= 4 positions). The stub is the
// observation point for the code-length vector: len == alphabet_size, every entry (symbolic index) as RFC 7932 says.
// Precondition (call sites): 2 <= alphabet_size <= 2^15 (Histogram::parse prefix.rs:133-139; lib.rs:442).
const PS_BASE: u64 = 0x5053_494d_504c_0000;
// [0] alphabet_size, [1..=4] symbols as the standard reads them, [5] NSYM, [6] tree_select, [7] number of calls
static mut PS: [u64; 8] = [PS_BASE + 1, PS_BASE + 2, PS_BASE + 3, PS_BASE + 4, PS_BASE + 5, PS_BASE + 6, PS_BASE + 7, PS_BASE + 8];

/// RFC 7932 3.4: code length of the i-th transmitted symbol
fn spec_simple_len(nsym: u64, tree_select: bool, i: usize) -> u8 {
    match (nsym, tree_select) {
        (2, _) => [1, 1, 0, 0][i],
        (3, _) => [1, 2, 2, 0][i],
        (4, false) => [2, 2, 2, 2][i],
        (4, true) => [1, 2, 3, 3][i],
        _ => 0,
    }
}

/// ALPHABET_BITS: bit length of alphabet_size - 1
fn spec_alphabet_bits(alphabet_size: u32) -> usize {
    (32 - (alphabet_size - 1).leading_zeros()) as usize
}

fn rec_with_code_lengths(code_lengths: Vec<u8>) -> CodingResult<Histogram> {
    unsafe {
        PS[7] += 1;
        let asz = PS[0] as usize;
        let nsym = PS[5];
        let tree = PS[6] != 0;
        let syms = [PS[1] as usize, PS[2] as usize, PS[3] as usize, PS[4] as usize];
        assert!(code_lengths.len() == asz, "[C04] the code-length vector has one entry per symbol of the alphabet");
        // parse_simple only gets here when every transmitted symbol is inside the alphabet (checked by the harness too)
        let n = nsym as usize;
        let mut distinct = true;
        let mut kraft = 0u32;
        let mut i = 0;
        while i < 4 {
            if i < n {
                assert!(syms[i] < asz, "[C04] a symbol outside the alphabet never reaches the code construction");
                let mut first = true;
                let mut j = 0;
                while j < i {
                    if syms[j] == syms[i] { first = false; }
                    j += 1;
                }
                if first {
                    let l = code_lengths[syms[i]];
                    assert!(l <= 15, "[C04] code lengths are at most 15");
                    if l != 0 { kraft += 1u32 << (15 - l as u32); }
                } else {
                    distinct = false;
                }
            }
            i += 1;
        }
        // for all k (symbolic index): the entry is what RFC 7932 3.4 says
        let k: usize = kani::any();
        kani::assume(k < asz);
        let mut want = 0u8;
        let mut mine = false;
        let mut i = 0;
        while i < 4 {
            if i < n && syms[i] == k { want = spec_simple_len(nsym, tree, i); mine = true; }
            i += 1;
        }
        if !mine {
            assert!(code_lengths[k] == 0, "[C04] only the transmitted symbols get a code");
        } else if distinct {
            assert!(code_lengths[k] == want, "[C04] simple prefix code lengths 1,1 / 1,2,2 / 2,2,2,2 / 1,2,3,3 in the order of the symbols decoded");
        }
        if distinct {
            assert!(kraft == 1 << 15, "[C04] the simple code shapes are complete codes");
        }
        kani::cover!(distinct && nsym == 4 && tree);
        kani::cover!(!distinct);
        // assumed contract of with_code_lengths: accepts exactly the complete codes
        if kraft == 1 << 15 {
            Ok(Histogram::with_single_symbol(0x5a5a)) // placeholder table: the table itself is behind the cut
        } else {
            Err(Error::InvalidPrefixHistogram)
        }
    }
}

fn parse_simple_check(alphabet_size: u32) {
    let data: [u8; 16] = kani::any();
    let off: usize = kani::any();
    kani::assume(off <= 7);
    let view = View::of(&data, 16);
    let w = spec_alphabet_bits(alphabet_size);
    // the header as the standard reads it
    let nsym = view.u(off, 2) as u64 + 1;
    let s = [view.u(off + 2, w), view.u(off + 2 + w, w), view.u(off + 2 + 2 * w, w), view.u(off + 2 + 3 * w, w)];
    let tree = nsym == 4 && view.u(off + 2 + 4 * w, 1) == 1;
    let used = 2 + nsym as usize * w + if nsym == 4 { 1 } else { 0 };
    let n = nsym as usize;
    let in_range = (0..4).all(|i| i >= n || s[i] < alphabet_size);
    let distinct = (0..4).all(|i| (0..i).all(|j| i >= n || s[i] != s[j]));
    unsafe {
        PS = [alphabet_size as u64, s[0] as u64, s[1] as u64, s[2] as u64, s[3] as u64, nsym, tree as u64, 0];
    }
    let mut bs = Bitstream::new(&data);
    if bs.skip_bits(off).is_err() { return; }
    let r = Histogram::parse_simple(&mut bs, alphabet_size);
    let calls = unsafe { PS[7] };
    if !in_range {
        assert!(matches!(&r, Err(Error::InvalidPrefixHistogram)), "[C04] a simple code naming a symbol >= alphabet_size is rejected");
        assert!(calls == 0, "[C04] and no code is built for it");
    } else if nsym == 1 {
        assert!(matches!(&r, Ok(h) if h.single_symbol() == Some(s[0])), "[C04] NSYM 1: the one symbol, coded with zero bits");
        assert!(calls == 0);
        assert!(bs.num_read_bits() == off + used, "[C04] parse_simple consumes 2 + NSYM * ALPHABET_BITS (+1) bits");
    } else if !distinct {
        assert!(matches!(&r, Err(Error::InvalidPrefixHistogram)), "[C04] a simple code naming a symbol twice is rejected");
    } else {
        assert!(r.is_ok(), "[C04] a simple code over distinct symbols of the alphabet is accepted");
        assert!(calls == 1, "[C04] exactly one code is built");
        assert!(bs.num_read_bits() == off + used, "[C04] parse_simple consumes 2 + NSYM * ALPHABET_BITS (+1) bits");
    }
    kani::cover!(r.is_ok() && nsym == 1);
    kani::cover!(r.is_ok() && nsym == 2);
    kani::cover!(r.is_ok() && nsym == 3);
    kani::cover!(r.is_ok() && nsym == 4 && tree);
    kani::cover!(r.is_ok() && nsym == 4 && !tree);
    kani::cover!(r.is_err() && in_range && nsym == 3);
    kani::cover!(r.is_err() && !in_range && nsym == 4);
}

/// every alphabet size the format allows, every header content
#[kani::proof]
#[kani::stub(Histogram::with_code_lengths, rec_with_code_lengths)]
#[kani::unwind(10)]
fn parse_simple_lengths_contract() {
    let alphabet_size: u32 = kani::any();
    kani::assume(alphabet_size >= 2 && alphabet_size <= 1 << 15);
    parse_simple_check(alphabet_size);
    kani::cover!(alphabet_size == (1 << 15));
    kani::cover!(alphabet_size == 257);
    kani::cover!(alphabet_size == 2);
}

// ------------------------------------------------------------------------------------------------
// cd2.*  simple codes END TO END: real parse_simple -> real with_code_lengths -> real read_symbol
// ------------------------------------------------------------------------------------------------
// Postcondition: the table decodes the bit-reversed canonical codeword (RFC 7932 3.2: shorter codes first, equal
// lengths in increasing SYMBOL order -- not transmission order) of every coded symbol to that symbol, consuming its
// length. Bounds, measured: with the default CBMC field sensitivity (arrays <= 64 bytes) with_code_lengths runs out of
// memory even on one concrete 4-symbol vector (the 15 x 24-byte Vec<Vec<u16>> spine is a 360-byte heap array; pointers
// read back from it are not resolved). With --max-field-sensitivity-array-size 1024 (registry cbmc_args) a CONCRETE
// header closes in ~8 s; SYMBOLIC symbol values still do not (15 min, even NSYM 2 over 5 symbols), nor do the
// 1024-entry tables of 11..15-bit codes. So: concrete headers only, header fields through a scripted reader
// (assumed contract of read_bits / read_bool: the next field masked to the requested width; widths recorded and
// checked). The symbolic part (every alphabet size, every symbol choice) is parse_simple_lengths_contract above.
const PSCRIPT_POS_BASE: usize = 0x5052_4546_5343_0000;
static mut PSCRIPT: [u32; 6] = [0x7052_0001, 0x7052_0002, 0x7052_0003, 0x7052_0004, 0x7052_0005, 0x7052_0006];
static mut PSCRIPT_W: [u32; 6] = [0x7053_0001, 0x7053_0002, 0x7053_0003, 0x7053_0004, 0x7053_0005, 0x7053_0006];
static mut PSCRIPT_POS: usize = PSCRIPT_POS_BASE;
fn pscript_read_bool<'a>(_bs: &mut Bitstream<'a>) -> jxl_bitstream::BitstreamResult<bool> where 'a: 'a {
    unsafe {
        let k = PSCRIPT_POS - PSCRIPT_POS_BASE;
        let v = PSCRIPT[k];
        PSCRIPT_W[k] = 1;
        PSCRIPT_POS += 1;
        Ok(v & 1 != 0)
    }
}
fn pscript_read_bits<'a>(_bs: &mut Bitstream<'a>, n: usize) -> jxl_bitstream::BitstreamResult<u32> where 'a: 'a {
    unsafe {
        let k = PSCRIPT_POS - PSCRIPT_POS_BASE;
        let v = PSCRIPT[k];
        PSCRIPT_W[k] = n as u32;
        PSCRIPT_POS += 1;
        Ok(if n >= 32 { v } else { v & ((1u32 << n) - 1) })
    }
}

fn run_simple_script(alphabet_size: u32, nsym: usize, syms: [u32; 4], tree: bool) -> CodingResult<Histogram> {
    unsafe {
        PSCRIPT = [nsym as u32 - 1, syms[0], syms[1], syms[2], syms[3], tree as u32];
        PSCRIPT_W = [99; 6];
        PSCRIPT_POS = PSCRIPT_POS_BASE;
    }
    let data = [0u8; 1];
    let mut bs = Bitstream::new(&data);
    Histogram::parse_simple(&mut bs, alphabet_size)
}

/// `syms[nsym..]` are never read (the harnesses put 0 there)
fn simple_code_e2e<const A: usize>(nsym: usize, syms: [u32; 4], tree: bool) {
    let alphabet_size = A as u32;
    let w = spec_alphabet_bits(alphabet_size) as u32;
    let mut lengths = [0u8; A];
    let mut i = 0;
    while i < nsym {
        lengths[syms[i] as usize] = spec_simple_len(nsym as u64, tree, i);
        i += 1;
    }
    let r = run_simple_script(alphabet_size, nsym, syms, tree);
    match &r {
        Ok(h) => {
            let fields = unsafe { PSCRIPT_POS - PSCRIPT_POS_BASE };
            assert!(fields == 1 + nsym + (nsym == 4) as usize, "[C04] parse_simple reads NSYM - 1, NSYM symbols and, for NSYM 4, tree_select");
            let wd = unsafe { PSCRIPT_W };
            assert!(wd[0] == 2 && wd[1] == w && wd[2] == w && (nsym < 3 || wd[3] == w) && (nsym < 4 || (wd[4] == w && wd[5] == 1)),
                "[C04] field widths: 2, ALPHABET_BITS per symbol, 1");
            // every coded symbol: its codeword, followed by arbitrary bits, decodes to it
            let sy: usize = kani::any();
            kani::assume(sy < A && lengths[sy] != 0);
            let len = lengths[sy] as usize;
            let word = spec_bit_reverse(spec_canonical_prefix_code_upto(&lengths, sy, 3), len as u32);
            let d2: [u8; 16] = kani::any();
            let v2 = View::of(&d2, 16);
            kani::assume(v2.u(0, len) == word);
            let mut b2 = Bitstream::new(&d2);
            let q = h.read_symbol(&mut b2);
            assert!(matches!(q, Ok(x) if x as usize == sy), "[C04] decoding the bit-reversed canonical codeword of s returns s");
            assert!(b2.num_read_bits() == len, "[C04] exactly len[s] bits are consumed");
            assert!(h.single_symbol().is_none(), "[C04] a code with >= 2 symbols is not reported as single-symbol");
        }
        Err(_) => assert!(false, "[C04] a simple code over distinct symbols of the alphabet is accepted"),
    }
    kani::cover!(r.is_ok());
}

/// exactly one thing wrong (a duplicate, or one symbol == alphabet_size); the accepted siblings are in the same harness
fn simple_code_rejected<const A: usize>(nsym: usize, syms: [u32; 4], tree: bool) {
    let r = run_simple_script(A as u32, nsym, syms, tree);
    assert!(matches!(&r, Err(Error::InvalidPrefixHistogram)), "[C04] a simple code with a repeated symbol or a symbol >= alphabet_size is rejected");
    kani::cover!(r.is_err());
}

macro_rules! simple_code_harness {
    ($name:ident, $body:block) => {
        #[kani::proof]
        #[kani::stub(jxl_bitstream::Bitstream::read_bool, pscript_read_bool)]
        #[kani::stub(jxl_bitstream::Bitstream::read_bits, pscript_read_bits)]
        #[kani::unwind(10)]
        fn $name() $body
    };
}

// alphabet_size 5 = 2^2 + 1: ALPHABET_BITS 3. All five shapes; symbols in non-monotone transmission order so that
// "equal lengths in symbol order" differs from "transmission order".
simple_code_harness!(simple_code_e2e_a5, {
    simple_code_e2e::<5>(2, [4, 1, 0, 0], false);      // 1,1
    simple_code_e2e::<5>(3, [2, 3, 0, 0], false);      // 1,2,2: symbol 2 gets the 1-bit code, then 0 before 3
    simple_code_e2e::<5>(4, [3, 0, 4, 2], false);      // 2,2,2,2
    simple_code_e2e::<5>(4, [4, 1, 3, 0], true);       // 1,2,3,3
});
// alphabet_size 2 (ALPHABET_BITS 1), 4 = 2^2 (ALPHABET_BITS 2), 8 (3) and the rejections next to their accepted siblings
simple_code_harness!(simple_code_e2e_pow2_and_rejections, {
    simple_code_e2e::<2>(2, [1, 0, 0, 0], false);
    simple_code_e2e::<4>(4, [3, 2, 1, 0], true);
    simple_code_e2e::<8>(3, [7, 0, 5, 0], false);
    simple_code_rejected::<5>(2, [4, 4, 0, 0], false);      // duplicate
    simple_code_rejected::<5>(3, [2, 3, 2, 0], false);      // duplicate: first and third
    simple_code_rejected::<5>(4, [4, 1, 3, 1], true);       // duplicate: second and fourth
    simple_code_rejected::<5>(4, [3, 0, 3, 2], false);
    simple_code_rejected::<5>(2, [5, 1, 0, 0], false);      // 5 == alphabet_size fits in ALPHABET_BITS = 3
    simple_code_rejected::<5>(4, [4, 1, 3, 7], true);
});
