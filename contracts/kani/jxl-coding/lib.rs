// Contracts for crates/jxl-coding/src/lib.rs (child module of the crate root: sees every private item
// of the crate root, i.e. IntegerConfig, DecoderInner, Coder, Lz77State, add_log2_ceil).
//
// Bit view. `Bitstream` lives in another crate, so its fields are not visible here. Every harness
// builds the reader with `Bitstream::new(&data[..len])` and moves it with public calls only; the
// abstract bit sequence of 18181-1 section 9 is then "bit i = (data[i / 8] >> (i % 8)) & 1" and the
// reader position is `num_read_bits()`. `View` below is that sequence for a 16-byte buffer.
//
// Call-site state of `read_uint_prefilled` ("prefilled"): it is only ever called directly after
// `Coder::read_symbol` (lib.rs:222,226,484,528,536,558), which refills the bit buffer to >= 56 bits
// unless the input is exhausted (contract bs.refill) and then consumes <= 16 bits (ANS: 0 or 16,
// prefix code: <= 15). `after_symbol()` reproduces exactly that: refill through the public
// `peek_bits_const::<15>()`, then consume a symbolic t <= 16.
use super::*;

// ------------------------------------------------------------------------------------------------
// abstract bit view of a 16-byte buffer
// ------------------------------------------------------------------------------------------------
#[derive(Clone, Copy)]
struct View {
    w: u128,
    total: usize,
}

impl View {
    fn of(data: &[u8; 16], len: usize) -> Self {
        View { w: u128::from_le_bytes(*data), total: len * 8 }
    }
    /// u(n) at bit position `at`, n <= 32; bits past the end of the data read as absent (caller checks `has`)
    fn u(&self, at: usize, n: usize) -> u32 {
        let mask = if n == 0 { 0u128 } else { (1u128 << n) - 1 };
        // bits at or above `total` are not part of the view: mask them off so that a spec can never depend on them
        let valid = if self.total >= 128 { u128::MAX } else { (1u128 << self.total) - 1 };
        (((self.w & valid) >> at) & mask) as u32
    }
    fn has(&self, at: usize, n: usize) -> bool {
        at + n <= self.total
    }
}

/// The least k with 2^k >= x + 1, i.e. ceil(log2(x + 1)) -- the field width the standard uses for
/// split_exponent / msb_in_token / lsb_in_token (18181-1 C.2.3) and for the permutation context.
fn spec_ceil_log2_plus1(x: u32) -> u32 {
    let mut k = 0u32;
    while k < 32 {
        if (1u64 << k) >= x as u64 + 1 {
            return k;
        }
        k += 1;
    }
    32
}

/// Closed form of the same number (the bit length of x); used by the other harnesses so that they need no
/// loop unwinding. `add_log2_ceil_matches_spec` proves it equal to the defining loop for every u32.
fn spec_width(x: u32) -> u32 {
    32 - x.leading_zeros()
}

#[kani::proof_for_contract(add_log2_ceil)]
fn add_log2_ceil_contract() {
    let x: u32 = kani::any();
    let r = add_log2_ceil(x);
    // restated for native replay
    assert!(r <= 32 && (1u64 << r) >= x as u64 + 1 && (r == 0 || (1u64 << (r - 1)) < x as u64 + 1),
        "[C04,C01] add_log2_ceil(x) == ceil(log2(x + 1)) for every u32");
    kani::cover!(r == 32);
    kani::cover!(r == 0);
}

#[kani::proof]
#[kani::unwind(34)]
fn add_log2_ceil_matches_spec() {
    let x: u32 = kani::any();
    assert!(add_log2_ceil(x) == spec_ceil_log2_plus1(x), "[C04] add_log2_ceil == least k with 2^k >= x + 1");
    assert!(spec_width(x) == spec_ceil_log2_plus1(x), "[C04] closed form of the spec used by the other harnesses");
    // the call sites: widths of the three IntegerConfig fields and the permutation context
    assert!(add_log2_ceil(5) == 3 && add_log2_ceil(6) == 3 && add_log2_ceil(7) == 3 && add_log2_ceil(8) == 4 && add_log2_ceil(15) == 4,
        "[C04] width of split_exponent for log_alphabet_size 5..8 and 15");
}

// ------------------------------------------------------------------------------------------------
// IntegerConfig (18181-1 C.2.3 "hybrid integer configuration")
// ------------------------------------------------------------------------------------------------
/// Invariant of every IntegerConfig that `IntegerConfig::parse` returns (proved by
/// `integer_config_parse_contract`), and the precondition of the hybrid-integer obligations.
fn cfg_wf(c: &IntegerConfig) -> bool {
    c.split_exponent <= 15 && c.msb_in_token + c.lsb_in_token <= c.split_exponent && c.split == 1u32 << c.split_exponent
}

fn any_cfg() -> IntegerConfig {
    let split_exponent: u32 = kani::any();
    let msb_in_token: u32 = kani::any();
    let lsb_in_token: u32 = kani::any();
    kani::assume(split_exponent <= 15 && msb_in_token <= 15 && lsb_in_token <= 15);
    let c = IntegerConfig { split_exponent, split: 1u32 << split_exponent, msb_in_token, lsb_in_token };
    kani::assume(cfg_wf(&c));
    c
}

/// log_alphabet_size values of the three call sites: 8 (Lz77::parse, lib.rs:326), 15 (prefix codes) and
/// 5 + u(2) (ANS), DecoderInner::parse lib.rs:425-431.
fn any_log_alphabet_size() -> u32 {
    let las: u32 = kani::any();
    kani::assume(las == 5 || las == 6 || las == 7 || las == 8 || las == 15);
    las
}

enum CfgSpec {
    Eof,
    Invalid,
    Ok { se: u32, msb: u32, lsb: u32, used: usize },
}

/// The standard's parsing procedure evaluated on the abstract view starting at bit `p`.
fn spec_integer_config(v: &View, p: usize, las: u32) -> CfgSpec {
    let sb = spec_width(las) as usize;
    if !v.has(p, sb) { return CfgSpec::Eof; }
    let se = v.u(p, sb);
    let mut used = sb;
    let (msb, lsb) = if se != las {
        let mb = spec_width(se) as usize;
        if !v.has(p + used, mb) { return CfgSpec::Eof; }
        let msb = v.u(p + used, mb);
        used += mb;
        if msb > se { return CfgSpec::Invalid; }
        let lb = spec_width(se - msb) as usize;
        if !v.has(p + used, lb) { return CfgSpec::Eof; }
        let lsb = v.u(p + used, lb);
        used += lb;
        (msb, lsb)
    } else {
        (0, 0)
    };
    if msb + lsb > se { return CfgSpec::Invalid; }
    CfgSpec::Ok { se, msb, lsb, used }
}

#[kani::proof]
#[kani::unwind(9)]
fn integer_config_parse_contract() {
    let data: [u8; 16] = kani::any();
    let len: usize = kani::any();
    kani::assume(len <= 4);
    let off: usize = kani::any();
    kani::assume(off <= 7);
    let las = any_log_alphabet_size();
    let view = View::of(&data, len);
    let mut bs = Bitstream::new(&data[..len]);
    if bs.skip_bits(off).is_err() { return; }
    let r = IntegerConfig::parse(&mut bs, las);
    if let Ok(c) = &r {
        // the invariant every later use relies on (read_uint_prefilled computes split_exponent - (msb + lsb) and 1 << msb)
        assert!(cfg_wf(c), "[C01,C04] whatever parse returns satisfies msb_in_token + lsb_in_token <= split_exponent <= 15 and split == 1 << split_exponent");
    }
    match (spec_integer_config(&view, off, las), &r) {
        (CfgSpec::Ok { se, msb, lsb, used }, Ok(c)) => {
            assert!(c.split_exponent == se && c.msb_in_token == msb && c.lsb_in_token == lsb,
                "[C04] IntegerConfig fields are u(ceil(log2(las+1))), u(ceil(log2(se+1))), u(ceil(log2(se-msb+1)))");
            assert!(bs.num_read_bits() == off + used, "[C04] IntegerConfig::parse consumes exactly its fields");
            assert!(c.msb_in_token + c.lsb_in_token <= c.split_exponent, "[C04,C01] msb_in_token + lsb_in_token <= split_exponent");
            assert!(c.split == 1u32 << c.split_exponent, "[C04,C01] split == 1 << split_exponent");
            // NOTE: split_exponent <= log_alphabet_size does NOT hold (las = 5: u(3) can be 6 or 7; las = 8:
            // u(4) can be 9..15; same in libjxl). What holds, and what the decoding kernels need, is:
            assert!(c.split_exponent < (1u32 << spec_width(las)) && c.split_exponent <= 15,
                "[C04,C01] split_exponent < 2^ceil(log2(las+1)) <= 16");
            assert!(cfg_wf(c), "[C04,C01] parse establishes the IntegerConfig invariant used by read_uint_prefilled");
        }
        (CfgSpec::Invalid, Err(Error::InvalidIntegerConfig { .. })) => {}
        (CfgSpec::Eof, Err(e)) => assert!(e.unexpected_eof(), "[C11] a cut IntegerConfig is unexpected-eof"),
        _ => assert!(false, "[C04,C11] IntegerConfig::parse outcome differs from the standard's procedure"),
    }
    kani::cover!(matches!(&r, Ok(c) if c.split_exponent == 15 && c.msb_in_token == 7 && c.lsb_in_token == 8));
    kani::cover!(matches!(&r, Ok(c) if c.split_exponent == las));
    kani::cover!(matches!(&r, Err(Error::InvalidIntegerConfig { lsb_in_token: None, .. })));
    kani::cover!(matches!(&r, Err(Error::InvalidIntegerConfig { lsb_in_token: Some(_), .. })));
    kani::cover!(matches!(&r, Err(e) if e.unexpected_eof()));
}

// ------------------------------------------------------------------------------------------------
// Hybrid unsigned integers (18181-1 C.3.3)
// ------------------------------------------------------------------------------------------------
/// ENCODER side. The standard specifies the decoder (ReadHybridUint, transcribed as `spec_hybrid_uint_decode`);
/// this is its inverse as written in the reference encoder (libjxl HybridUintConfig::Encode): values below
/// `split` are their own token with no extra bits; otherwise with n = floor(log2 v) the token carries
/// n - split_exponent, the msb_in_token bits below the leading one and the lsb_in_token lowest bits, and the
/// n - msb - lsb bits in between are sent raw.
fn spec_hybrid_uint_encode(c: &IntegerConfig, v: u32) -> (u32, u32, u32) {
    let split = 1u32 << c.split_exponent;
    if v < split {
        return (v, 0, 0);
    }
    let n = 31 - v.leading_zeros();
    let m = v - (1u32 << n);
    let token = split
        + ((n - c.split_exponent) << (c.msb_in_token + c.lsb_in_token))
        + ((m >> (n - c.msb_in_token)) << c.lsb_in_token)
        + (m & ((1u32 << c.lsb_in_token) - 1));
    let nbits = n - c.msb_in_token - c.lsb_in_token;
    let bits = (((v >> c.lsb_in_token) as u64) & ((1u64 << nbits) - 1)) as u32;
    (token, nbits, bits)
}

/// DECODER side of C.3.3: the number n of raw bits a token announces, and (in u128, so nothing is silently
/// truncated) the value as a function of the token and those n bits.
fn spec_hybrid_uint_nbits(c: &IntegerConfig, token: u32) -> u32 {
    if token < c.split { 0 } else {
        c.split_exponent - (c.msb_in_token + c.lsb_in_token) + ((token - c.split) >> (c.msb_in_token + c.lsb_in_token))
    }
}
fn spec_hybrid_uint_decode(c: &IntegerConfig, token: u32, n: u32, raw: u32) -> u128 {
    if token < c.split { return token as u128; }
    let low = (token & ((1u32 << c.lsb_in_token) - 1)) as u128;
    let hi = (((token >> c.lsb_in_token) & ((1u32 << c.msb_in_token) - 1)) | (1u32 << c.msb_in_token)) as u128;
    (((hi << n) | raw as u128) << c.lsb_in_token) | low
}

fn dummy_inner() -> DecoderInner {
    // read_uint_prefilled takes &self but does not use it
    DecoderInner { clusters: Vec::new(), configs: Vec::new(), code: Coder::PrefixCode(Arc::new(Vec::new())) }
}

/// Reader in the state every call site of read_uint_prefilled establishes (see file header).
/// Returns the reader; its position is `off + t`.
fn after_symbol<'a>(data: &'a [u8], off: usize, t: usize) -> Option<Bitstream<'a>> {
    let mut bs = Bitstream::new(data);
    if bs.skip_bits(off).is_err() { return None; }
    let _ = bs.peek_bits_const::<15>(); // the refill done by prefix/ANS read_symbol
    if bs.consume_bits(t).is_err() { return None; }
    Some(bs)
}

#[kani::proof]
#[kani::unwind(10)]
fn hybrid_uint_roundtrip() {
    let c = any_cfg();
    let v: u32 = kani::any();
    let (token, nbits, bits) = spec_hybrid_uint_encode(&c, v);
    assert!(nbits <= 31, "[C04] every u32 needs at most 31 raw bits");
    // a stream whose bits at the reader position are the raw bits, surrounded by arbitrary bits
    let data: [u8; 16] = kani::any();
    let off: usize = kani::any();
    let t: usize = kani::any();
    kani::assume(off <= 7 && t <= 16);
    let view = View::of(&data, 16);
    kani::assume(view.u(off + t, nbits as usize) == bits);
    let Some(mut bs) = after_symbol(&data, off, t) else { return; };
    let inner = dummy_inner();
    let r = inner.read_uint_prefilled(&mut bs, &c, token);
    assert!(r == v, "[C04] ReadHybridUint(token, raw bits) of the encoded value returns the value, for every u32 and every config");
    assert!(bs.num_read_bits() == off + t + nbits as usize, "[C04] exactly the nbits raw bits are consumed");
    // the reader is still in sync: the next 16 bits are the bits that follow in the view
    let next = bs.read_bits(16);
    assert!(matches!(next, Ok(x) if x == view.u(off + t + nbits as usize, 16)), "[C04] unread bits preserved");
    kani::cover!(v == u32::MAX && nbits == 31);
    kani::cover!(v >= c.split && c.msb_in_token == 3 && c.lsb_in_token == 2 && nbits == 7);
    kani::cover!(v < c.split && c.split_exponent == 15);
    kani::cover!(c.split_exponent == 0 && v == 1);
}

/// Totality + exact consumption for EVERY token the symbol readers can return (prefix: u16 field
/// `symbol_or_offset`, prefix.rs:352,355; ANS: u8 alias symbol or bucket index < 256, ans.rs:317,329),
/// not only the tokens an encoder produces, on full and on cut streams.
#[kani::proof]
#[kani::unwind(10)]
fn read_uint_prefilled_contract() {
    let c = any_cfg();
    let token: u32 = kani::any();
    kani::assume(token <= u16::MAX as u32);
    let data: [u8; 16] = kani::any();
    let len: usize = kani::any();
    kani::assume(len <= 16);
    let off: usize = kani::any();
    let t: usize = kani::any();
    kani::assume(off <= 7 && t <= 16);
    let view = View::of(&data, len);
    let Some(mut bs) = after_symbol(&data[..len], off, t) else { return; };
    let p = off + t;
    assert!(bs.num_read_bits() == p);
    let inner = dummy_inner();
    let r = inner.read_uint_prefilled(&mut bs, &c, token);
    // [C01] reaching this point at all: no overflow / shift / debug_assert panic for any token <= 65535
    let n_spec = spec_hybrid_uint_nbits(&c, token);
    if n_spec <= 31 {
        if view.has(p, n_spec as usize) {
            let want = spec_hybrid_uint_decode(&c, token, n_spec, view.u(p, n_spec as usize));
            assert!(r as u128 == want & 0xffff_ffff, "[C04] value = C.3.3 formula (low 32 bits)");
            assert!(bs.num_read_bits() == p + n_spec as usize, "[C04] consumes n = split_exponent - msb - lsb + ((token - split) >> (msb + lsb)) bits");
        } else {
            // [C11] What actually holds on a cut stream (consume_bits' Err is discarded, lib.rs:594):
            // no error is reported, NO bit is consumed and the missing bits read as zero.
            let avail = view.total - p;
            let want = spec_hybrid_uint_decode(&c, token, n_spec, view.u(p, avail));
            assert!(r as u128 == want & 0xffff_ffff, "[C11] cut stream: value is the formula with the missing raw bits = 0");
            assert!(bs.num_read_bits() == p, "[C11] cut stream: position does not advance");
        }
    } else {
        // tokens no encoder emits (n >= 32): the code masks n with 31; still total, consumption is n & 31 or nothing
        assert!(bs.num_read_bits() == p || bs.num_read_bits() == p + (n_spec & 31) as usize, "[C01] masked shift amount");
    }
    kani::cover!(n_spec == 31 && view.has(p, 31));
    kani::cover!(n_spec == 20 && !view.has(p, 20));
    kani::cover!(n_spec > 31);
    kani::cover!(token < c.split);
}

// ------------------------------------------------------------------------------------------------
// Coder::finalize: the ANS final-state check (18181-1 C.2.5: state must equal 0x130000 at the end)
// ------------------------------------------------------------------------------------------------
#[kani::proof]
fn finalize_contract() {
    let state: u32 = kani::any();
    let initial: bool = kani::any();
    let ans = Coder::Ans { dist: Arc::new(Vec::new()), state, initial };
    let r = ans.finalize();
    assert!(r.is_ok() == (state == 0x130000), "[C04] ANS stream is accepted exactly when the final state is 0x130000");
    assert!(matches!(r, Ok(()) | Err(Error::InvalidAnsStream)), "[C04] the rejection is InvalidAnsStream");
    if let Err(e) = &r { assert!(!e.unexpected_eof(), "[C11] a wrong final state is a hard error, not need-more-data"); }
    let pc = Coder::PrefixCode(Arc::new(Vec::new()));
    assert!(pc.finalize().is_ok(), "[C04] prefix-coded streams have no final-state check");
    let d = Decoder { lz77: Lz77::Disabled, inner: DecoderInner { clusters: Vec::new(), configs: Vec::new(), code: Coder::Ans { dist: Arc::new(Vec::new()), state, initial } } };
    assert!(d.finalize().is_ok() == (state == 0x130000), "[C04] Decoder::finalize is that check");
    kani::cover!(r.is_ok());
    kani::cover!(r.is_err());
}

// ------------------------------------------------------------------------------------------------
// LZ77: one step of read_varint_with_multiplier_clustered_lz77 as an inductive step over Lz77State
// ------------------------------------------------------------------------------------------------
// State invariant lz_inv (established by Lz77State::new: everything 0 / empty; preserved by every step,
// proved here, Ok or Err):
//   window.len() == min(num_decoded, 2^20)
//   copy_pos < num_decoded, or nothing decoded yet and copy_pos == num_to_copy == 0
// and, on every Ok return (an Err between the two symbol reads of a repeat leaves num_to_copy set with a stale
// copy_pos; the stream is dead then):  num_to_copy > 0  ==>  num_decoded - copy_pos <= 2^20
// Preconditions from outside the step:
//   min_length >= 3                         Lz77::parse, lib.rs:325: U32(3, 4, 5 + u(2), 9 + u(8))
//   num_decoded < u32::MAX                  (a stream of 2^32 - 1 symbols; `num_decoded += 1` would overflow -- noted, not claimed)
//   dist_multiplier <= 306_783_377          exactly the range in which `offset + dist_multiplier as i32 * dist`
//                                           (dist <= 7, offset <= 8) does not overflow i32. Callers pass the largest
//                                           channel width of one modular stream (jxl-modular image.rs:460), which is
//                                           far below; that bound is NOT verified there.
//   cluster < configs.len(), clusters non-empty, every cluster id < configs.len()   (read_clusters: no holes)
// The symbol reader is replaced by a stub with the ASSUMED contract "refills the bit buffer, consumes <= 16
// bits, returns an arbitrary token <= 65535 or an error" -- what ans.rs / prefix.rs read_symbol obligations
// establish; the LZ77 logic must be total for every such token sequence.
fn stub_read_symbol(_c: &mut Coder, bs: &mut Bitstream, _cluster: u8) -> CodingResult<u32> {
    let _ = bs.peek_bits_const::<15>();
    let t: usize = kani::any();
    kani::assume(t <= 16);
    if bs.consume_bits(t).is_err() || kani::any() {
        return Err(Error::InvalidAnsStream); // stands for "some error"; it is only propagated
    }
    let tok: u32 = kani::any();
    kani::assume(tok <= u16::MAX as u32);
    Ok(tok)
}

const WINDOW: usize = 1 << 20;
const LZ_BOUND: usize = 8;

fn lz_inv(st: &Lz77State) -> bool {
    st.window.len() == (st.num_decoded as usize).min(WINDOW)
        && if st.num_decoded == 0 { st.num_to_copy == 0 && st.copy_pos == 0 } else { st.copy_pos < st.num_decoded }
}
/// while a copy is pending its source is at most one window behind (so the ring buffer still holds it)
fn lz_copy_in_window(st: &Lz77State) -> bool {
    st.num_to_copy == 0 || st.num_decoded - st.copy_pos <= WINDOW as u32
}

#[kani::proof]
#[kani::stub(Coder::read_symbol, stub_read_symbol)]
#[kani::unwind(10)]
fn lz77_step_contract() {
    // BOUND: at most LZ_BOUND symbols decoded so far, i.e. a window of <= LZ_BOUND entries. (CBMC segfaults on a
    // 2^20-entry symbolic window, so the wrap-around of the ring buffer at 2^20 is NOT exercised.)
    let num_decoded: u32 = kani::any();
    kani::assume(num_decoded <= LZ_BOUND as u32);
    let mut window = kani::vec::exact_vec::<u32, { LZ_BOUND + 1 }>(); // capacity for the one push of this step
    window.truncate(num_decoded as usize);
    let mut st = Lz77State { lz_len_conf: any_cfg(), window, num_to_copy: kani::any(), copy_pos: kani::any(), num_decoded };
    kani::assume(lz_inv(&st) && lz_copy_in_window(&st));
    let min_symbol: u32 = kani::any();
    let min_length: u32 = kani::any();
    kani::assume(min_length >= 3 && min_length <= 9 + 255);
    let dist_multiplier: u32 = kani::any();
    kani::assume(dist_multiplier <= 306_783_377);
    let c0: u8 = kani::any();
    let c1: u8 = kani::any();
    let cluster: u8 = kani::any();
    kani::assume(c0 < 2 && c1 < 2 && cluster < 2);
    let mut inner = DecoderInner { clusters: vec![c0, c1], configs: vec![any_cfg(), any_cfg()], code: Coder::PrefixCode(Arc::new(Vec::new())) };
    let data: [u8; 16] = kani::any();
    let mut bs = Bitstream::new(&data);
    let copying = st.num_to_copy > 0;
    let src = if copying { st.window[(st.copy_pos & 0xfffff) as usize] } else { 0 };
    let slot = (num_decoded & 0xfffff) as usize;
    let r = inner.read_varint_with_multiplier_clustered_lz77(&mut bs, cluster, dist_multiplier, &mut st, min_symbol, min_length);
    // [C01] reaching here: no index-out-of-range on the window / SPECIAL_DISTANCES, no arithmetic overflow
    assert!(lz_inv(&st), "[C01,C04] the LZ77 state invariant is preserved by every step, Ok or Err");
    match &r {
        Ok(v) => {
            assert!(st.num_decoded == num_decoded + 1, "[C04] one more symbol decoded");
            assert!(lz_copy_in_window(&st), "[C04] a pending copy reads values that are still in the 2^20 window");
            assert!(st.window[slot] == *v, "[C04] the decoded value is recorded in the window at position num_decoded mod 2^20");
            if copying {
                assert!(*v == src, "[C04] while a copy is pending the value comes from the window at copy_pos, no bits are read");
                assert!(bs.num_read_bits() == 0, "[C04] a pending copy reads no bits");
            }
        }
        Err(_) => assert!(st.num_decoded == num_decoded, "[C04] a failed step decodes nothing"),
    }
    kani::cover!(r.is_ok() && copying);
    kani::cover!(r.is_ok() && !copying && st.num_to_copy > 0 && dist_multiplier > 0); // a new copy was started through the special-distance table
    kani::cover!(r.is_ok() && !copying && st.num_to_copy == 0);
    kani::cover!(matches!(&r, Err(Error::UnexpectedLz77Repeat)));
    kani::cover!(matches!(&r, Err(Error::InvalidLz77Symbol)));
    kani::cover!(r.is_ok() && num_decoded == LZ_BOUND as u32);
}

// ------------------------------------------------------------------------------------------------
// cd2.*  LZ77 distance: special-distance table and the clamp  distance = min(distance, num_decoded, 2^20)
// ------------------------------------------------------------------------------------------------
// 18181-1 C.3.? (LZ77 branch of DecodeHybridVarLenUint), with d = ReadUint(dist config, token):
//     if (dist_multiplier == 0)  distance = d + 1
//     else if (d >= 120)         distance = d - 119
//     else                       distance = max(1, kSpecialDistances[d][0] + dist_multiplier * kSpecialDistances[d][1])
//     distance = min(distance, num_decoded, 1 << 20);   copy_pos = num_decoded - distance
// The clamp is inline in read_varint_with_multiplier_clustered_lz77 and is immediately followed by
// `window[copy_pos & 0xfffff]`, so the smallest real function containing it needs the window. What makes the whole
// range of num_decoded affordable: the window is a CONCRETE zero-filled 2^20-entry Vec (a constant-size calloc; CBMC
// keeps it as an array term) with ONE symbolic cell at a symbolic index, instead of 2^20 symbolic entries.
// Both symbol reads and both hybrid-integer reads are stubbed by recording stubs with the assumed contracts
// "arbitrary token or error" / "arbitrary u32" (proved by cd.read_uint_prefilled, cd.ans_step_*, cd.prefix_table_lookup).
const K_SPECIAL_DISTANCES: [[i8; 2]; 120] = [
    [0, 1], [1, 0], [1, 1], [-1, 1], [0, 2], [2, 0], [1, 2], [-1, 2], [2, 1], [-2, 1], [2, 2], [-2, 2], [0, 3], [3, 0], [1, 3],
    [-1, 3], [3, 1], [-3, 1], [2, 3], [-2, 3], [3, 2], [-3, 2], [0, 4], [4, 0], [1, 4], [-1, 4], [4, 1], [-4, 1], [3, 3], [-3, 3],
    [2, 4], [-2, 4], [4, 2], [-4, 2], [0, 5], [3, 4], [-3, 4], [4, 3], [-4, 3], [5, 0], [1, 5], [-1, 5], [5, 1], [-5, 1], [2, 5],
    [-2, 5], [5, 2], [-5, 2], [4, 4], [-4, 4], [3, 5], [-3, 5], [5, 3], [-5, 3], [0, 6], [6, 0], [1, 6], [-1, 6], [6, 1], [-6, 1],
    [2, 6], [-2, 6], [6, 2], [-6, 2], [4, 5], [-4, 5], [5, 4], [-5, 4], [3, 6], [-3, 6], [6, 3], [-6, 3], [0, 7], [7, 0], [1, 7],
    [-1, 7], [5, 5], [-5, 5], [7, 1], [-7, 1], [4, 6], [-4, 6], [6, 4], [-6, 4], [2, 7], [-2, 7], [7, 2], [-7, 2], [3, 7], [-3, 7],
    [7, 3], [-7, 3], [5, 6], [-5, 6], [6, 5], [-6, 5], [8, 0], [4, 7], [-4, 7], [7, 4], [-7, 4], [8, 1], [8, 2], [6, 6], [-6, 6],
    [8, 3], [5, 7], [-5, 7], [7, 5], [-7, 5], [8, 4], [6, 7], [-6, 7], [7, 6], [-7, 6], [8, 5], [7, 7], [-7, 7], [8, 6], [8, 7],
];

/// Cross-check of the transcription above against the table's defining property (WebP lossless "distance map", which
/// 18181-1 reuses): the 120 offsets (x, y) with 0 <= y <= 7, -7 <= x <= 8, (y > 0 or x > 0), ordered by increasing
/// Euclidean norm, ties by decreasing y, then x > 0 before x < 0. A strictly increasing key over 120 members of a
/// 120-element set makes the table unique.
#[kani::proof]
#[kani::unwind(121)]
fn special_distances_table_is_the_distance_map() {
    let key = |e: [i8; 2]| -> i32 {
        let (x, y) = (e[0] as i32, e[1] as i32);
        (x * x + y * y) * 64 + (7 - y) * 4 + if x < 0 { 1 } else { 0 }
    };
    let mut i = 0;
    while i < 120 {
        let [x, y] = K_SPECIAL_DISTANCES[i];
        assert!(y >= 0 && y <= 7 && x >= -7 && x <= 8 && (y > 0 || x > 0), "[C04] special distance inside the 16 x 8 neighbourhood");
        if i > 0 {
            assert!(key(K_SPECIAL_DISTANCES[i - 1]) < key(K_SPECIAL_DISTANCES[i]), "[C04] special distances ordered by norm, then y descending, then sign");
        }
        i += 1;
    }
}

fn spec_lz77_distance(d: u32, dist_multiplier: u32, num_decoded: u32) -> u32 {
    let distance: i64 = if dist_multiplier == 0 {
        d as i64 + 1
    } else if d >= 120 {
        d as i64 - 119
    } else {
        let [offset, dist] = K_SPECIAL_DISTANCES[d as usize];
        (offset as i64 + dist_multiplier as i64 * dist as i64).max(1)
    };
    distance.min(num_decoded as i64).min(1 << 20) as u32
}

const LZC_BASE: u64 = 0x4c5a_434c_414d_0000;
// [0] calls of read_uint_prefilled, [1] / [2] the values its 1st / 2nd call returned, [3] / [4] the tokens it was given,
// [5] calls of read_symbol, [6] / [7] the tokens read_symbol returned
static mut LZC: [u64; 8] = [LZC_BASE + 1, LZC_BASE + 2, LZC_BASE + 3, LZC_BASE + 4, LZC_BASE + 5, LZC_BASE + 6, LZC_BASE + 7, LZC_BASE + 8];

fn rec_read_symbol(_c: &mut Coder, _bs: &mut Bitstream, _cluster: u8) -> CodingResult<u32> {
    if kani::any() {
        return Err(Error::InvalidAnsStream); // stands for "some error"; it is only propagated
    }
    let tok: u32 = kani::any();
    kani::assume(tok <= u16::MAX as u32);
    unsafe {
        let n = LZC[5] as usize;
        if n < 2 { LZC[6 + n] = tok as u64; }
        LZC[5] += 1;
    }
    Ok(tok)
}

fn rec_read_uint(_s: &DecoderInner, _bs: &mut Bitstream, _c: &IntegerConfig, token: u32) -> u32 {
    let v: u32 = kani::any();
    unsafe {
        let n = LZC[0] as usize;
        if n < 2 { LZC[1 + n] = v as u64; LZC[3 + n] = token as u64; }
        LZC[0] += 1;
    }
    v
}

fn lz77_distance_clamp(with_multiplier: bool) {
    // every num_decoded: before the window is full (len == num_decoded), exactly full, and after wrap-around
    let num_decoded: u32 = kani::any();
    kani::assume(num_decoded >= 1 && num_decoded < u32::MAX);
    let len = (num_decoded as usize).min(WINDOW);
    // The allocation size is a symbolic value constrained to `len` ON PURPOSE: CBMC bit-blasts constant-size objects
    // (4 MB: out of memory / stack overflow, measured) but handles objects of symbolic size with its array theory.
    let alloc_len: usize = kani::any();
    kani::assume(alloc_len == len);
    let mut window = vec![0u32; alloc_len];
    // one symbolic cell; every other entry is 0
    let cell: usize = kani::any();
    let cell_v: u32 = kani::any();
    kani::assume(cell < len);
    window[cell] = cell_v;
    let copy_pos: u32 = kani::any();
    let mut st = Lz77State { lz_len_conf: any_cfg(), window, num_to_copy: 0, copy_pos, num_decoded };
    kani::assume(lz_inv(&st));
    let min_symbol: u32 = kani::any();
    let min_length: u32 = kani::any();
    kani::assume(min_length >= 3 && min_length <= 9 + 255);
    let dist_multiplier: u32 = kani::any();
    kani::assume(dist_multiplier <= 306_783_377 && (dist_multiplier != 0) == with_multiplier);
    let mut inner = DecoderInner { clusters: vec![0, 1], configs: vec![any_cfg(), any_cfg()], code: Coder::PrefixCode(Arc::new(Vec::new())) };
    let cluster: u8 = kani::any();
    kani::assume(cluster < 2);
    unsafe { LZC = [0; 8]; }
    let data = [0u8; 1];
    let mut bs = Bitstream::new(&data);
    let r = inner.read_varint_with_multiplier_clustered_lz77(&mut bs, cluster, dist_multiplier, &mut st, min_symbol, min_length);
    let rec = unsafe { LZC };
    if let Ok(v) = &r {
        assert!(rec[5] >= 1 && rec[0] >= 1);
        if rec[6] as u32 >= min_symbol {
            // an LZ77 copy was started: length token, length, distance token, distance
            assert!(rec[5] == 2 && rec[0] == 2, "[C04] an LZ77 symbol reads the length from its own token and then one distance symbol");
            assert!(rec[3] as u32 == rec[6] as u32 - min_symbol && rec[4] == rec[7], "[C04] length token = token - min_symbol, distance token as read");
            let distance = spec_lz77_distance(rec[2] as u32, dist_multiplier, num_decoded);
            assert!(distance >= 1 && distance <= num_decoded && distance <= 1 << 20);
            assert!(st.copy_pos == num_decoded - distance + 1,
                "[C04] copy starts at num_decoded - min(distance, num_decoded, 2^20), distance from kSpecialDistances / d - 119 / d + 1");
            assert!(rec[1] + min_length as u64 <= u32::MAX as u64 && st.num_to_copy as u64 == rec[1] + min_length as u64 - 1,
                "[C04] num_to_copy = ReadUint(lz_len_conf, token - min_symbol) + min_length, one value delivered");
            let src = ((num_decoded - distance) & 0xfffff) as usize;
            assert!(*v == if src == cell { cell_v } else { 0 }, "[C04] the first copied value is window[(num_decoded - distance) mod 2^20]");
        } else {
            assert!(rec[5] == 1 && rec[0] == 1 && *v == rec[1] as u32 && rec[3] == rec[6], "[C04] a token below min_symbol is a literal hybrid integer");
            assert!(st.num_to_copy == 0 && st.copy_pos == copy_pos, "[C04] a literal does not touch the copy state");
        }
        assert!(st.num_decoded == num_decoded + 1 && st.window[(num_decoded & 0xfffff) as usize] == *v && st.window.len() == (num_decoded as usize + 1).min(WINDOW),
            "[C04] the value is appended to the 2^20-entry ring");
    } else {
        assert!(st.num_decoded == num_decoded && st.window.len() == len, "[C04] a failed step decodes nothing");
    }
    // (few covers on purpose: CBMC writes a full trace, 2^20-entry ring included, for every satisfied cover -- 18 s each)
    let lz = r.is_ok() && rec[5] == 2;
    kani::cover!(lz && rec[2] >= 1 << 21 && num_decoded > (1 << 20) + 5);                                // clamped by the window size, after wrap-around
    kani::cover!(lz && rec[2] >= 200 && rec[2] < (1 << 20) - 1 && rec[2] as u32 - 119 > num_decoded);    // clamped by num_decoded, ring not yet full
    kani::cover!(lz && if with_multiplier { rec[2] == 3 && dist_multiplier == 1 } else { rec[2] as u32 == u32::MAX }); // max(1, -1 + 1) / d + 1 must not wrap
    kani::cover!(r.is_ok() && !lz);
    kani::cover!(matches!(&r, Err(Error::InvalidLz77Symbol)));
}

#[kani::proof]
#[kani::stub(Coder::read_symbol, rec_read_symbol)]
#[kani::stub(DecoderInner::read_uint_prefilled, rec_read_uint)]
#[kani::unwind(4)]
fn lz77_distance_clamp_mult0() { lz77_distance_clamp(false); }

#[kani::proof]
#[kani::stub(Coder::read_symbol, rec_read_symbol)]
#[kani::stub(DecoderInner::read_uint_prefilled, rec_read_uint)]
#[kani::unwind(4)]
fn lz77_distance_clamp_special() { lz77_distance_clamp(true); }

#[kani::proof]
fn canary() {
    let c = any_cfg();
    assert!(c.split_exponent != 13, "canary: must fail");
}
