// Contracts for crates/jxl-coding/src/ans.rs (child module: sees Histogram's and Bucket's private fields).
//
// Data-structure invariant of the alias table (derived from what read_symbol needs; it is what
// `Histogram::parse` builds -- ans.rs:180-261 -- but that is NOT proved, see the note at the end):
//   wf_table(h):   4 <= log_bucket_size <= 7,  buckets.len() << log_bucket_size == 4096,
//                  bucket_mask == (1 << log_bucket_size) - 1
//   wf_slot(h, x): for slot x in 0..4096 with (s, off) = AliasMapping(x) (18181-1 C.2.6):
//                  s < buckets.len(),  off < D[s] <= 4096  where D[s] = buckets[s].dist,  and the
//                  branch-free distribution lookup agrees with D:  when the slot maps to the alias,
//                  buckets[i].dist ^ buckets[i].alias_dist_xor == D[s].
// `read_symbol_contract` assumes wf_slot only at the one slot `state & 0xfff` it uses (a weaker
// precondition than "for all x", hence a stronger theorem).
//
// Bit view: as in lib.rs -- bit i of the stream is (data[i/8] >> (i%8)) & 1, position is num_read_bits().
use super::*;

#[derive(Clone, Copy)]
struct View {
    w: u128,
    total: usize,
}
impl View {
    fn of(data: &[u8; 16], len: usize) -> Self {
        View { w: u128::from_le_bytes(*data), total: len * 8 }
    }
    fn u(&self, at: usize, n: usize) -> u32 {
        let mask = if n == 0 { 0u128 } else { (1u128 << n) - 1 };
        let valid = if self.total >= 128 { u128::MAX } else { (1u128 << self.total) - 1 };
        (((self.w & valid) >> at) & mask) as u32
    }
    fn has(&self, at: usize, n: usize) -> bool {
        at + n <= self.total
    }
}

// ------------------------------------------------------------------------------------------------
// specification: alias mapping and one ANS decoding step (18181-1 C.2.4 - C.2.6)
// ------------------------------------------------------------------------------------------------
/// AliasMapping(x): i = x >> log_bucket_size, pos = x & (bucket_size - 1);
/// symbol = pos >= cutoffs[i] ? symbols[i] : i;  offset = pos >= cutoffs[i] ? offsets[i] + pos : pos.
fn spec_alias_lookup(h: &Histogram, x: u32) -> (usize, u32) {
    let i = (x >> h.log_bucket_size) as usize;
    let pos = x & ((1u32 << h.log_bucket_size) - 1);
    let b = &h.buckets[i];
    if pos >= b.alias_cutoff as u32 {
        (b.alias_symbol as usize, b.alias_offset as u32 + pos)
    } else {
        (i, pos)
    }
}

fn wf_table(h: &Histogram) -> bool {
    h.log_bucket_size >= 4 && h.log_bucket_size <= 7
        && (h.buckets.len() << h.log_bucket_size) == 4096
        && h.bucket_mask == (1u32 << h.log_bucket_size) - 1
}

/// precondition: wf_table(h), x < 4096
fn wf_slot(h: &Histogram, x: u32) -> bool {
    let i = (x >> h.log_bucket_size) as usize;
    let pos = x & ((1u32 << h.log_bucket_size) - 1);
    let (s, off) = spec_alias_lookup(h, x);
    if s >= h.buckets.len() { return false; }
    let d = h.buckets[s].dist as u32;
    let b = &h.buckets[i];
    let xor_ok = pos < b.alias_cutoff as u32 || (b.dist ^ b.alias_dist_xor) as u32 == d;
    off < d && d <= 4096 && xor_ok
}

enum Step {
    Eof,
    Ok { symbol: u32, state: u32, used: usize },
}

/// symbol = AliasMapping(state & 0xFFF); state = D[symbol] * (state >> 12) + offset;
/// if (state < 2^16) state = (state << 16) | u(16).
/// The product is written `(state >> 12) * D[symbol]` in u32 (Rust's checked arithmetic: the spec itself
/// asserts that nothing wraps; under wf_slot D <= 4096 and offset < D, so the value is < 2^32). The operand
/// order is that of the code on purpose: proving commutativity of a 32-bit multiplier is out of reach for SAT.
fn spec_ans_step(h: &Histogram, state: u32, v: &View, p: usize) -> Step {
    let (s, off) = spec_alias_lookup(h, state & 0xfff);
    let d = h.buckets[s].dist as u32;
    // no overflow under wf_slot: (2^20 - 1) * 4096 + 4095 < 2^32 (d <= 4096, off < d)
    let next = (state >> 12).wrapping_mul(d).wrapping_add(off);
    if next < (1 << 16) {
        if !v.has(p, 16) { return Step::Eof; }
        Step::Ok { symbol: s as u32, state: (next << 16) | v.u(p, 16), used: 16 }
    } else {
        Step::Ok { symbol: s as u32, state: next, used: 0 }
    }
}

// ------------------------------------------------------------------------------------------------
// read_symbol == spec_ans_step for every wf table
// ------------------------------------------------------------------------------------------------
fn any_buckets<const N: usize>() -> Vec<Bucket> {
    // all bit patterns of the 8-byte repr(C) Bucket are valid values (the code itself transmutes Bucket -> u64);
    // built without a loop so that the harness needs no large unwinding bound
    let raw: [u64; N] = kani::any();
    let arr: [Bucket; N] = unsafe { std::mem::transmute_copy(&raw) };
    <[Bucket]>::into_vec(Box::new(arr))
}

fn any_table(log_alphabet_size: u32) -> Histogram {
    let buckets = match log_alphabet_size {
        5 => any_buckets::<32>(),
        6 => any_buckets::<64>(),
        7 => any_buckets::<128>(),
        _ => any_buckets::<256>(),
    };
    let log_bucket_size: u32 = kani::any();
    let bucket_mask: u32 = kani::any();
    let single_symbol: Option<u32> = kani::any();
    let h = Histogram { buckets, log_bucket_size, bucket_mask, single_symbol };
    kani::assume(wf_table(&h));
    h
}

/// Full stream: the 16 refill bits are always there (16-byte buffer, start offset <= 15 bits).
fn read_symbol_step(log_alphabet_size: u32) {
    let h = any_table(log_alphabet_size);
    assert!(h.log_bucket_size == 12 - log_alphabet_size);
    let state0: u32 = kani::any();
    kani::assume(wf_slot(&h, state0 & 0xfff));
    let data: [u8; 16] = kani::any();
    let off: usize = kani::any();
    kani::assume(off <= 15);
    let view = View::of(&data, 16);
    let mut bs = Bitstream::new(&data);
    if bs.skip_bits(off).is_err() { return; }
    let mut state = state0;
    let r = h.read_symbol(&mut bs, &mut state);
    // [C02] reaching here: get_unchecked(i) and the Bucket -> u64 transmute were checked by CBMC's pointer checks
    match (spec_ans_step(&h, state0, &view, off), &r) {
        (Step::Ok { symbol, state: s1, used }, Ok(sym)) => {
            assert!(*sym == symbol, "[C04] ANS symbol = AliasMapping(state & 0xFFF).symbol");
            assert!(state == s1, "[C04] ANS state = D[symbol] * (state >> 12) + offset, refilled with u(16) iff it drops below 2^16");
            assert!(bs.num_read_bits() == off + used, "[C04] 16 bits consumed iff the state dropped below 2^16, else none");
        }
        _ => assert!(false, "[C04,C11] ANS step failed although the stream holds the refill bits"),
    }
    let pos = bs.num_read_bits();
    let next = bs.read_bits(16);
    assert!(matches!(next, Ok(x) if x == view.u(pos, 16)), "[C04] unread bits preserved");
    kani::cover!(matches!(&r, Ok(_)) && pos == off + 16);
    kani::cover!(matches!(&r, Ok(_)) && pos == off);
    kani::cover!(matches!(&r, Ok(s) if *s as usize != ((state0 & 0xfff) >> h.log_bucket_size) as usize)); // alias branch
    kani::cover!(state0 == u32::MAX);
}

#[kani::proof]
#[kani::solver(kissat)]
#[kani::unwind(9)]
fn read_symbol_contract_las5() { read_symbol_step(5); }
#[kani::proof]
#[kani::solver(kissat)]
#[kani::unwind(9)]
fn read_symbol_contract_las6() { read_symbol_step(6); }
#[kani::proof]
#[kani::solver(kissat)]
#[kani::unwind(9)]
fn read_symbol_contract_las7() { read_symbol_step(7); }
#[kani::proof]
#[kani::solver(kissat)]
#[kani::unwind(9)]
fn read_symbol_contract_las8() { read_symbol_step(8); }

/// [C11] Cut stream (<= 3 bytes, so the 16 refill bits may be missing): the step is still spec_ans_step, whose
/// Eof outcome ("refill needed and fewer than 16 bits left") is the ONLY way it can fail, and the failure is
/// unexpected-eof with nothing consumed. Since spec_ans_step reads the stream only through the 16 refill bits,
/// its result on a prefix is either Eof or its result on the whole stream: the prefix lemma.
#[kani::proof]
#[kani::solver(kissat)]
#[kani::unwind(9)]
fn read_symbol_cut_stream() {
    let h = any_table(5);
    let state0: u32 = kani::any();
    kani::assume(wf_slot(&h, state0 & 0xfff));
    let data: [u8; 16] = kani::any();
    let len: usize = kani::any();
    let off: usize = kani::any();
    kani::assume(len <= 3 && off <= 7);
    let view = View::of(&data, len);
    let mut bs = Bitstream::new(&data[..len]);
    if bs.skip_bits(off).is_err() { return; }
    let mut state = state0;
    let r = h.read_symbol(&mut bs, &mut state);
    match (spec_ans_step(&h, state0, &view, off), &r) {
        (Step::Ok { symbol, state: s1, used }, Ok(sym)) => {
            assert!(*sym == symbol && state == s1 && bs.num_read_bits() == off + used, "[C04,C11] same step as on the full stream");
        }
        (Step::Eof, Err(e)) => {
            assert!(e.unexpected_eof(), "[C11] ANS refill past the end of data is unexpected-eof");
            assert!(bs.num_read_bits() == off, "[C11] nothing consumed by the failed step");
        }
        (Step::Ok { .. }, Err(_)) => assert!(false, "[C11] ANS step failed although the stream holds the refill bits"),
        (Step::Eof, Ok(_)) => assert!(false, "[C11] ANS step returned a symbol although the 16 refill bits are missing"),
    }
    kani::cover!(r.is_err());
    kani::cover!(r.is_ok() && bs.num_read_bits() == off + 16);
    kani::cover!(r.is_ok() && len * 8 == off);
}

/// [C11] prefix lemma, relational: the step on any prefix of the data either does exactly what it does on the
/// whole data (symbol, state, position) or fails with unexpected-eof without consuming anything. (On Err the
/// `state` has already been overwritten with a zero-extended refill: the decoder must be discarded, which is
/// what every caller does -- they propagate the error with `?`.)
#[kani::proof]
#[kani::solver(kissat)]
#[kani::unwind(9)]
fn read_symbol_prefix_lemma() {
    let h = any_table(5);
    let state0: u32 = kani::any();
    kani::assume(wf_slot(&h, state0 & 0xfff));
    let data: [u8; 4] = kani::any();
    let len: usize = kani::any();
    let cut: usize = kani::any();
    let off: usize = kani::any();
    kani::assume(len <= 4 && cut <= len && off <= 7);
    let mut full = Bitstream::new(&data[..len]);
    let mut pre = Bitstream::new(&data[..cut]);
    if pre.skip_bits(off).is_err() || full.skip_bits(off).is_err() { return; }
    let (mut sf, mut sp) = (state0, state0);
    let rf = h.read_symbol(&mut full, &mut sf);
    let rp = h.read_symbol(&mut pre, &mut sp);
    match (&rp, &rf) {
        (Ok(a), Ok(b)) => assert!(a == b && sp == sf && pre.num_read_bits() == full.num_read_bits(), "[C11] a prefix never changes the symbol, the state or the position"),
        (Err(e), _) => {
            assert!(e.unexpected_eof(), "[C11] a prefix can only fail with unexpected-eof");
            assert!(pre.num_read_bits() == off, "[C11] a failed step consumes nothing");
        }
        (Ok(_), Err(_)) => assert!(false, "[C11] prefix succeeded where the full stream fails"),
    }
    kani::cover!(rp.is_err() && rf.is_ok());
    kani::cover!(rp.is_ok() && cut < len);
    kani::cover!(rf.is_err());
}

// ------------------------------------------------------------------------------------------------
// Histogram::parse, one-symbol distributions: the alias table it builds satisfies wf and maps slot x to
// (symbol, x) -- the bijection onto {(s, o) : o < D[s] = 4096}.
//
// The bit reader is replaced by a stub with the ASSUMED contract "read_bool / read_bits(n) return the next
// field of the header, masked to n bits" (what bs.read_bits / bs.read_bool establish) with a CONCRETE
// script, because only then does CBMC's symbolic execution follow the single-symbol path alone.
// Measured limits (Kani 0.68 / CBMC 6.11), hence NOT under contract: every other header form. With symbolic
// header fields, or with a concrete two-symbol header, symbolic execution of the alias construction
// (ans.rs:200-254: Vec work lists, iterator adaptors, heap-resident loop bounds) does not finish in 20 min
// for log_alphabet_size = 5; with the real reader it additionally explores the compressed-distribution
// branch, because `assume`d header bits are not constant-propagated through `Bitstream::buf`.
// So "parse establishes wf_slot for every slot, injectively, sum(D) = 4096" is UNVERIFIED for binary, flat
// and compressed headers.
// ------------------------------------------------------------------------------------------------
// unique non-zero initial values: Kani 0.68 may give a `static mut` the storage of an equal-bytes constant
const SCRIPT_POS_BASE: usize = 0x5343_5250_4f53_0000;
static mut SCRIPT: [u32; 6] = [0x5c52_0001, 0x5c52_0002, 0x5c52_0003, 0x5c52_0004, 0x5c52_0005, 0x5c52_0006];
static mut SCRIPT_POS: usize = SCRIPT_POS_BASE;
fn script_read_bool<'a>(_bs: &mut Bitstream<'a>) -> jxl_bitstream::BitstreamResult<bool> where 'a: 'a {
    unsafe {
        let v = SCRIPT[SCRIPT_POS - SCRIPT_POS_BASE];
        SCRIPT_POS += 1;
        Ok(v & 1 != 0)
    }
}
fn script_read_bits<'a>(_bs: &mut Bitstream<'a>, n: usize) -> jxl_bitstream::BitstreamResult<u32> where 'a: 'a {
    unsafe {
        let v = SCRIPT[SCRIPT_POS - SCRIPT_POS_BASE];
        SCRIPT_POS += 1;
        Ok(if n >= 32 { v } else { v & ((1u32 << n) - 1) })
    }
}

/// header "1, 0, U8() = val": flags, then U8 as (0) for val == 0 or (1, n, low n bits) with val = 2^n + low
fn parse_one_symbol(las: u32, val: u32) {
    let fields = if val == 0 { 3 } else { 5 };
    let n = if val == 0 { 0 } else { 31 - val.leading_zeros() };
    unsafe {
        SCRIPT = if val == 0 { [1, 0, 0, 0, 0, 0] } else { [1, 0, 1, n, val - (1 << n), 0] };
        SCRIPT_POS = SCRIPT_POS_BASE;
    }
    let data = [0u8; 1];
    let mut bs = Bitstream::new(&data);
    let r = Histogram::parse(&mut bs, las);
    let size = 1usize << las;
    match &r {
        Err(_) => assert!(false, "[C04] a one-symbol header inside the alphabet is accepted"),
        Ok(h) => {
            assert!(unsafe { SCRIPT_POS } - SCRIPT_POS_BASE == fields, "[C04] exactly the header fields are read");
            assert!(h.single_symbol() == Some(val), "[C04] single_symbol() is the transmitted symbol");
            assert!(wf_table(h) && h.buckets.len() == size && h.log_bucket_size == 12 - las, "[C02,C04] parse establishes wf_table");
            let k: usize = kani::any();
            kani::assume(k < size);
            assert!(h.buckets[k].dist == if k == val as usize { 4096 } else { 0 }, "[C04] D is the transmitted distribution (sums to 2^12)");
            let x: u32 = kani::any();
            kani::assume(x < 4096);
            assert!(wf_slot(h, x), "[C02,C04,C01] parse establishes wf_slot for every one of the 4096 slots");
            assert!(spec_alias_lookup(h, x) == (val as usize, x), "[C04] slot x decodes to (symbol, offset x): a bijection onto the symbol's 4096 offsets");
        }
    }
    kani::cover!(r.is_ok());
}

#[kani::proof]
#[kani::stub(jxl_bitstream::Bitstream::read_bool, script_read_bool)]
#[kani::stub(jxl_bitstream::Bitstream::read_bits, script_read_bits)]
#[kani::unwind(34)]
fn parse_one_symbol_las5() {
    parse_one_symbol(5, 0);
    parse_one_symbol(5, 9);
    parse_one_symbol(5, 31);
}

#[kani::proof]
#[kani::stub(jxl_bitstream::Bitstream::read_bool, script_read_bool)]
#[kani::stub(jxl_bitstream::Bitstream::read_bits, script_read_bits)]
#[kani::unwind(66)]
fn parse_one_symbol_las6() {
    parse_one_symbol(6, 1);
    parse_one_symbol(6, 40);
}

// ================================================================================================
// cd2.*  Histogram::parse for the "binary" and "flat" header forms (18181-1 C.2.? ANS distribution)
// ================================================================================================
//   simple, two symbols:  1, 1, v1 = U8(), v2 = U8() (v1 != v2), D[v1] = u(12), D[v2] = 4096 - D[v1]
//   flat:                 0, 1, alphabet_size = U8() + 1, D[i] = floor(4096 / alphabet_size) + (i < 4096 mod alphabet_size ? 1 : 0)
//   table of 2^log_alphabet_size entries, log_bucket_size = 12 - log_alphabet_size; alphabet_size > table size is invalid.
// The alias-table construction is INLINE in Histogram::parse (ans.rs:200-254, no helper to cut at), so these obligations
// run it for real and check its result too: D (the distribution vector, per symbol), wf_table, wf_slot for every one of
// the 4096 slots, and injectivity of the alias mapping (with sum D = 4096: a bijection onto the pairs (s, o), o < D[s]).
// What makes that tractable (the header of the one-symbol section measured the opposite): CBMC's
// --max-field-sensitivity-array-size raised from 64 to 1024 (registry cbmc_args), so that the 256..1024-byte
// WorkingBucket / Bucket / work-list heap arrays are constant-propagated; header fields CONCRETE through a scripted
// reader (assumed contract of read_bool / read_bits: next field masked to the requested width; widths are recorded and
// checked). A symbolic u(12) probability (work lists of symbolic length) and log_alphabet_size = 8 still do not finish
// (25 min / 15 min): binary headers are covered for the listed concrete probabilities only, flat headers for EVERY
// alphabet_size at log_alphabet_size 5 and for samples at 6 and 7.
const S2_POS_BASE: usize = 0x414e_5332_5053_0000;
static mut S2: [u32; 12] = [0x5c53_0001, 0x5c53_0002, 0x5c53_0003, 0x5c53_0004, 0x5c53_0005, 0x5c53_0006,
    0x5c53_0007, 0x5c53_0008, 0x5c53_0009, 0x5c53_000a, 0x5c53_000b, 0x5c53_000c];
static mut S2_W: [u32; 12] = [0x5c54_0001, 0x5c54_0002, 0x5c54_0003, 0x5c54_0004, 0x5c54_0005, 0x5c54_0006,
    0x5c54_0007, 0x5c54_0008, 0x5c54_0009, 0x5c54_000a, 0x5c54_000b, 0x5c54_000c];
static mut S2_POS: usize = S2_POS_BASE;
fn s2_read_bool<'a>(_bs: &mut Bitstream<'a>) -> jxl_bitstream::BitstreamResult<bool> where 'a: 'a {
    unsafe {
        let k = S2_POS - S2_POS_BASE;
        let v = S2[k];
        S2_W[k] = 1;
        S2_POS += 1;
        Ok(v & 1 != 0)
    }
}
fn s2_read_bits<'a>(_bs: &mut Bitstream<'a>, n: usize) -> jxl_bitstream::BitstreamResult<u32> where 'a: 'a {
    unsafe {
        let k = S2_POS - S2_POS_BASE;
        let v = S2[k];
        S2_W[k] = n as u32;
        S2_POS += 1;
        Ok(if n >= 32 { v } else { v & ((1u32 << n) - 1) })
    }
}

struct Script {
    f: [u32; 12],
    w: [u32; 12],
    n: usize,
}
impl Script {
    fn new() -> Self { Script { f: [0; 12], w: [0; 12], n: 0 } }
    fn put(&mut self, v: u32, w: u32) { self.f[self.n] = v; self.w[self.n] = w; self.n += 1; }
    /// U8(): u(1) == 0 -> 0, else n = u(3), value = 2^n + u(n)      (18181-1 U8)
    fn put_u8(&mut self, n: Option<u32>, low: u32) {
        match n {
            None => self.put(0, 1),
            Some(n) => { self.put(1, 1); self.put(n, 3); self.put(low, n); }
        }
    }
    fn install(&self) {
        unsafe { S2 = self.f; S2_W = [77; 12]; S2_POS = S2_POS_BASE; }
    }
    fn check_consumed(&self) {
        let used = unsafe { S2_POS - S2_POS_BASE };
        assert!(used == self.n, "[C04] exactly the header fields are read");
        let w = unsafe { S2_W };
        let mut i = 0;
        while i < 12 {
            if i < self.n { assert!(w[i] == self.w[i], "[C04] each header field is read with its width"); }
            i += 1;
        }
    }
}

/// postcondition shared by all forms: `want(k)` is the distribution the standard assigns to symbol k
fn check_parsed(h: &Histogram, las: u32, want: impl Fn(usize) -> u32, single: Option<u32>) {
    let size = 1usize << las;
    assert!(wf_table(h) && h.buckets.len() == size && h.log_bucket_size == 12 - las, "[C02,C04] parse establishes wf_table, log_bucket_size = 12 - log_alphabet_size");
    let k: usize = kani::any();
    kani::assume(k < size);
    assert!(h.buckets[k].dist as u32 == want(k), "[C04] D is the distribution the header denotes");
    assert!(h.single_symbol() == single, "[C04] single_symbol() is Some exactly for a one-symbol distribution");
    let x: u32 = kani::any();
    kani::assume(x < 4096);
    assert!(wf_slot(h, x), "[C02,C04] parse establishes wf_slot for every one of the 4096 slots");
    let y: u32 = kani::any();
    kani::assume(y < 4096 && y != x);
    assert!(spec_alias_lookup(h, x) != spec_alias_lookup(h, y), "[C04] the alias mapping is injective, hence a bijection onto the pairs (s, o) with o < D[s]");
}

/// U8() encoding of v: None for 0, else (n, v - 2^n) with n = floor(log2 v)
fn u8_fields(v: u32) -> (Option<u32>, u32) {
    if v == 0 { (None, 0) } else { let n = 31 - v.leading_zeros(); (Some(n), v - (1 << n)) }
}

fn run_parse(s: &Script, las: u32) -> CodingResult<Histogram> {
    s.install();
    let data = [0u8; 1];
    let mut bs = Bitstream::new(&data);
    Histogram::parse(&mut bs, las)
}

/// "binary" form: 1, 1, v1 = U8(), v2 = U8(), D[v1] = u(12), D[v2] = 4096 - D[v1]
fn binary_script(v0: u32, v1: u32, prob: u32) -> Script {
    let mut s = Script::new();
    s.put(1, 1);
    s.put(1, 1);
    let (n0, l0) = u8_fields(v0);
    let (n1, l1) = u8_fields(v1);
    s.put_u8(n0, l0);
    s.put_u8(n1, l1);
    s.put(prob, 12);
    s
}

fn parse_binary(las: u32, v0: u32, v1: u32, prob: u32) {
    let s = binary_script(v0, v1, prob);
    let r = run_parse(&s, las);
    match &r {
        Err(_) => assert!(false, "[C04] a two-symbol header inside the alphabet is accepted"),
        Ok(h) => {
            s.check_consumed();
            let want = |k: usize| if k == v0 as usize { prob } else if k == v1 as usize { 4096 - prob } else { 0 };
            check_parsed(h, las, want, if prob == 0 { Some(v1) } else { None });
        }
    }
    kani::cover!(r.is_ok());
}

/// v1 == v2, or a symbol outside the 2^log_alphabet_size table: InvalidAnsHistogram
fn parse_binary_rejected(las: u32, v0: u32, v1: u32) {
    let s = binary_script(v0, v1, 1234);
    let r = run_parse(&s, las);
    assert!(matches!(&r, Err(Error::InvalidAnsHistogram)), "[C04] equal symbols / a symbol >= 2^log_alphabet_size in a two-symbol header is rejected");
    kani::cover!(r.is_err());
}

/// "flat" form: 0, 1, alphabet_size = U8() + 1; D[i] = floor(4096 / alphabet_size) + (i < 4096 mod alphabet_size ? 1 : 0)
fn flat_script(alphabet_size: u32) -> Script {
    let mut s = Script::new();
    s.put(0, 1);
    s.put(1, 1);
    let (n, l) = u8_fields(alphabet_size - 1);
    s.put_u8(n, l);
    s
}

fn spec_flat(alphabet_size: u32, k: usize) -> u32 {
    let base = 4096 / alphabet_size;
    let rem = 4096 % alphabet_size;
    if (k as u32) < alphabet_size { base + ((k as u32) < rem) as u32 } else { 0 }
}

fn parse_flat(las: u32, alphabet_size: u32) {
    assert!(alphabet_size * (4096 / alphabet_size) + 4096 % alphabet_size == 4096); // the spec distribution sums to 2^12
    let s = flat_script(alphabet_size);
    let r = run_parse(&s, las);
    match &r {
        Err(_) => assert!(false, "[C04] a flat header with alphabet_size <= 2^log_alphabet_size is accepted"),
        Ok(h) => {
            s.check_consumed();
            check_parsed(h, las, |k| spec_flat(alphabet_size, k), if alphabet_size == 1 { Some(0) } else { None });
        }
    }
    kani::cover!(r.is_ok());
}

fn parse_flat_rejected(las: u32, alphabet_size: u32) {
    let s = flat_script(alphabet_size);
    let r = run_parse(&s, las);
    assert!(matches!(&r, Err(Error::InvalidAnsHistogram)), "[C04] a flat header with alphabet_size > 2^log_alphabet_size is rejected");
    kani::cover!(r.is_err());
}

macro_rules! ans_parse_harness {
    ($name:ident, $unwind:literal, $body:block) => {
        #[kani::proof]
        #[kani::stub(jxl_bitstream::Bitstream::read_bool, s2_read_bool)]
        #[kani::stub(jxl_bitstream::Bitstream::read_bits, s2_read_bits)]
        #[kani::unwind($unwind)]
        fn $name() $body
    };
}

// binary, log_alphabet_size 5: ordinary; symbol 31 = last of the table, probability 1; and the two rejections
ans_parse_harness!(parse_binary_las5_a, 34, {
    parse_binary(5, 3, 1, 1000);
    parse_binary(5, 31, 0, 1);
    parse_binary_rejected(5, 4, 4);
    parse_binary_rejected(5, 32, 1);
});
// D[v1] == bucket size (neither under- nor overfull); u(12) == 0 (a one-symbol distribution in disguise); 4095
ans_parse_harness!(parse_binary_las5_b, 34, {
    parse_binary(5, 5, 9, 128);
    parse_binary(5, 2, 7, 0);
    parse_binary(5, 0, 1, 4095);
});
// 4096 mod 6 = 4 (mod 3 and mod 5 are 1: putting the whole remainder on symbol 0 would look the same)
ans_parse_harness!(parse_flat_las5_a, 34, {
    parse_flat(5, 2);
    parse_flat(5, 3);
    parse_flat(5, 6);
});
// 5; the whole table (every bucket exactly full); alphabet_size 1 (D[0] = 4096: single symbol); one past the table
ans_parse_harness!(parse_flat_las5_b, 34, {
    parse_flat(5, 5);
    parse_flat(5, 32);
    parse_flat(5, 1);
    parse_flat_rejected(5, 33);
});
// the remaining alphabet sizes of log_alphabet_size 5: with _a and _b EVERY flat header for a 32-entry table
ans_parse_harness!(parse_flat_las5_t1, 34, { parse_flat(5, 4); parse_flat(5, 7); parse_flat(5, 8); parse_flat(5, 9); });
ans_parse_harness!(parse_flat_las5_t2, 34, { parse_flat(5, 10); parse_flat(5, 11); parse_flat(5, 12); parse_flat(5, 13); });
ans_parse_harness!(parse_flat_las5_t3, 34, { parse_flat(5, 14); parse_flat(5, 15); parse_flat(5, 16); parse_flat(5, 17); });
ans_parse_harness!(parse_flat_las5_t4, 34, { parse_flat(5, 18); parse_flat(5, 19); parse_flat(5, 20); parse_flat(5, 21); });
ans_parse_harness!(parse_flat_las5_t5, 34, { parse_flat(5, 22); parse_flat(5, 23); parse_flat(5, 24); parse_flat(5, 25); });
ans_parse_harness!(parse_flat_las5_t6, 34, { parse_flat(5, 26); parse_flat(5, 27); parse_flat(5, 28); parse_flat(5, 29); });
ans_parse_harness!(parse_flat_las5_t7, 34, { parse_flat(5, 30); parse_flat(5, 31); parse_flat_rejected(5, 256); });
ans_parse_harness!(parse_las6_samples, 66, {
    parse_flat(6, 5);
    parse_flat(6, 64);
    parse_binary(6, 40, 1, 77);
    parse_flat_rejected(6, 65);
});
ans_parse_harness!(parse_las7_samples, 130, {
    parse_flat(7, 5);
    parse_binary(7, 100, 127, 3000);
});
