// Contracts for crates/jxl-grid/src/mutable_subgrid.rs (child module: sees ptr/width/height/stride).
//
// Abstract view of a subgrid over a backing buffer `base[0..len]`:
//      Geo { off, w, h, stride }   with   grid.ptr == base + off   (element units)
//      cell(x, y) = off + y * stride + x                      for x < w, y < h
// Data-structure invariant (what `unsafe fn new` demands from its callers):
//      wf(geo, len):  h == 0  ?  off <= len  :  (w == 0 || w <= stride) && off + (h - 1) * stride + w <= len
//      i.e. every addressable element is an element of the buffer, rows do not overlap (and the row
//      origins of a zero-width grid stay inside the allocation, see in_alloc below).
// Every operation is specified from an ARBITRARY well-formed grid (not only from a fresh from_buf), so
// the per-operation contracts compose inductively over any nesting of subgrid / split / merge / groups:
//      * each returned grid has exactly the geometry the documentation promises (an exact mapping
//        child (x, y) -> parent (x0 + x, y0 + y)), hence lies inside its parent,
//      * the returned grids are pairwise disjoint and together cover the parent,
//      * wf holds for each of them, and every accessor of the child (get/get_mut/rows) is exercised at
//        a symbolic coordinate under CBMC's pointer checks; a write through the child changes exactly
//        the mapped buffer element and nothing else (observed at a symbolic buffer index).
// "*_rejects" / "*_guard" harnesses prove the guards: an operation RETURNS only for arguments inside
// the grid (otherwise it panics: documented API assertions, not C01 findings; these harnesses are
// expected to report the failing real-code assertion, which does not count against C02).
//
// Pointer arithmetic that leaves the allocation without being dereferenced (DESIGN 2.2): `ptr.add` in
// subgrid / split_* / into_groups_with_fixed_count on an EMPTY edge part can point past one-past-the-end
// (e.g. split_vertical(height) of a grid whose stride > width at the end of its buffer).  Kani reports
// that as safety_check "Offset result and original pointer must point to the same allocation"; it is
// never an access.  The obligations below therefore carry the harness precondition `formed pointers
// stay <= one-past-the-end` (in_alloc); `obs_ptr_add_leaves_allocation` reproduces the observation.
//
// Proof structure (modular, to keep each SAT problem small):
//   * lemma_* harnesses are pure arithmetic over Geo (no code under test): a sub-rectangle of a
//     well-formed grid is well-formed and maps (x, y) -> (x0 + x, y0 + y); cell() is injective on a
//     well-formed grid; the rectangles produced by split / groups partition the parent; merge of
//     adjacent well-formed grids is well-formed and is their union.  They enumerate the stride
//     concretely (0..=D::MAXV) so that every product is linear.
//   * the code harnesses establish, on the real code, that each returned grid has EXACTLY the
//     specified Geo (pointer and all fields), then `use_lemma!` the well-formedness of that Geo
//     (discharged by the lemma harness named at the use site, same value domain) and exercise every
//     accessor of the returned grid under CBMC's pointer checks.
// Bounded by D::MAXBUF (geometry) and D::MAXV (probe values: every dimension, coordinate, offset and stride
// is a 6-bit value; one-row grids with any usize stride are covered by ms_from_buf_*); complete over
// element values and everything else within the bound.
use super::*;
use std::ops::Bound;

pub(crate) trait Elem: Copy + kani::Arbitrary + 'static {
    fn same(self, o: Self) -> bool;
}
impl Elem for i16 {
    fn same(self, o: Self) -> bool {
        self == o
    }
}
impl Elem for f32 {
    fn same(self, o: Self) -> bool {
        self.to_bits() == o.to_bits()
    }
}

/// Value domain of a harness: backing buffer of at most D::MAXBUF elements; every dimension,
/// coordinate, offset and stride is a value 0..=D::MAXV (D::MAXV >= D::MAXBUF: includes out-of-range probes).
pub(crate) trait Dom: 'static {
    const MAXBUF: usize;
    const MAXV: usize;
    type Store<V: Elem>: Store<V>;
    fn small() -> usize {
        (kani::any::<u8>() as usize) & Self::MAXV
    }
    fn any_len() -> usize {
        let len = Self::small();
        kani::assume(len <= Self::MAXBUF);
        len
    }
}

/// Backing storage: a 32-byte aligned array of D::MAXBUF symbolic elements; the buffer handed to the
/// grid is its LAST `len` elements, so that an access past the end of the slice is an access past the
/// end of the object (CBMC's pointer_dereference check); an access before its start is excluded by the
/// ghost assertions (offsets are unsigned and every accessed address is asserted to be base + cell).
pub(crate) trait Store<V: Elem> {
    fn any() -> Self;
    fn all(&mut self) -> &mut [V];
    fn window(&mut self, len: usize) -> &mut [V] {
        let a = self.all();
        let n = a.len();
        &mut a[n - len..]
    }
}
#[repr(C, align(32))]
pub(crate) struct Store24<V>(pub [V; 24]);
#[repr(C, align(32))]
pub(crate) struct Store48<V>(pub [V; 48]);
impl<V: Elem> Store<V> for Store24<V> {
    fn any() -> Self {
        Store24(kani::any())
    }
    fn all(&mut self) -> &mut [V] {
        &mut self.0
    }
}
impl<V: Elem> Store<V> for Store48<V> {
    fn any() -> Self {
        Store48(kani::any())
    }
    fn all(&mut self) -> &mut [V] {
        &mut self.0
    }
}
/// quick tier: buffer <= 24 elements, 5-bit values
pub(crate) struct Q;
impl Dom for Q {
    const MAXBUF: usize = 24;
    const MAXV: usize = 31;
    type Store<V: Elem> = Store24<V>;
}
/// thorough tier: buffer <= 48 elements, 6-bit values
pub(crate) struct T;
impl Dom for T {
    const MAXBUF: usize = 48;
    const MAXV: usize = 63;
    type Store<V: Elem> = Store48<V>;
}

/// Use a fact proved by the named lemma harness (same value domain).
macro_rules! use_lemma {
    ($lemma:ident, $c:expr) => {{
        let _discharged_by = $lemma::<D>; // keeps the name checked by the compiler
        kani::assume($c);
    }};
}

#[derive(Clone, Copy, PartialEq, Eq)]
pub(crate) struct Geo {
    pub off: usize,
    pub w: usize,
    pub h: usize,
    pub stride: usize,
}

impl Geo {
    pub(crate) fn empty(&self) -> bool {
        self.w == 0 || self.h == 0
    }
    /// rows (even of a zero-width grid) start inside the buffer or one past its end; a grid without
    /// rows only needs its origin there
    pub(crate) fn wf(&self, len: usize) -> bool {
        if self.h == 0 {
            self.off <= len
        } else {
            (self.w == 0 || self.w <= self.stride) && self.off <= len && (self.h == 1 || self.stride <= len)
                && self.off + (self.h - 1) * self.stride + self.w <= len
        }
    }
    pub(crate) fn cell(&self, x: usize, y: usize) -> usize {
        self.off + y * self.stride + x
    }
    /// geometry of the child whose origin is parent element (x0, y0)
    pub(crate) fn sub(&self, x0: usize, y0: usize, w: usize, h: usize) -> Geo {
        Geo { off: self.cell(x0, y0), w, h, stride: self.stride }
    }
}

/// A symbolic well-formed geometry (6-bit values; wf bounds everything by D::MAXBUF except the stride of
/// a one-row grid, which ranges over 0..=D::MAXV here and over all of usize in ms_from_buf_*).
pub(crate) fn any_geo<D: Dom>(len: usize) -> Geo {
    let g = Geo { off: D::small(), w: D::small(), h: D::small(), stride: D::small() };
    kani::assume(g.w == 0 || g.w <= g.stride); // asserted by MutableSubgrid::new
    kani::assume(g.wf(len));
    g
}

fn geo_of<V>(g: &MutableSubgrid<'_, V>, base: *mut V, expect: &Geo) -> bool {
    g.ptr.as_ptr() == base.wrapping_add(expect.off) && g.width == expect.w && g.height == expect.h && g.stride == expect.stride
}

/// An arbitrary well-formed grid over the buffer (what any composition of the API can produce).
fn any_grid<'a, V: Elem, D: Dom>(buf: &'a mut [V]) -> (MutableSubgrid<'a, V>, Geo, *mut V, usize) {
    let len = buf.len();
    let base = buf.as_mut_ptr();
    let geo = any_geo::<D>(len);
    let mut g = unsafe { MutableSubgrid::new(NonNull::new(base.wrapping_add(geo.off)).unwrap(), geo.w, geo.h, geo.stride) };
    if kani::any() {
        g.split_base = Some(NonNull::new(base).unwrap().cast());
    }
    (g, geo, base, len)
}

/// Exercise every accessor of `g` at symbolic coordinates; `geo` is its expected abstract view.
/// Returns (wrote, via_row) so that callers can place their vacuity guards.
fn check_access<V: Elem, D: Dom>(g: &mut MutableSubgrid<'_, V>, geo: &Geo, base: *mut V, len: usize) -> (bool, bool) {
    assert!(geo_of(g, base, geo), "[C02] subgrid has exactly the specified geometry (exact child -> parent mapping)");
    assert!(g.width() == geo.w && g.height() == geo.h);
    let (x, y) = (D::small(), D::small());
    let inside = x < geo.w && y < geo.h;
    // an arbitrary buffer element, observed around the write (an empty buffer has none: then the grid is
    // empty, nothing is read or written, and `k` is never compared)
    let k = D::small();
    kani::assume(k < len || len == 0);
    let old_k: V = if len > 0 { unsafe { base.add(k).read() } } else { kani::any() };
    // shared accessors
    match g.try_get_ref(x, y) {
        Some(r) => {
            assert!(inside, "[C02] try_get_ref is Some only inside the grid");
            assert!(geo.cell(x, y) < len && std::ptr::eq(r, base.wrapping_add(geo.cell(x, y))),
                "[C02] element (x, y) is buffer element off + y * stride + x");
            let v = *r; // dereference under CBMC's pointer check
            assert!(g.get(x, y).same(v) && g.get_ref(x, y).same(v));
            if geo.cell(x, y) == k {
                assert!(v.same(old_k));
            }
        }
        None => assert!(!inside, "[C02] try_get_ref is None only outside the grid"),
    }
    match g.try_get_row(y) {
        Some(row) => {
            assert!(y < geo.h, "[C02] try_get_row is Some only for a row of the grid");
            assert!(row.len() == geo.w && row.as_ptr() == base.wrapping_add(geo.cell(0, y)) as *const V,
                "[C02] row y is the w elements starting at off + y * stride");
            let i = D::small();
            if i < row.len() {
                let v = row[i];
                assert!(geo.cell(i, y) < len, "[C02] row elements are buffer elements");
                if geo.cell(i, y) == k {
                    assert!(v.same(old_k));
                }
            }
        }
        None => assert!(y >= geo.h, "[C02] try_get_row is None only outside the grid"),
    }
    // exclusive accessors: a write changes exactly the mapped buffer element
    let val: V = kani::any();
    let via_row: bool = kani::any();
    let mut wrote = false;
    if via_row {
        if let Some(row) = g.try_get_row_mut(y) {
            assert!(y < geo.h && row.len() == geo.w && row.as_mut_ptr() == base.wrapping_add(geo.cell(0, y)),
                "[C02] mutable row y is the w elements starting at off + y * stride");
            if x < row.len() {
                row[x] = val;
                wrote = true;
            }
        } else {
            assert!(y >= geo.h);
        }
    } else {
        match g.try_get_mut(x, y) {
            Some(r) => {
                assert!(inside, "[C02] try_get_mut is Some only inside the grid");
                *r = val;
                wrote = true;
            }
            None => assert!(!inside),
        }
    }
    assert!(!wrote || len > 0, "[C02] nothing can be written through a grid over an empty buffer");
    let now_k: V = if len > 0 { unsafe { base.add(k).read() } } else { old_k };
    if wrote && geo.cell(x, y) == k {
        assert!(now_k.same(val), "[C02] a write through the subgrid lands on the mapped buffer element");
    } else {
        assert!(now_k.same(old_k), "[C02] a write through the subgrid changes no other buffer element");
    }
    (wrote, via_row)
}

/// vacuity guards for a harness in which the checked grid can be non-empty
fn cover_access(r: (bool, bool), relevant: bool) {
    kani::cover!(!relevant || (r.0 && r.1)); // a write through a mutable row happened
    kani::cover!(!relevant || (r.0 && !r.1)); // a write through get_mut happened
}

// ------------------------------------------------------------------------------------------------
// Lemmas: pure arithmetic over Geo, stride enumerated concretely
// ------------------------------------------------------------------------------------------------
fn any_geo_with_stride<D: Dom>(len: usize, stride: usize) -> Geo {
    let g = Geo { off: D::small(), w: D::small(), h: D::small(), stride };
    kani::assume(g.w == 0 || g.w <= g.stride);
    kani::assume(g.wf(len));
    g
}

/// A sub-rectangle (x0, y0, w, h) of a well-formed grid: well-formed (if not empty), element (x, y)
/// is parent element (x0 + x, y0 + y), which is inside the parent.
fn lemma_sub<D: Dom>() {
    let len = D::any_len();
    let (x0, y0, w, h, x, y) = (D::small(), D::small(), D::small(), D::small(), D::small(), D::small());
    let mut stride = 0;
    while stride <= D::MAXV {
        let p = any_geo_with_stride::<D>(len, stride);
        if x0 + w <= p.w && y0 + h <= p.h {
            let c = p.sub(x0, y0, w, h);
            assert!(c.empty() || c.wf(len), "[C02] lemma_sub: a non-empty sub-rectangle of a well-formed grid is well-formed");
            if x < w && y < h {
                assert!(x0 + x < p.w && y0 + y < p.h && c.cell(x, y) == p.cell(x0 + x, y0 + y) && c.cell(x, y) < len,
                    "[C02] lemma_sub: child (x, y) is parent (x0 + x, y0 + y), a buffer element");
            }
        }
        stride += 1;
    }
}

/// cell() is injective on a well-formed grid: distinct coordinates are distinct buffer elements.
/// Hence rectangles that are disjoint in parent coordinates are disjoint in memory.
fn lemma_injective<D: Dom>() {
    let len = D::any_len();
    let (x1, y1, x2, y2) = (D::small(), D::small(), D::small(), D::small());
    let mut stride = 0;
    while stride <= D::MAXV {
        let p = any_geo_with_stride::<D>(len, stride);
        if x1 < p.w && y1 < p.h && x2 < p.w && y2 < p.h && (x1 != x2 || y1 != y2) {
            assert!(p.cell(x1, y1) != p.cell(x2, y2), "[C02] lemma_injective: distinct coordinates of a well-formed grid are distinct buffer elements");
        }
        stride += 1;
    }
}

/// split at `at`: the two rectangles [0, at) and [at, ..) partition the parent's coordinates
/// (linear; with lemma_sub and lemma_injective: inside the parent, disjoint in memory, cover).
fn lemma_split_partition<D: Dom>() {
    let (pw, ph, at, px, py) = (D::small(), D::small(), D::small(), D::small(), D::small());
    let vertical: bool = kani::any();
    kani::assume(at <= if vertical { ph } else { pw });
    // rectangles in parent coordinates: (x0, y0, w, h)
    let (a, b) = if vertical { ((0, 0, pw, at), (0, at, pw, ph - at)) } else { ((0, 0, at, ph), (at, 0, pw - at, ph)) };
    let inside = |r: (usize, usize, usize, usize)| px >= r.0 && px - r.0 < r.2 && py >= r.1 && py - r.1 < r.3;
    assert!(a.0 + a.2 <= pw && a.1 + a.3 <= ph && b.0 + b.2 <= pw && b.1 + b.3 <= ph, "[C02] lemma_split: both parts are sub-rectangles of the parent");
    if px < pw && py < ph {
        assert!(inside(a) != inside(b), "[C02] lemma_split: every parent coordinate is in exactly one part");
    } else {
        assert!(!inside(a) && !inside(b));
    }
}

/// groups: rectangle (gx, gy) = [min(gx*gw, w), +min(gw, rest)) x [min(gy*gh, h), +min(gh, rest)):
/// sub-rectangles of the parent, pairwise disjoint in coordinates; (px / gw, py / gh) contains (px, py).
fn lemma_groups_partition<D: Dom>() {
    let (pw, ph, gw, gh) = (D::small(), D::small(), D::small(), D::small());
    kani::assume(gw >= 1 && gh >= 1);
    let rect = |gx: usize, gy: usize| {
        let (x0, y0) = ((gx * gw).min(pw), (gy * gh).min(ph));
        (x0, y0, (pw - x0).min(gw), (ph - y0).min(gh))
    };
    let (gx, gy, hx, hy, px, py) = (D::small(), D::small(), D::small(), D::small(), D::small(), D::small());
    let (a, b) = (rect(gx, gy), rect(hx, hy));
    let inside = |r: (usize, usize, usize, usize)| px >= r.0 && px - r.0 < r.2 && py >= r.1 && py - r.1 < r.3;
    assert!(a.0 + a.2 <= pw && a.1 + a.3 <= ph, "[C02] lemma_groups: every group is a sub-rectangle of the parent");
    if gx != hx || gy != hy {
        assert!(!(inside(a) && inside(b)), "[C02] lemma_groups: distinct groups share no coordinate");
    }
    if px < pw && py < ph {
        let (cx, cy) = (((px as u8) / (gw as u8)) as usize, ((py as u8) / (gh as u8)) as usize);
        let c = rect(cx, cy);
        assert!(inside(c) && px - c.0 == px - cx * gw && py - c.1 == py - cy * gh,
            "[C02] lemma_groups: (px, py) is element (px % gw, py % gh) of group (px / gw, py / gh)");
        assert!(cx < (pw as u8).div_ceil(gw as u8) as usize && cy < (ph as u8).div_ceil(gh as u8) as usize,
            "[C02] lemma_groups: ceil(w / gw) x ceil(h / gh) groups cover the parent");
    }
}

/// merge: adjacent well-formed grids give a well-formed grid that is exactly their union.
fn lemma_merge<D: Dom>() {
    let len = D::any_len();
    let vertical: bool = kani::any();
    let (x, y) = (D::small(), D::small());
    let mut stride = 0;
    while stride <= D::MAXV {
        let a = any_geo_with_stride::<D>(len, stride);
        let b = any_geo_with_stride::<D>(len, stride);
        let m = if vertical {
            kani::assume(a.w == b.w && b.off == a.cell(0, a.h));
            Geo { off: a.off, w: a.w, h: a.h + b.h, stride }
        } else {
            kani::assume(a.h == b.h && b.off == a.cell(a.w, 0) && a.w + b.w <= stride);
            Geo { off: a.off, w: a.w + b.w, h: a.h, stride }
        };
        assert!(m.wf(len), "[C02] lemma_merge: the union of adjacent well-formed grids is well-formed");
        if x < m.w && y < m.h {
            let expect = if vertical {
                if y < a.h { a.cell(x, y) } else { b.cell(x, y - a.h) }
            } else if x < a.w {
                a.cell(x, y)
            } else {
                b.cell(x - a.w, y)
            };
            assert!(m.cell(x, y) == expect, "[C02] lemma_merge: the merged grid is exactly the union of the two parts");
        }
        stride += 1;
    }
}

/// vector view of an f32 grid (4 lanes): origin, width and stride divisible by 4 => the grid of
/// vectors over len / 4 vector slots is well-formed and vector (x, y) is f32 elements (4x..4x+3, y).
fn lemma_vectored<D: Dom>() {
    let len = D::any_len();
    let pad = D::small(); // elements before the buffer inside the 16-byte aligned backing object
    kani::assume((pad + len) % 4 == 0);
    let (x, y) = (D::small(), D::small());
    let mut s4 = 0;
    while s4 <= D::MAXV / 4 {
        let g = any_geo_with_stride::<D>(len, s4 * 4);
        if (pad + g.off) % 4 == 0 && g.w % 4 == 0 && !g.empty() {
            // in vector units, relative to the aligned object start
            let v = Geo { off: (pad + g.off) / 4, w: g.w / 4, h: g.h, stride: s4 };
            assert!(v.wf((pad + len) / 4), "[C02] lemma_vectored: the vector grid is well-formed over the buffer in vector units");
            if x < v.w && y < v.h {
                assert!(v.cell(x, y) * 4 == pad + g.cell(4 * x, y) && g.cell(4 * x + 3, y) < len,
                    "[C02] lemma_vectored: the 4 lanes of vector (x, y) are f32 elements (4x..4x+3, y), all buffer elements");
            }
        }
        s4 += 1;
    }
}

// ------------------------------------------------------------------------------------------------
// from_buf / new / empty
// ------------------------------------------------------------------------------------------------
fn from_buf_ok<V: Elem, D: Dom>() {
    let mut data = <D::Store<V> as Store<V>>::any();
    let len = D::any_len();
    let buf = data.window(len);
    let base = buf.as_mut_ptr();
    let (w, h, s6) = (D::small(), D::small(), D::small());
    let big: usize = kani::any();
    let stride = if h <= 1 { big } else { s6 }; // one-row grids: any stride at all
    // documented precondition of from_buf
    kani::assume(w <= stride);
    if w == 0 || h == 0 {
        kani::assume(len == 0);
        kani::assume(h <= 1 || stride == 0); // in_alloc (header): row origins of a zero-width grid over an empty buffer
    } else {
        kani::assume(stride * (h - 1) + w <= len);
    }
    let mut g = MutableSubgrid::from_buf(buf, w, h, stride);
    assert!(g.split_base.is_none());
    let geo = Geo { off: 0, w, h, stride };
    assert!(geo.empty() || (geo.w <= geo.stride && (geo.h - 1) * geo.stride + geo.w <= len),
        "[C02] every addressable element of the grid is an element of the buffer, rows do not overlap");
    cover_access(check_access::<_, D>(&mut g, &geo, base, len), true);
    kani::cover!(h > 1 && w > 1 && stride > w && len == D::MAXBUF);
    kani::cover!(len == 0 && h > 0);
    kani::cover!(h == 1 && stride > D::MAXBUF);
    let e = MutableSubgrid::<V>::empty();
    assert!(e.width() == 0 && e.height() == 0 && e.try_get_ref(0, 0).is_none() && e.try_get_row(0).is_none(),
        "[C02] the empty grid has no addressable element");
}

/// from_buf returns only for geometries whose area is inside the buffer.
fn from_buf_rejects<V: Elem, D: Dom>() {
    let mut data = <D::Store<V> as Store<V>>::any();
    let len = D::any_len();
    let buf = data.window(len);
    let (w, h, stride) = (D::small(), D::small(), D::small());
    let g = MutableSubgrid::from_buf(buf, w, h, stride);
    assert!(g.width == w && g.height == h && g.stride == stride);
    assert!(w <= stride && (w == 0 || h == 0 || stride * (h - 1) + w <= len),
        "[C02] from_buf accepts only a geometry whose area lies inside the buffer");
}

// ------------------------------------------------------------------------------------------------
// subgrid(range_x, range_y)
// ------------------------------------------------------------------------------------------------
fn any_bound<D: Dom>() -> Bound<usize> {
    let v = D::small();
    match kani::any::<u8>() % 3 {
        0 => Bound::Included(v),
        1 => Bound::Excluded(v),
        _ => Bound::Unbounded,
    }
}

fn start_of(b: &Bound<usize>) -> usize {
    match b {
        Bound::Included(v) => *v,
        Bound::Excluded(v) => *v + 1,
        Bound::Unbounded => 0,
    }
}

fn end_of(b: &Bound<usize>, full: usize) -> usize {
    match b {
        Bound::Included(v) => *v + 1,
        Bound::Excluded(v) => *v,
        Bound::Unbounded => full,
    }
}

fn subgrid_ok<V: Elem, D: Dom>() {
    let mut data = <D::Store<V> as Store<V>>::any();
    let (g, geo, base, len) = any_grid::<_, D>(data.window(D::any_len()));
    let (xs, xe, ys, ye) = (any_bound::<D>(), any_bound::<D>(), any_bound::<D>(), any_bound::<D>());
    let (left, right, top, bottom) = (start_of(&xs), end_of(&xe, geo.w), start_of(&ys), end_of(&ye, geo.h));
    // documented precondition: the range is inside the grid
    kani::assume(left <= right && right <= geo.w && top <= bottom && bottom <= geo.h);
    // the specified result: the sub-rectangle (left, top, right - left, bottom - top) -- inside the parent by lemma_sub
    let cgeo = geo.sub(left, top, right - left, bottom - top);
    kani::assume(cgeo.off <= len); // in_alloc, see header (only restricts empty results)
    use_lemma!(lemma_sub, cgeo.empty() || cgeo.wf(len));
    let mut c = g.subgrid((xs, xe), (ys, ye));
    assert!(c.split_base.is_none());
    cover_access(check_access::<_, D>(&mut c, &cgeo, base, len), true);
    kani::cover!(cgeo.w > 0 && cgeo.h > 1 && left > 0 && top > 0);
    kani::cover!(cgeo.w == 0);
    kani::cover!(cgeo.h == 0);
    kani::cover!(matches!(xs, Bound::Excluded(_)) && matches!(ye, Bound::Included(_)) && !cgeo.empty());
}

fn subgrid_rejects<V: Elem, D: Dom>() {
    let mut data = <D::Store<V> as Store<V>>::any();
    let (g, geo, _base, _len) = any_grid::<_, D>(data.window(D::any_len()));
    let (xs, xe, ys, ye) = (any_bound::<D>(), any_bound::<D>(), any_bound::<D>(), any_bound::<D>());
    let (left, right, top, bottom) = (start_of(&xs), end_of(&xe, geo.w), start_of(&ys), end_of(&ye, geo.h));
    let c = g.subgrid((xs, xe), (ys, ye));
    assert!(left <= right && right <= geo.w && top <= bottom && bottom <= geo.h,
        "[C02] subgrid accepts only ranges inside the grid");
    assert!(c.width == right - left && c.height == bottom - top);
}

// ------------------------------------------------------------------------------------------------
// split_horizontal / split_vertical (borrowing and in place)
// ------------------------------------------------------------------------------------------------
fn split_ok<V: Elem, D: Dom>(vertical: bool, in_place: bool) {
    let mut data = <D::Store<V> as Store<V>>::any();
    let (mut g, geo, base, len) = any_grid::<_, D>(data.window(D::any_len()));
    let at = D::small();
    // documented precondition
    kani::assume(at <= if vertical { geo.h } else { geo.w });
    let expect_base = g.split_base.unwrap_or(g.ptr.cast());
    // the specified result: the two rectangles of lemma_split_partition (inside the parent, disjoint, covering)
    let (ageo, bgeo) = if vertical {
        (geo.sub(0, 0, geo.w, at), geo.sub(0, at, geo.w, geo.h - at))
    } else {
        (geo.sub(0, 0, at, geo.h), geo.sub(at, 0, geo.w - at, geo.h))
    };
    kani::assume(bgeo.off <= len); // in_alloc, see header (only restricts an empty second part)
    use_lemma!(lemma_sub, (ageo.empty() || ageo.wf(len)) && (bgeo.empty() || bgeo.wf(len)));
    let first: bool = kani::any();
    let cgeo = if first { ageo } else { bgeo };
    if in_place {
        let mut b = if vertical { g.split_vertical_in_place(at) } else { g.split_horizontal_in_place(at) };
        assert!(g.split_base == Some(expect_base) && b.split_base == Some(expect_base), "[C02] both parts remember the split base");
        assert!(geo_of(&g, base, &ageo) && geo_of(&b, base, &bgeo), "[C02] split parts have exactly the specified geometry");
        let c = if first { &mut g } else { &mut b };
        cover_access(check_access::<_, D>(c, &cgeo, base, len), true);
    } else {
        let (mut a, mut b) = if vertical { g.split_vertical(at) } else { g.split_horizontal(at) };
        assert!(a.split_base == Some(expect_base) && b.split_base == Some(expect_base), "[C02] both parts remember the split base");
        assert!(geo_of(&a, base, &ageo) && geo_of(&b, base, &bgeo), "[C02] split parts have exactly the specified geometry");
        let c = if first { &mut a } else { &mut b };
        cover_access(check_access::<_, D>(c, &cgeo, base, len), true);
    }
    kani::cover!(at > 0 && !ageo.empty() && !bgeo.empty() && bgeo.h > 1 && first);
    kani::cover!(at > 0 && !ageo.empty() && !bgeo.empty() && bgeo.h > 1 && !first);
    kani::cover!(at == 0);
    kani::cover!(bgeo.empty() && !geo.empty());
}

fn split_rejects<V: Elem, D: Dom>() {
    let mut data = <D::Store<V> as Store<V>>::any();
    let (mut g, geo, _base, _len) = any_grid::<_, D>(data.window(D::any_len()));
    let at = D::small();
    match kani::any::<u8>() % 4 {
        0 => {
            let _ = g.split_horizontal(at);
            assert!(at <= geo.w, "[C02] split_horizontal accepts only x <= width");
        }
        1 => {
            let _ = g.split_horizontal_in_place(at);
            assert!(at <= geo.w, "[C02] split_horizontal_in_place accepts only x <= width");
        }
        2 => {
            let _ = g.split_vertical(at);
            assert!(at <= geo.h, "[C02] split_vertical accepts only y <= height");
        }
        _ => {
            let _ = g.split_vertical_in_place(at);
            assert!(at <= geo.h, "[C02] split_vertical_in_place accepts only y <= height");
        }
    }
}

// ------------------------------------------------------------------------------------------------
// merge_horizontal_in_place / merge_vertical_in_place
// ------------------------------------------------------------------------------------------------
/// merge undoes split: the merged grid is the original one.
fn merge_ok<V: Elem, D: Dom>(vertical: bool) {
    let mut data = <D::Store<V> as Store<V>>::any();
    let (mut g, geo, base, len) = any_grid::<_, D>(data.window(D::any_len()));
    let at = D::small();
    kani::assume(at <= if vertical { geo.h } else { geo.w });
    let bgeo = if vertical { geo.sub(0, at, geo.w, geo.h - at) } else { geo.sub(at, 0, geo.w - at, geo.h) };
    kani::assume(bgeo.off <= len); // in_alloc
    if vertical {
        let b = g.split_vertical_in_place(at);
        g.merge_vertical_in_place(b);
    } else {
        let b = g.split_horizontal_in_place(at);
        g.merge_horizontal_in_place(b);
    }
    cover_access(check_access::<_, D>(&mut g, &geo, base, len), true);
    kani::cover!(at > 0 && !geo.empty() && geo.h > 1 && at < if vertical { geo.h } else { geo.w });
}

/// The guard: for ANY two well-formed grids (any split_base), merge returns only if the second is
/// exactly the right/bottom neighbour; then the result is the Geo of lemma_merge (exactly the union).
fn merge_guard<V: Elem, D: Dom>(vertical: bool) {
    let mut data = <D::Store<V> as Store<V>>::any();
    let len = D::any_len();
    let buf = data.window(len);
    let base = buf.as_mut_ptr();
    let (ag, bg) = (any_geo::<D>(len), any_geo::<D>(len));
    let mk = |geo: &Geo| {
        let mut g = unsafe { MutableSubgrid::<V>::new(NonNull::new(base.wrapping_add(geo.off)).unwrap(), geo.w, geo.h, geo.stride) };
        g.split_base = match kani::any::<u8>() % 3 {
            0 => None,
            1 => Some(NonNull::new(base).unwrap().cast()),
            _ => Some(NonNull::new(base.wrapping_add(1)).unwrap().cast()),
        };
        g
    };
    let mut a = mk(&ag);
    let b = mk(&bg);
    let m = if vertical {
        kani::assume(ag.cell(0, ag.h) <= len); // in_alloc: the guard itself computes this pointer
        a.merge_vertical_in_place(b);
        assert!(ag.stride == bg.stride && ag.w == bg.w && bg.off == ag.cell(0, ag.h),
            "[C02] merge_vertical accepts only the bottom neighbour (same stride, same width, adjacent)");
        Geo { off: ag.off, w: ag.w, h: ag.h + bg.h, stride: ag.stride }
    } else {
        kani::assume(ag.cell(ag.w, 0) <= len); // in_alloc
        a.merge_horizontal_in_place(b);
        assert!(ag.stride == bg.stride && ag.h == bg.h && bg.off == ag.cell(ag.w, 0) && ag.w + bg.w <= ag.stride,
            "[C02] merge_horizontal accepts only the right neighbour (same stride, same height, adjacent, rows still fit the stride)");
        Geo { off: ag.off, w: ag.w + bg.w, h: ag.h, stride: ag.stride }
    };
    use_lemma!(lemma_merge, m.empty() || m.wf(len));
    cover_access(check_access::<_, D>(&mut a, &m, base, len), true);
    kani::cover!(!ag.empty() && !bg.empty() && ag.h > 1);
}

// ------------------------------------------------------------------------------------------------
// into_groups / into_groups_with_fixed_count
// ------------------------------------------------------------------------------------------------
// Measured limits: a symbolic group count makes Vec::with_capacity / push explode (CBMC out of memory
// at 4 x 4), and into_groups divides by the symbolic group size (64-bit divider: does not close).
// Therefore: into_groups_with_fixed_count is proved for CONCRETE counts COLS x ROWS (several
// instantiations) over symbolic geometry and symbolic group sizes (including 0 and sizes larger than
// the grid); into_groups is proved for CONCRETE (width, height, group width, group height) tuples over
// symbolic origin, stride, buffer and contents; lemma_groups_partition connects the two (the counts
// ceil(w/gw) x ceil(h/gh) cover the parent).

/// the specified geometry of group (gx, gy): the rectangle clamped to the parent
fn group_geo(geo: &Geo, gw: usize, gh: usize, gx: usize, gy: usize) -> Geo {
    let (x0, y0) = ((gx * gw).min(geo.w), (gy * gh).min(geo.h));
    geo.sub(x0, y0, (geo.w - x0).min(gw), (geo.h - y0).min(gh))
}

fn check_groups<V: Elem, D: Dom>(groups: &mut Vec<MutableSubgrid<'_, V>>, geo: &Geo, base: *mut V, len: usize,
                                 gw: usize, gh: usize, num_cols: usize, num_rows: usize, expect_base: NonNull<()>, concrete_dims: bool) {
    assert!(groups.len() == num_cols * num_rows, "[C02] one group per cell of the group grid, row-first");
    // any group: exactly the rectangle of lemma_groups_partition (inside the parent, pairwise disjoint, covering)
    let (gx, gy) = (D::small(), D::small());
    let mut wrote = (false, false);
    let mut nonempty_far = false;
    let mut truncated = false;
    if gx < num_cols && gy < num_rows {
        let cgeo = group_geo(geo, gw, gh, gx, gy);
        use_lemma!(lemma_sub, cgeo.empty() || cgeo.wf(len));
        let grp = &mut groups[gy * num_cols + gx];
        assert!(grp.split_base == Some(expect_base), "[C02] groups remember the split base");
        let r = check_access::<_, D>(grp, &cgeo, base, len);
        wrote = r;
        nonempty_far = !cgeo.empty() && (gx > 0 || num_cols < 2) && (gy > 0 || num_rows < 2);
        truncated = !cgeo.empty() && (cgeo.w < gw || cgeo.h < gh); // truncated edge group
    }
    let relevant = num_cols > 0 && num_rows > 0 && (geo.w > 0 || !concrete_dims);
    cover_access(wrote, relevant);
    kani::cover!(!relevant || nonempty_far);
    kani::cover!(!relevant || truncated || (concrete_dims && geo.w % gw.max(1) == 0 && geo.h % gh.max(1) == 0));
}

fn groups_fixed_ok<V: Elem, D: Dom, const COLS: usize, const ROWS: usize>() {
    let mut data = <D::Store<V> as Store<V>>::any();
    let (g, geo, base, len) = any_grid::<_, D>(data.window(D::any_len()));
    let (gw, gh) = (D::small(), D::small());
    let expect_base = g.split_base.unwrap_or(g.ptr.cast());
    // in_alloc (see header): the origin of the last row / column of groups is formed with ptr.add
    if ROWS > 0 {
        let ymax = ((ROWS - 1) * gh).min(geo.h);
        let xmax = if COLS > 0 { ((COLS - 1) * gw).min(geo.w) } else { 0 };
        kani::assume(geo.cell(xmax, ymax) <= len);
    }
    let mut groups = g.into_groups_with_fixed_count(gw, gh, COLS, ROWS);
    check_groups::<V, D>(&mut groups, &geo, base, len, gw, gh, COLS, ROWS, expect_base, false);
    kani::cover!(gw == 0 && geo.w > 0 && geo.h > 0);
    kani::cover!(COLS == 0 || ROWS == 0 || (COLS * gw < geo.w && ROWS * gh < geo.h)); // truncated: the groups do not reach the far edges
    kani::cover!(COLS < 2 || (gw >= geo.w && !geo.empty())); // groups out of range are empty
}

fn groups_ok<V: Elem, D: Dom, const W: usize, const H: usize, const GW: usize, const GH: usize>() {
    let mut data = <D::Store<V> as Store<V>>::any();
    let buf = data.window(D::any_len());
    let len = buf.len();
    let base = buf.as_mut_ptr();
    let geo = Geo { off: D::small(), w: W, h: H, stride: D::small() };
    kani::assume((W == 0 || W <= geo.stride) && geo.wf(len));
    let mut g = unsafe { MutableSubgrid::new(NonNull::new(base.wrapping_add(geo.off)).unwrap(), geo.w, geo.h, geo.stride) };
    if kani::any() {
        g.split_base = Some(NonNull::new(base).unwrap().cast());
    }
    let expect_base = g.split_base.unwrap_or(g.ptr.cast());
    let mut groups = g.into_groups(GW, GH);
    check_groups::<V, D>(&mut groups, &geo, base, len, GW, GH, W.div_ceil(GW), H.div_ceil(GH), expect_base, true);
}

fn groups_rejects<V: Elem, D: Dom, const GW: usize, const GH: usize>() {
    let mut data = <D::Store<V> as Store<V>>::any();
    let (g, _geo, _base, _len) = any_grid::<_, D>(data.window(D::any_len()));
    let _ = g.into_groups(GW, GH);
    assert!(false, "[C02] into_groups must reject a zero group size (no division by zero)");
}

// ------------------------------------------------------------------------------------------------
// swap
// ------------------------------------------------------------------------------------------------
fn swap_ok<V: Elem, D: Dom>() {
    let mut data = <D::Store<V> as Store<V>>::any();
    let (mut g, geo, base, len) = any_grid::<_, D>(data.window(D::any_len()));
    let (ax, ay, bx, by) = (D::small(), D::small(), D::small(), D::small());
    kani::assume(ax < geo.w && ay < geo.h && bx < geo.w && by < geo.h); // documented precondition
    let (ia, ib) = (geo.cell(ax, ay), geo.cell(bx, by));
    assert!(ia < len && ib < len, "[C02] swapped elements are buffer elements");
    let k = D::small();
    kani::assume(k < len);
    let (old_a, old_b, old_k) = unsafe { (base.add(ia).read(), base.add(ib).read(), base.add(k).read()) };
    g.swap((ax, ay), (bx, by));
    let (now_a, now_b, now_k) = unsafe { (base.add(ia).read(), base.add(ib).read(), base.add(k).read()) };
    assert!(now_a.same(old_b) && now_b.same(old_a), "[C02] swap exchanges exactly the two mapped elements");
    if k != ia && k != ib {
        assert!(now_k.same(old_k), "[C02] swap changes no other buffer element");
    }
    kani::cover!(ia != ib && ay != by);
    kani::cover!(ia == ib);
}

fn swap_rejects<V: Elem, D: Dom>() {
    let mut data = <D::Store<V> as Store<V>>::any();
    let (mut g, geo, _base, _len) = any_grid::<_, D>(data.window(D::any_len()));
    let (ax, ay, bx, by) = (D::small(), D::small(), D::small(), D::small());
    g.swap((ax, ay), (bx, by));
    assert!(ax < geo.w && ay < geo.h && bx < geo.w && by < geo.h, "[C02] swap accepts only coordinates inside the grid");
}

// ------------------------------------------------------------------------------------------------
// borrow_mut / as_shared / into_i32 / as_vectored
// ------------------------------------------------------------------------------------------------
fn reborrow_ok<V: Elem, D: Dom>() {
    let mut data = <D::Store<V> as Store<V>>::any();
    let (mut g, geo, base, len) = any_grid::<_, D>(data.window(D::any_len()));
    if kani::any() {
        let mut r = g.borrow_mut();
        assert!(r.split_base.is_none());
        cover_access(check_access::<_, D>(&mut r, &geo, base, len), true);
        return;
    }
    let s = g.as_shared();
    assert!(s.width() == geo.w && s.height() == geo.h);
    let (x, y) = (D::small(), D::small());
    match s.try_get_ref(x, y) {
        Some(r) => {
            assert!(x < geo.w && y < geo.h && geo.cell(x, y) < len && std::ptr::eq(r, base.wrapping_add(geo.cell(x, y))),
                "[C02] as_shared views the same elements");
            let _v = *r;
        }
        None => assert!(!(x < geo.w && y < geo.h)),
    }
    match s.try_get_row(y) {
        Some(row) => {
            assert!(y < geo.h && row.len() == geo.w && row.as_ptr() == base.wrapping_add(geo.cell(0, y)) as *const V,
                "[C02] as_shared rows are the same rows");
            let i = D::small();
            if i < row.len() {
                let _v = row[i];
            }
        }
        None => assert!(y >= geo.h),
    }
}

fn into_i32_ok<D: Dom>() {
    let mut data = <D::Store<f32> as Store<f32>>::any();
    let (g, geo, base, len) = any_grid::<_, D>(data.window(D::any_len()));
    let (x, y) = (D::small(), D::small());
    let before = g.try_get_ref(x, y).map(|v| v.to_bits());
    let mut gi = g.into_i32();
    assert!(gi.ptr.as_ptr() == base.wrapping_add(geo.off) as *mut i32 && gi.width == geo.w && gi.height == geo.h && gi.stride == geo.stride,
        "[C02] into_i32 keeps the geometry");
    match gi.try_get_mut(x, y) {
        Some(r) => {
            assert!(geo.cell(x, y) < len && std::ptr::eq(r as *const i32, base.wrapping_add(geo.cell(x, y)) as *const i32));
            assert!(before == Some(*r as u32), "[C02] into_i32 reinterprets the same element");
            *r = kani::any();
        }
        None => assert!(before.is_none()),
    }
    if let Some(row) = gi.try_get_row(y) {
        assert!(row.len() == geo.w);
        let i = D::small();
        if i < row.len() {
            let _v = row[i];
        }
    }
}

#[cfg(target_arch = "x86_64")]
fn as_vectored_ok<D: Dom>() {
    use std::arch::x86_64::__m128;
    let mut data = <D::Store<f32> as Store<f32>>::any();
    let (mut g, geo, base, len) = any_grid::<_, D>(data.window(D::any_len()));
    let split_base = g.split_base;
    // the backing array is 32-byte aligned and D::MAXBUF % 4 == 0: the element index decides alignment
    let aligned = (D::MAXBUF - len + geo.off) % 4 == 0;
    match g.as_vectored::<__m128>() {
        Some(mut v) => {
            assert!(aligned && geo.w % 4 == 0 && geo.stride % 4 == 0, "[C02] as_vectored is Some only for an aligned, lane-multiple geometry");
            assert!(v.ptr.as_ptr() == base.wrapping_add(geo.off) as *mut __m128 && v.width == geo.w / 4 && v.height == geo.h
                && v.stride == geo.stride / 4 && v.split_base == split_base, "[C02] vector view: same origin, width and stride in vectors");
            // lemma_vectored: vector (x, y) is f32 elements (4x .. 4x+3, y) of the grid, all inside the buffer
            let (x, y) = (D::small(), D::small());
            use_lemma!(lemma_vectored, !(x < geo.w / 4 && y < geo.h) || geo.cell(4 * x + 3, y) < len);
            match v.try_get_mut(x, y) {
                Some(r) => {
                    assert!(x < geo.w / 4 && y < geo.h);
                    assert!(std::ptr::eq(r as *const __m128 as *const f32, base.wrapping_add(geo.cell(4 * x, y)) as *const f32),
                        "[C02] vector element (x, y) starts at f32 element (4x, y)");
                    let lanes: [f32; 4] = unsafe { std::mem::transmute(*r) }; // 16-byte read under CBMC's pointer check
                    let first = unsafe { base.add(geo.cell(4 * x, y)).read() };
                    assert!(lanes[0].to_bits() == first.to_bits());
                    *r = unsafe { std::mem::transmute([0f32; 4]) }; // 16-byte write under CBMC's pointer check
                }
                None => assert!(!(x < geo.w / 4 && y < geo.h)),
            }
            if let Some(row) = v.try_get_row_mut(y) {
                assert!(row.len() == geo.w / 4 && row.as_mut_ptr() as *mut f32 == base.wrapping_add(geo.cell(0, y)));
                let i = D::small();
                if i < row.len() {
                    let _lanes: [f32; 4] = unsafe { std::mem::transmute(row[i]) };
                }
            }
            kani::cover!(geo.w >= 4 && geo.h >= 2);
        }
        None => assert!(!(aligned && geo.w % 4 == 0 && geo.stride % 4 == 0), "[C02] as_vectored is None only for a misaligned geometry"),
    }
}

// ------------------------------------------------------------------------------------------------
// observation (DESIGN 2.2), not an obligation: ptr.add that leaves the allocation, never dereferenced
// ------------------------------------------------------------------------------------------------
#[kani::proof]
fn obs_ptr_add_leaves_allocation() {
    // 2 x 2 grid with stride 3 at the end of a 5-element buffer: split_vertical(2) computes
    // ptr.add(2 * 3) = one element past one-past-the-end for the (empty) bottom part.
    let mut buf = [0i16; 5];
    let mut g = MutableSubgrid::from_buf(&mut buf, 2, 2, 3);
    let (top, bottom) = g.split_vertical(2);
    assert!(top.height() == 2 && bottom.height() == 0);
}

macro_rules! instantiate {
    ($unwind:literal: $($name:ident = $body:expr;)*) => {$(
        #[kani::proof]
        #[kani::unwind($unwind)]
        fn $name() {
            $body
        }
    )*};
}

// quick tier: buffer <= 24 elements, 5-bit values, i16 (f32 for the f32-only API)
instantiate! { 6:
    ms_from_buf_q = from_buf_ok::<i16, Q>();
    ms_from_buf_rejects = from_buf_rejects::<i16, Q>();
    ms_subgrid_q = subgrid_ok::<i16, Q>();
    ms_subgrid_rejects = subgrid_rejects::<i16, Q>();
    ms_split_h_q = split_ok::<i16, Q>(false, false);
    ms_split_v_q = split_ok::<i16, Q>(true, false);
    ms_split_h_in_place_q = split_ok::<i16, Q>(false, true);
    ms_split_v_in_place_q = split_ok::<i16, Q>(true, true);
    ms_split_rejects = split_rejects::<i16, Q>();
    ms_merge_h_q = merge_ok::<i16, Q>(false);
    ms_merge_v_q = merge_ok::<i16, Q>(true);
    ms_merge_h_guard = merge_guard::<i16, Q>(false);
    ms_merge_v_guard = merge_guard::<i16, Q>(true);
    ms_groups_5x3_by_2x2_q = groups_ok::<i16, Q, 5, 3, 2, 2>();
    ms_groups_3x2_by_8x8_q = groups_ok::<i16, Q, 3, 2, 8, 8>();
    ms_groups_4x3_by_1x2_q = groups_ok::<i16, Q, 4, 3, 1, 2>();
    ms_groups_0x3_by_2x2_q = groups_ok::<i16, Q, 0, 3, 2, 2>();
    ms_groups_fixed_2x2_q = groups_fixed_ok::<i16, Q, 2, 2>();
    ms_groups_fixed_3x2_q = groups_fixed_ok::<i16, Q, 3, 2>();
    ms_groups_fixed_1x3_q = groups_fixed_ok::<i16, Q, 1, 3>();
    ms_groups_rejects_w = groups_rejects::<i16, Q, 0, 3>();
    ms_groups_rejects_h = groups_rejects::<i16, Q, 2, 0>();
    ms_swap_q = swap_ok::<i16, Q>();
    ms_swap_rejects = swap_rejects::<i16, Q>();
    ms_reborrow_q = reborrow_ok::<i16, Q>();
    ms_into_i32_q = into_i32_ok::<Q>();
    ms_as_vectored_q = as_vectored_ok::<Q>();
    lemma_split_partition_q = lemma_split_partition::<Q>();
    lemma_groups_partition_q = lemma_groups_partition::<Q>();
    lemma_split_partition_t = lemma_split_partition::<T>();
    lemma_groups_partition_t = lemma_groups_partition::<T>();
}
instantiate! { 34:
    lemma_sub_q = lemma_sub::<Q>();
    lemma_injective_q = lemma_injective::<Q>();
    lemma_merge_q = lemma_merge::<Q>();
    lemma_vectored_q = lemma_vectored::<Q>();
}
// 48-element / 6-bit instantiations, i16 and f32: NOT registered -- not measured in the time available
// (lemma_sub_t / lemma_merge_t took 593 s / 325 s when measured alone on a loaded machine)
instantiate! { 6:
    ms_from_buf_i16 = from_buf_ok::<i16, T>();
    ms_from_buf_f32 = from_buf_ok::<f32, T>();
    ms_subgrid_i16 = subgrid_ok::<i16, T>();
    ms_subgrid_f32 = subgrid_ok::<f32, T>();
    ms_split_h_i16 = split_ok::<i16, T>(false, false);
    ms_split_h_f32 = split_ok::<f32, T>(false, false);
    ms_split_v_i16 = split_ok::<i16, T>(true, false);
    ms_split_v_f32 = split_ok::<f32, T>(true, false);
    ms_split_h_in_place_i16 = split_ok::<i16, T>(false, true);
    ms_split_h_in_place_f32 = split_ok::<f32, T>(false, true);
    ms_split_v_in_place_i16 = split_ok::<i16, T>(true, true);
    ms_split_v_in_place_f32 = split_ok::<f32, T>(true, true);
    ms_merge_h_i16 = merge_ok::<i16, T>(false);
    ms_merge_h_f32 = merge_ok::<f32, T>(false);
    ms_merge_v_i16 = merge_ok::<i16, T>(true);
    ms_merge_v_f32 = merge_ok::<f32, T>(true);
    ms_merge_h_guard_t = merge_guard::<f32, T>(false);
    ms_merge_v_guard_t = merge_guard::<f32, T>(true);
    ms_groups_7x5_by_3x2_f32 = groups_ok::<f32, T, 7, 5, 3, 2>();
    ms_groups_9x4_by_4x4_i16 = groups_ok::<i16, T, 9, 4, 4, 4>();
    ms_groups_fixed_2x2_f32 = groups_fixed_ok::<f32, T, 2, 2>();
    ms_groups_fixed_3x3_i16 = groups_fixed_ok::<i16, T, 3, 3>();
    ms_groups_fixed_4x2_f32 = groups_fixed_ok::<f32, T, 4, 2>();
    ms_groups_fixed_0x2_i16 = groups_fixed_ok::<i16, T, 0, 2>();
    ms_groups_fixed_2x0_i16 = groups_fixed_ok::<i16, T, 2, 0>();
    ms_swap_i16 = swap_ok::<i16, T>();
    ms_swap_f32 = swap_ok::<f32, T>();
    ms_reborrow_i16 = reborrow_ok::<i16, T>();
    ms_reborrow_f32 = reborrow_ok::<f32, T>();
    ms_into_i32_t = into_i32_ok::<T>();
    ms_as_vectored_t = as_vectored_ok::<T>();
}
instantiate! { 66:
    lemma_sub_t = lemma_sub::<T>();
    lemma_injective_t = lemma_injective::<T>();
    lemma_merge_t = lemma_merge::<T>();
    lemma_vectored_t = lemma_vectored::<T>();
}
