// Contracts for crates/jxl-grid/src/lib.rs: AlignedGrid as an owner of tracked memory (C13) and its
// index arithmetic (C02).  Child module of the crate root: sees AlignedGrid's private fields, but NOT
// AllocTracker's (bytes_left / handle.bytes live in mod alloc_tracker), so the budget is observed
// through the public API only:   left(t) == v   <=>   shrink_limit(v) is Ok and then shrink_limit(1) is Err
// (shrink_limit's contract: gr.shrink_limit).
//
// C13 contract of every owner in this crate (with_alloc_tracker, try_clone; clone_untracked is the
// explicit opt-out):
//   buf_len = width * height + 31 / size_of::<S>()      (room for aligning the first sample to 32 bytes)
//   bytes   = buf_len * size_of::<S>()                  == capacity of the Vec in bytes: the real allocation
//   Ok(grid)  => exactly `bytes` were taken from the tracker (one handle), they come back when the grid is dropped;
//                without a tracker nothing is recorded
//   Err(e)    => the budget is unchanged, budget < bytes, e.bytes() == bytes, nothing is allocated
// Preconditions: width * height and buf_len * size_of::<S>() do not overflow (frame dimension limits,
// see alloc_tracker.rs header); bounded here to tiny dimensions because the buffer is really allocated.
use super::*;

const MAXDIM: usize = 3;

/// left(t) == v, observed through the public API; leaves the tracker with 0 bytes left.
fn drain_exactly(t: &AllocTracker, v: usize) -> bool {
    t.shrink_limit(v).is_ok() && t.shrink_limit(1).is_err()
}

/// Dimensions: symbolic (<= MAXDIM, thorough tier: a Vec of symbolic length is expensive for CBMC) when
/// W == usize::MAX, otherwise the concrete W x H.
fn dims<const W: usize, const H: usize>() -> (usize, usize) {
    if W == usize::MAX {
        let (w, h) = ((kani::any::<u8>() & 3) as usize, (kani::any::<u8>() & 3) as usize);
        kani::assume(w <= MAXDIM && h <= MAXDIM);
        (w, h)
    } else {
        (W, H)
    }
}
const SYM: usize = usize::MAX;

fn buf_bytes<S>(w: usize, h: usize) -> usize {
    (w * h + 31 / std::mem::size_of::<S>()) * std::mem::size_of::<S>()
}

/// The AlignedGrid invariant established by with_alloc_tracker / empty_aligned + extend (gr.ag.with_tracker_*,
/// gr.ag.try_clone_*) and relied upon by every accessor.
fn inv<S>(g: &AlignedGrid<S>) -> bool {
    g.buf.len() == g.width * g.height + g.offset && g.offset <= 31 / std::mem::size_of::<S>()
}

/// A grid in the state with_alloc_tracker leaves it in (see `inv`), built field by field so that the
/// Vec has a concrete length (a Vec of symbolic length exhausts CBMC's memory in the callers below).
fn grid_literal<S: Sample, const W: usize, const H: usize, const OFF: usize>(handle: Option<AllocHandle>) -> AlignedGrid<S> {
    let n = W * H + OFF;
    let mut buf = Vec::with_capacity(W * H + 31 / std::mem::size_of::<S>());
    let mut i = 0;
    while i < n {
        buf.push(kani::any());
        i += 1;
    }
    let g = AlignedGrid { width: W, height: H, offset: OFF, buf, handle };
    assert!(inv(&g));
    g
}

trait Sample: Default + Clone + Copy + PartialEq + kani::Arbitrary {}
impl Sample for i16 {}
impl Sample for i32 {}

// ------------------------------------------------------------------------------------------------
// with_alloc_tracker
// ------------------------------------------------------------------------------------------------
fn with_tracker_contract<S: Sample, const W: usize, const H: usize>() {
    let (w, h) = dims::<W, H>();
    let bytes = buf_bytes::<S>(w, h);
    let budget: usize = kani::any();
    let t = AllocTracker::with_limit(budget);
    let r = AlignedGrid::<S>::with_alloc_tracker(w, h, Some(&t));
    let after_drop: usize;
    match r {
        Ok(grid) => {
            assert!(budget >= bytes, "[C13] a grid is created only within the budget");
            assert!(grid.handle.is_some() && grid.tracker().is_some(), "[C13] a tracked grid carries its handle for its lifetime");
            assert!(grid.width() == w && grid.height() == h && grid.buf().len() == w * h, "[C02] the grid has width * height samples");
            assert!(inv(&grid), "[C02] AlignedGrid invariant: buf.len() == width * height + offset, offset < 32 / size_of::<S>()");
            assert!(grid.buf.capacity() * std::mem::size_of::<S>() <= bytes && grid.buf.len() <= grid.buf.capacity(),
                "[C13] the recorded size covers the real allocation");
            assert!((grid.buf().as_ptr() as usize) % 32 == 0 || w * h == 0, "[C02] the first sample is 32-byte aligned");
            kani::cover!(w * h > 0 || W != SYM);
            let observe_live: bool = kani::any();
            if observe_live {
                assert!(drain_exactly(&t, budget - bytes), "[C13] Ok: exactly buf_len * size_of::<S>() bytes are taken (one handle)");
                drop(grid);
                assert!(drain_exactly(&t, bytes), "[C13] dropping the grid gives exactly those bytes back");
                return;
            }
            drop(grid);
            after_drop = budget;
        }
        Err(e) => {
            assert!(budget < bytes, "[C13] Err only when the budget is exhausted");
            assert!(e.bytes() == bytes, "[C13] the error reports the size that was needed");
            kani::cover!(true);
            after_drop = budget;
        }
    }
    assert!(drain_exactly(&t, after_drop), "[C13] after Err, or after dropping the grid, the whole budget is available again");
}

fn without_tracker_contract<S: Sample, const W: usize, const H: usize>() {
    let (w, h) = dims::<W, H>();
    let r = AlignedGrid::<S>::with_alloc_tracker(w, h, None);
    match r {
        Ok(grid) => {
            assert!(grid.handle.is_none() && grid.tracker().is_none(), "[C13] no tracker: nothing is recorded");
            assert!(grid.buf().len() == w * h);
            let c = grid.try_clone();
            assert!(matches!(&c, Ok(c) if c.handle.is_none() && c.buf().len() == w * h), "[C13] cloning an untracked grid is untracked and cannot fail");
        }
        Err(_) => assert!(false, "[C13] without a tracker allocation is never refused"),
    }
    let e = AlignedGrid::<S>::empty();
    assert!(e.handle.is_none() && e.width() == 0 && e.height() == 0 && e.buf().is_empty());
}

// ------------------------------------------------------------------------------------------------
// try_clone / clone_untracked
// ------------------------------------------------------------------------------------------------
fn try_clone_contract<S: Sample, const W: usize, const H: usize, const OFF: usize>() {
    let (w, h) = (W, H);
    let bytes = buf_bytes::<S>(w, h);
    let budget: usize = kani::any();
    kani::assume(budget >= bytes); // the source grid exists
    let t = AllocTracker::with_limit(budget);
    // the source: a tracked grid as with_alloc_tracker creates it (gr.ag.with_tracker_*: one handle of `bytes`)
    let handle = t.alloc::<S>(w * h + 31 / std::mem::size_of::<S>()).unwrap();
    let src = grid_literal::<S, W, H, OFF>(Some(handle));
    let (x, y) = ((kani::any::<u8>() & 3) as usize, (kani::any::<u8>() & 3) as usize);
    let left = budget - bytes; // gr.alloc_* : what the source took
    let r = src.try_clone();
    match r {
        Ok(c) => {
            assert!(left >= bytes, "[C13] a clone is created only within the remaining budget");
            assert!(c.handle.is_some(), "[C13] the clone of a tracked grid is tracked (same tracker)");
            assert!(c.width() == w && c.height() == h && c.buf().len() == w * h && inv(&c), "[C02] the clone keeps the AlignedGrid invariant");
            assert!(c.buf.capacity() * std::mem::size_of::<S>() <= bytes, "[C13] the recorded size covers the clone's real allocation");
            assert!(c.try_get_ref(x, y) == src.try_get_ref(x, y), "[C02] the clone has the same samples");
            kani::cover!(W * H == 0 || c.try_get_ref(x, y).is_some());
            if kani::any() {
                assert!(drain_exactly(&t, left - bytes), "[C13] Ok: the clone takes exactly the buffer size once more");
                return;
            }
            drop(c);
            assert!(drain_exactly(&t, left), "[C13] dropping the clone gives its bytes back");
        }
        Err(e) => {
            assert!(left < bytes && e.bytes() == bytes, "[C13] Err only when the remaining budget is too small");
            kani::cover!(true);
            if kani::any() {
                assert!(drain_exactly(&t, left), "[C13] a failed clone takes nothing");
                return;
            }
            drop(src);
            assert!(drain_exactly(&t, budget), "[C13] and the source's bytes still come back when it is dropped");
        }
    }
}

fn clone_untracked_contract<S: Sample, const W: usize, const H: usize, const OFF: usize>() {
    let bytes = buf_bytes::<S>(W, H);
    let budget: usize = kani::any();
    kani::assume(budget >= bytes);
    let t = AllocTracker::with_limit(budget);
    let handle = t.alloc::<S>(W * H + 31 / std::mem::size_of::<S>()).unwrap();
    let src = grid_literal::<S, W, H, OFF>(Some(handle));
    let c = src.clone_untracked();
    assert!(c.handle.is_none() && c.buf().len() == W * H && inv(&c), "[C13] clone_untracked records nothing");
    let (x, y) = ((kani::any::<u8>() & 3) as usize, (kani::any::<u8>() & 3) as usize);
    assert!(c.try_get_ref(x, y) == src.try_get_ref(x, y), "[C02] the clone has the same samples");
    assert!(drain_exactly(&t, budget - bytes), "[C13] the budget is untouched by clone_untracked");
}

// ------------------------------------------------------------------------------------------------
// index arithmetic of the safe accessors and the subgrid views
// ------------------------------------------------------------------------------------------------
fn accessors_contract<S: Sample, const W: usize, const H: usize, const OFF: usize>() {
    let (w, h) = (W, H);
    let mut grid = grid_literal::<S, W, H, OFF>(None);
    let (x, y) = ((kani::any::<u8>() & 3) as usize, (kani::any::<u8>() & 3) as usize);
    let v: S = kani::any();
    let inside = x < w && y < h;
    match grid.try_get_mut(x, y) {
        Some(s) => {
            assert!(inside, "[C02] try_get_mut is Some only inside the grid");
            *s = v;
        }
        None => assert!(!inside, "[C02] try_get_mut is None only outside the grid"),
    }
    assert!(grid.try_get_ref(x, y).is_some() == inside);
    if inside {
        assert!(grid.buf()[y * w + x] == v && grid.get(x, y) == v && *grid.get_ref(x, y) == v && *grid.get_mut(x, y) == v,
            "[C02] sample (x, y) is element y * width + x of buf()");
        assert!(grid.get_row(y)[x] == v && grid.get_row_mut(y)[x] == v, "[C02] row y is buf()[y * width ..][.. width]");
    }
    match grid.try_get_row(y) {
        Some(row) => assert!(y < h && row.len() == w && (w == 0 || std::ptr::eq(&row[0], &grid.buf()[y * w]))),
        None => assert!(y >= h),
    }
    assert!(grid.try_get_row_mut(y).is_some() == (y < h));
    assert!(grid.buf_mut().len() == w * h);
    // as_subgrid_mut never panics (zero dimensions included) and views exactly the grid
    {
        let base = grid.buf().as_ptr();
        let sub = grid.as_subgrid_mut();
        assert!(sub.width() == w && sub.height() == h);
        match sub.try_get_ref(x, y) {
            Some(r) => assert!(inside && std::ptr::eq(r, base.wrapping_add(y * w + x)) && *r == v, "[C02] as_subgrid_mut views the same samples with stride == width"),
            None => assert!(!inside),
        }
    }
    // as_subgrid: SharedSubgrid::from_buf refuses zero dimensions (documented there) -- see the report
    if w > 0 && h > 0 {
        let base = grid.buf().as_ptr();
        let sub = grid.as_subgrid();
        assert!(sub.width() == w && sub.height() == h);
        match sub.try_get_ref(x, y) {
            Some(r) => assert!(inside && std::ptr::eq(r, base.wrapping_add(y * w + x)) && *r == v, "[C02] as_subgrid views the same samples with stride == width"),
            None => assert!(!inside),
        }
    }
    kani::cover!((inside && x > 0 && y > 0) || W < 2 || H < 2);
}

macro_rules! instantiate {
    ($($name:ident = $body:expr;)*) => {$(
        #[kani::proof]
        #[kani::unwind(18)]
        fn $name() {
            $body
        }
    )*};
}

instantiate! {
    // quick: concrete dimensions
    ag_with_tracker_i16_2x3 = with_tracker_contract::<i16, 2, 3>();
    ag_with_tracker_i32_3x1 = with_tracker_contract::<i32, 3, 1>();
    ag_with_tracker_i32_0x2 = with_tracker_contract::<i32, 0, 2>();
    ag_without_tracker_i16_2x2 = without_tracker_contract::<i16, 2, 2>();
    ag_try_clone_i16_2x2 = try_clone_contract::<i16, 2, 2, 0>();
    // NOT registered (measured): did not close in 300 s
    ag_try_clone_i32_3x1 = try_clone_contract::<i32, 3, 1, 0>();
    ag_try_clone_i32_0x2 = try_clone_contract::<i32, 0, 2, 0>();
    // NOT registered (measured): CBMC exceeds 14 GB
    ag_clone_untracked_i16_2x2 = clone_untracked_contract::<i16, 2, 2, 0>();
    ag_accessors_i16_3x2 = accessors_contract::<i16, 3, 2, 5>();
    ag_accessors_i32_2x2 = accessors_contract::<i32, 2, 2, 0>();
    ag_accessors_i32_0x2 = accessors_contract::<i32, 0, 2, 0>();
    // thorough: symbolic dimensions <= 3 x 3
    ag_with_tracker_i16_sym = with_tracker_contract::<i16, SYM, SYM>();
    ag_with_tracker_i32_sym = with_tracker_contract::<i32, SYM, SYM>();
    ag_without_tracker_i16_sym = without_tracker_contract::<i16, SYM, SYM>();
}
