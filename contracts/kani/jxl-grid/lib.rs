// Contracts for crates/jxl-grid/src/lib.rs: AlignedGrid as an owner of tracked memory (C13) and its
// index arithmetic (C02).  Child module of the crate root: sees AlignedGrid's private fields, but NOT
// AllocTracker's (bytes_left / handle.bytes live in mod alloc_tracker), so the budget is observed
// through the public API only:   left(t) == v   <=>   shrink_limit(v) is Ok and then shrink_limit(1) is Err
// (shrink_limit's contract: gr.shrink_limit).
//
// C13 contract of every owner in this crate (with_alloc_tracker, try_clone; clone_untracked is the
// explicit opt-out):
//   buf_len = width * height + 31 / size_of::<S>()      (room for aligning the first sample to 32 bytes)
//   bytes   = buf_len * size_of::<S>()                  == capacity of the Vec in bytes: the real allocation
//   Ok(grid)  => exactly `bytes` were taken from the tracker (one handle), they come back when the grid is dropped;
//                without a tracker nothing is recorded
//   Err(e)    => the budget is unchanged, budget < bytes, e.bytes() == bytes, nothing is allocated
// Preconditions: width * height and buf_len * size_of::<S>() do not overflow (frame dimension limits,
// see alloc_tracker.rs header); bounded here to tiny dimensions because the buffer is really allocated.
use super::*;

const MAXDIM: usize = 3;

/// left(t) == v, observed through the public API; leaves the tracker with 0 bytes left.
fn drain_exactly(t: &AllocTracker, v: usize) -> bool {
    t.shrink_limit(v).is_ok() && t.shrink_limit(1).is_err()
}

fn dims() -> (usize, usize) {
    let (w, h) = ((kani::any::<u8>() & 3) as usize, (kani::any::<u8>() & 3) as usize);
    kani::assume(w <= MAXDIM && h <= MAXDIM);
    (w, h)
}

fn buf_bytes<S>(w: usize, h: usize) -> usize {
    (w * h + 31 / std::mem::size_of::<S>()) * std::mem::size_of::<S>()
}

trait Sample: Default + Clone + Copy + PartialEq + kani::Arbitrary {}
impl Sample for i16 {}
impl Sample for i32 {}

// ------------------------------------------------------------------------------------------------
// with_alloc_tracker
// ------------------------------------------------------------------------------------------------
fn with_tracker_contract<S: Sample>() {
    let (w, h) = dims();
    let bytes = buf_bytes::<S>(w, h);
    let budget: usize = kani::any();
    let t = AllocTracker::with_limit(budget);
    let r = AlignedGrid::<S>::with_alloc_tracker(w, h, Some(&t));
    let after_drop: usize;
    match r {
        Ok(grid) => {
            assert!(budget >= bytes, "[C13] a grid is created only within the budget");
            assert!(grid.handle.is_some() && grid.tracker().is_some(), "[C13] a tracked grid carries its handle for its lifetime");
            assert!(grid.width() == w && grid.height() == h && grid.buf().len() == w * h, "[C02] the grid has width * height samples");
            assert!(grid.buf.capacity() * std::mem::size_of::<S>() <= bytes && grid.buf.len() <= grid.buf.capacity(),
                "[C13] the recorded size covers the real allocation");
            assert!((grid.buf().as_ptr() as usize) % 32 == 0 || w * h == 0, "[C02] the first sample is 32-byte aligned");
            kani::cover!(w * h > 0);
            let observe_live: bool = kani::any();
            if observe_live {
                assert!(drain_exactly(&t, budget - bytes), "[C13] Ok: exactly buf_len * size_of::<S>() bytes are taken (one handle)");
                drop(grid);
                assert!(drain_exactly(&t, bytes), "[C13] dropping the grid gives exactly those bytes back");
                return;
            }
            drop(grid);
            after_drop = budget;
        }
        Err(e) => {
            assert!(budget < bytes, "[C13] Err only when the budget is exhausted");
            assert!(e.bytes() == bytes, "[C13] the error reports the size that was needed");
            kani::cover!(true);
            after_drop = budget;
        }
    }
    assert!(drain_exactly(&t, after_drop), "[C13] after Err, or after dropping the grid, the whole budget is available again");
}

fn without_tracker_contract<S: Sample>() {
    let (w, h) = dims();
    let r = AlignedGrid::<S>::with_alloc_tracker(w, h, None);
    match r {
        Ok(grid) => {
            assert!(grid.handle.is_none() && grid.tracker().is_none(), "[C13] no tracker: nothing is recorded");
            assert!(grid.buf().len() == w * h);
            let c = grid.try_clone();
            assert!(matches!(&c, Ok(c) if c.handle.is_none() && c.buf().len() == w * h), "[C13] cloning an untracked grid is untracked and cannot fail");
        }
        Err(_) => assert!(false, "[C13] without a tracker allocation is never refused"),
    }
    let e = AlignedGrid::<S>::empty();
    assert!(e.handle.is_none() && e.width() == 0 && e.height() == 0 && e.buf().is_empty());
}

// ------------------------------------------------------------------------------------------------
// try_clone / clone_untracked
// ------------------------------------------------------------------------------------------------
fn try_clone_contract<S: Sample>() {
    let (w, h) = dims();
    let bytes = buf_bytes::<S>(w, h);
    let budget: usize = kani::any();
    kani::assume(budget >= bytes); // the source grid exists
    let t = AllocTracker::with_limit(budget);
    let mut src = AlignedGrid::<S>::with_alloc_tracker(w, h, Some(&t)).unwrap();
    let (x, y) = ((kani::any::<u8>() & 3) as usize, (kani::any::<u8>() & 3) as usize);
    let v: S = kani::any();
    if let Some(s) = src.try_get_mut(x, y) {
        *s = v;
    }
    let left = budget - bytes; // gr.alloc_* : what the source took
    let untracked = src.clone_untracked();
    assert!(untracked.handle.is_none() && untracked.buf().len() == w * h, "[C13] clone_untracked records nothing");
    let r = src.try_clone();
    match r {
        Ok(c) => {
            assert!(left >= bytes, "[C13] a clone is created only within the remaining budget");
            assert!(c.handle.is_some(), "[C13] the clone of a tracked grid is tracked (same tracker)");
            assert!(c.width() == w && c.height() == h && c.buf().len() == w * h);
            assert!(c.buf.capacity() * std::mem::size_of::<S>() <= bytes, "[C13] the recorded size covers the clone's real allocation");
            assert!(c.try_get_ref(x, y) == src.try_get_ref(x, y), "[C02] the clone has the same samples");
            kani::cover!(w * h > 0 && c.try_get_ref(x, y).is_some());
            if kani::any() {
                assert!(drain_exactly(&t, left - bytes), "[C13] Ok: the clone takes exactly the buffer size once more");
                return;
            }
            drop(c);
            drop(untracked);
            assert!(drain_exactly(&t, left), "[C13] dropping the clone gives its bytes back (clone_untracked never took any)");
        }
        Err(e) => {
            assert!(left < bytes && e.bytes() == bytes, "[C13] Err only when the remaining budget is too small");
            kani::cover!(true);
            drop(untracked);
            assert!(drain_exactly(&t, left), "[C13] a failed clone takes nothing");
            drop(src);
            assert!(drain_exactly(&t, bytes), "[C13] and the source's bytes still come back when it is dropped");
        }
    }
}

// ------------------------------------------------------------------------------------------------
// index arithmetic of the safe accessors and the subgrid views
// ------------------------------------------------------------------------------------------------
fn accessors_contract<S: Sample>() {
    let (w, h) = dims();
    let mut grid = AlignedGrid::<S>::with_alloc_tracker(w, h, None).unwrap();
    let (x, y) = ((kani::any::<u8>() & 3) as usize, (kani::any::<u8>() & 3) as usize);
    let v: S = kani::any();
    let inside = x < w && y < h;
    match grid.try_get_mut(x, y) {
        Some(s) => {
            assert!(inside, "[C02] try_get_mut is Some only inside the grid");
            *s = v;
        }
        None => assert!(!inside, "[C02] try_get_mut is None only outside the grid"),
    }
    assert!(grid.try_get_ref(x, y).is_some() == inside);
    if inside {
        assert!(grid.buf()[y * w + x] == v && grid.get(x, y) == v && *grid.get_ref(x, y) == v && *grid.get_mut(x, y) == v,
            "[C02] sample (x, y) is element y * width + x of buf()");
        assert!(grid.get_row(y)[x] == v && grid.get_row_mut(y)[x] == v, "[C02] row y is buf()[y * width ..][.. width]");
    }
    match grid.try_get_row(y) {
        Some(row) => assert!(y < h && row.len() == w && (w == 0 || std::ptr::eq(&row[0], &grid.buf()[y * w]))),
        None => assert!(y >= h),
    }
    assert!(grid.try_get_row_mut(y).is_some() == (y < h));
    assert!(grid.buf_mut().len() == w * h);
    // as_subgrid_mut never panics (zero dimensions included) and views exactly the grid
    {
        let base = grid.buf().as_ptr();
        let sub = grid.as_subgrid_mut();
        assert!(sub.width() == w && sub.height() == h);
        match sub.try_get_ref(x, y) {
            Some(r) => assert!(inside && std::ptr::eq(r, base.wrapping_add(y * w + x)) && *r == v, "[C02] as_subgrid_mut views the same samples with stride == width"),
            None => assert!(!inside),
        }
    }
    // as_subgrid: SharedSubgrid::from_buf refuses zero dimensions (documented there) -- see the report
    if w > 0 && h > 0 {
        let base = grid.buf().as_ptr();
        let sub = grid.as_subgrid();
        assert!(sub.width() == w && sub.height() == h);
        match sub.try_get_ref(x, y) {
            Some(r) => assert!(inside && std::ptr::eq(r, base.wrapping_add(y * w + x)) && *r == v, "[C02] as_subgrid views the same samples with stride == width"),
            None => assert!(!inside),
        }
    }
    kani::cover!(inside && x > 0 && y > 0);
    kani::cover!(w == 0 && h > 0);
}

macro_rules! instantiate {
    ($($name:ident = $body:expr;)*) => {$(
        #[kani::proof]
        #[kani::unwind(34)]
        fn $name() {
            $body
        }
    )*};
}

instantiate! {
    ag_with_tracker_i16 = with_tracker_contract::<i16>();
    ag_with_tracker_i32 = with_tracker_contract::<i32>();
    ag_without_tracker_i16 = without_tracker_contract::<i16>();
    ag_try_clone_i16 = try_clone_contract::<i16>();
    ag_try_clone_i32 = try_clone_contract::<i32>();
    ag_accessors_i16 = accessors_contract::<i16>();
    ag_accessors_i32 = accessors_contract::<i32>();
}
