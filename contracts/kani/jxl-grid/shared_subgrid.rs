// Contracts for crates/jxl-grid/src/shared_subgrid.rs (child module: sees ptr/width/height/stride).
//
// Same abstract view and proof structure as kani/jxl-grid/mutable_subgrid.rs (read its header):
//      Geo { off, w, h, stride },  grid.ptr == base + off,  cell(x, y) = off + y * stride + x,
//      wf(geo, len): every addressable element is an element of the buffer.
// Every operation is specified from an ARBITRARY well-formed shared grid; the result has exactly the
// specified Geo; its well-formedness is the arithmetic lemma gr.ms.lemma_sub / gr.ms.lemma_vectored
// (proved in the mutable_subgrid module for the same value domains; the Geo arithmetic is identical),
// and every accessor of the result is exercised at symbolic coordinates under CBMC's pointer checks.
// Shared grids may overlap, so there is no disjointness claim; split parts are exactly the two
// rectangles of gr.ms.lemma_split_partition (inside the parent, covering it).
// The same DESIGN 2.2 observation applies (`ptr.add` for an EMPTY edge part may leave the allocation
// without being dereferenced): harness precondition in_alloc.
use super::*;
use std::ops::Bound;

pub(crate) trait Elem: Copy + kani::Arbitrary + 'static {
    fn same(self, o: Self) -> bool;
}
impl Elem for i16 {
    fn same(self, o: Self) -> bool {
        self == o
    }
}
impl Elem for f32 {
    fn same(self, o: Self) -> bool {
        self.to_bits() == o.to_bits()
    }
}

/// Value domain of a harness: backing buffer of at most D::MAXBUF elements; every dimension,
/// coordinate, offset and stride is a value 0..=D::MAXV (D::MAXV >= D::MAXBUF: includes out-of-range probes).
pub(crate) trait Dom: 'static {
    const MAXBUF: usize;
    const MAXV: usize;
    type Store<V: Elem>: Store<V>;
    fn small() -> usize {
        (kani::any::<u8>() as usize) & Self::MAXV
    }
    fn any_len() -> usize {
        let len = Self::small();
        kani::assume(len <= Self::MAXBUF);
        len
    }
}

/// Backing storage: a 32-byte aligned array of D::MAXBUF symbolic elements; the buffer handed to the
/// grid is its LAST `len` elements, so that an access past the end of the slice is an access past the
/// end of the object (CBMC's pointer_dereference check); an access before its start is excluded by the
/// ghost assertions (offsets are unsigned and every accessed address is asserted to be base + cell).
pub(crate) trait Store<V: Elem> {
    fn any() -> Self;
    fn all(&mut self) -> &mut [V];
    fn window(&mut self, len: usize) -> &mut [V] {
        let a = self.all();
        let n = a.len();
        &mut a[n - len..]
    }
}
#[repr(C, align(32))]
pub(crate) struct Store24<V>(pub [V; 24]);
#[repr(C, align(32))]
pub(crate) struct Store48<V>(pub [V; 48]);
impl<V: Elem> Store<V> for Store24<V> {
    fn any() -> Self {
        Store24(kani::any())
    }
    fn all(&mut self) -> &mut [V] {
        &mut self.0
    }
}
impl<V: Elem> Store<V> for Store48<V> {
    fn any() -> Self {
        Store48(kani::any())
    }
    fn all(&mut self) -> &mut [V] {
        &mut self.0
    }
}
/// quick tier: buffer <= 24 elements, 5-bit values
pub(crate) struct Q;
impl Dom for Q {
    const MAXBUF: usize = 24;
    const MAXV: usize = 31;
    type Store<V: Elem> = Store24<V>;
}
/// 48-element / 6-bit instantiations: NOT registered -- not measured in the time available
pub(crate) struct T;
impl Dom for T {
    const MAXBUF: usize = 48;
    const MAXV: usize = 63;
    type Store<V: Elem> = Store48<V>;
}

/// Use a fact proved by the named lemma obligation (same value domain, same Geo arithmetic).
macro_rules! use_lemma {
    ($lemma:literal, $c:expr) => {{
        let _discharged_by: &str = $lemma;
        kani::assume($c);
    }};
}

#[derive(Clone, Copy, PartialEq, Eq)]
pub(crate) struct Geo {
    pub off: usize,
    pub w: usize,
    pub h: usize,
    pub stride: usize,
}

impl Geo {
    pub(crate) fn empty(&self) -> bool {
        self.w == 0 || self.h == 0
    }
    /// rows (even of a zero-width grid) start inside the buffer or one past its end; a grid without
    /// rows only needs its origin there
    pub(crate) fn wf(&self, len: usize) -> bool {
        if self.h == 0 {
            self.off <= len
        } else {
            (self.w == 0 || self.w <= self.stride) && self.off <= len && (self.h == 1 || self.stride <= len)
                && self.off + (self.h - 1) * self.stride + self.w <= len
        }
    }
    pub(crate) fn cell(&self, x: usize, y: usize) -> usize {
        self.off + y * self.stride + x
    }
    /// geometry of the child whose origin is parent element (x0, y0)
    pub(crate) fn sub(&self, x0: usize, y0: usize, w: usize, h: usize) -> Geo {
        Geo { off: self.cell(x0, y0), w, h, stride: self.stride }
    }
}

/// A symbolic well-formed geometry (see mutable_subgrid.rs).
pub(crate) fn any_geo<D: Dom>(len: usize) -> Geo {
    let g = Geo { off: D::small(), w: D::small(), h: D::small(), stride: D::small() };
    kani::assume(g.w == 0 || g.w <= g.stride); // from_buf asserts it; subgrid / split keep it
    kani::assume(g.wf(len));
    g
}

fn geo_of<V>(g: &SharedSubgrid<'_, V>, base: *const V, expect: &Geo) -> bool {
    g.ptr.as_ptr() as *const V == base.wrapping_add(expect.off) && g.width == expect.w && g.height == expect.h && g.stride == expect.stride
}

fn any_grid<'a, V: Elem, D: Dom>(buf: &'a [V]) -> (SharedSubgrid<'a, V>, Geo, *const V, usize) {
    let len = buf.len();
    let base = buf.as_ptr();
    let geo = any_geo::<D>(len);
    let g = unsafe { SharedSubgrid::new(NonNull::new(base.wrapping_add(geo.off) as *mut V).unwrap(), geo.w, geo.h, geo.stride) };
    (g, geo, base, len)
}

/// Exercise every accessor of `g` at symbolic coordinates; returns whether an element was read.
fn check_access<V: Elem, D: Dom>(g: &SharedSubgrid<'_, V>, geo: &Geo, base: *const V, len: usize) -> bool {
    assert!(geo_of(g, base, geo), "[C02] subgrid has exactly the specified geometry (exact child -> parent mapping)");
    assert!(g.width() == geo.w && g.height() == geo.h);
    let (x, y) = (D::small(), D::small());
    let inside = x < geo.w && y < geo.h;
    let mut read = false;
    match g.try_get_ref(x, y) {
        Some(r) => {
            assert!(inside, "[C02] try_get_ref is Some only inside the grid");
            assert!(geo.cell(x, y) < len && std::ptr::eq(r, base.wrapping_add(geo.cell(x, y))),
                "[C02] element (x, y) is buffer element off + y * stride + x");
            let v = *r; // dereference under CBMC's pointer check
            let direct = unsafe { base.add(geo.cell(x, y)).read() };
            assert!(v.same(direct) && g.get(x, y).same(v) && g.get_ref(x, y).same(v), "[C02] get returns the mapped buffer element");
            read = true;
        }
        None => assert!(!inside, "[C02] try_get_ref is None only outside the grid"),
    }
    match g.try_get_row(y) {
        Some(row) => {
            assert!(y < geo.h, "[C02] try_get_row is Some only for a row of the grid");
            assert!(row.len() == geo.w && row.as_ptr() == base.wrapping_add(geo.cell(0, y)),
                "[C02] row y is the w elements starting at off + y * stride");
            assert!(g.get_row(y).as_ptr() == row.as_ptr());
            let i = D::small();
            if i < row.len() {
                let v = row[i];
                assert!(geo.cell(i, y) < len, "[C02] row elements are buffer elements");
                let direct = unsafe { base.add(geo.cell(i, y)).read() };
                assert!(v.same(direct));
            }
        }
        None => assert!(y >= geo.h, "[C02] try_get_row is None only outside the grid"),
    }
    read
}

// ------------------------------------------------------------------------------------------------
// from_buf
// ------------------------------------------------------------------------------------------------
fn from_buf_ok<V: Elem, D: Dom>() {
    let mut data = <D::Store<V> as Store<V>>::any();
    let len = D::any_len();
    let buf: &[V] = data.window(len);
    let base = buf.as_ptr();
    let (w, h, s6) = (D::small(), D::small(), D::small());
    let big: usize = kani::any();
    let stride = if h <= 1 { big } else { s6 }; // one-row grids: any stride at all
    // documented precondition of from_buf
    kani::assume(w > 0 && h > 0 && w <= stride);
    kani::assume(stride * (h - 1) + w <= len);
    let g = SharedSubgrid::from_buf(buf, w, h, stride);
    let geo = Geo { off: 0, w, h, stride };
    assert!((geo.h - 1) * geo.stride + geo.w <= len, "[C02] every addressable element of the grid is an element of the buffer");
    let read = check_access::<_, D>(&g, &geo, base, len);
    kani::cover!(read && h > 1 && w > 1 && stride > w && len == D::MAXBUF);
    kani::cover!(read && h == 1 && stride > D::MAXBUF);
}

fn from_buf_rejects<V: Elem, D: Dom>() {
    let mut data = <D::Store<V> as Store<V>>::any();
    let len = D::any_len();
    let buf: &[V] = data.window(len);
    let (w, h, stride) = (D::small(), D::small(), D::small());
    let g = SharedSubgrid::from_buf(buf, w, h, stride);
    assert!(g.width == w && g.height == h && g.stride == stride);
    assert!(w > 0 && h > 0 && w <= stride && stride * (h - 1) + w <= len,
        "[C02] from_buf accepts only a non-empty geometry whose area lies inside the buffer");
}

// ------------------------------------------------------------------------------------------------
// subgrid(range_x, range_y)
// ------------------------------------------------------------------------------------------------
fn any_bound<D: Dom>() -> Bound<usize> {
    let v = D::small();
    match kani::any::<u8>() % 3 {
        0 => Bound::Included(v),
        1 => Bound::Excluded(v),
        _ => Bound::Unbounded,
    }
}

fn start_of(b: &Bound<usize>) -> usize {
    match b {
        Bound::Included(v) => *v,
        Bound::Excluded(v) => *v + 1,
        Bound::Unbounded => 0,
    }
}

fn end_of(b: &Bound<usize>, full: usize) -> usize {
    match b {
        Bound::Included(v) => *v + 1,
        Bound::Excluded(v) => *v,
        Bound::Unbounded => full,
    }
}

fn subgrid_ok<V: Elem, D: Dom>() {
    let mut data = <D::Store<V> as Store<V>>::any();
    let (g, geo, base, len) = any_grid::<V, D>(data.window(D::any_len()));
    let (xs, xe, ys, ye) = (any_bound::<D>(), any_bound::<D>(), any_bound::<D>(), any_bound::<D>());
    let (left, right, top, bottom) = (start_of(&xs), end_of(&xe, geo.w), start_of(&ys), end_of(&ye, geo.h));
    // documented precondition: the range is inside the grid
    kani::assume(left <= right && right <= geo.w && top <= bottom && bottom <= geo.h);
    let cgeo = geo.sub(left, top, right - left, bottom - top);
    kani::assume(cgeo.off <= len); // in_alloc, see header (only restricts empty results)
    use_lemma!("gr.ms.lemma_sub", cgeo.empty() || cgeo.wf(len));
    let c = g.subgrid((xs, xe), (ys, ye));
    let read = check_access::<_, D>(&c, &cgeo, base, len);
    // the parent is untouched and still usable (Copy)
    assert!(geo_of(&g, base, &geo));
    kani::cover!(read && cgeo.h > 1 && left > 0 && top > 0);
    kani::cover!(cgeo.w == 0);
    kani::cover!(cgeo.h == 0);
    kani::cover!(read && matches!(xs, Bound::Excluded(_)) && matches!(ye, Bound::Included(_)));
}

fn subgrid_rejects<V: Elem, D: Dom>() {
    let mut data = <D::Store<V> as Store<V>>::any();
    let (g, geo, _base, _len) = any_grid::<V, D>(data.window(D::any_len()));
    let (xs, xe, ys, ye) = (any_bound::<D>(), any_bound::<D>(), any_bound::<D>(), any_bound::<D>());
    let (left, right, top, bottom) = (start_of(&xs), end_of(&xe, geo.w), start_of(&ys), end_of(&ye, geo.h));
    let c = g.subgrid((xs, xe), (ys, ye));
    assert!(left <= right && right <= geo.w && top <= bottom && bottom <= geo.h,
        "[C02] subgrid accepts only ranges inside the grid");
    assert!(c.width == right - left && c.height == bottom - top);
}

// ------------------------------------------------------------------------------------------------
// split_horizontal / split_vertical
// ------------------------------------------------------------------------------------------------
fn split_ok<V: Elem, D: Dom>(vertical: bool) {
    let mut data = <D::Store<V> as Store<V>>::any();
    let (g, geo, base, len) = any_grid::<V, D>(data.window(D::any_len()));
    let at = D::small();
    kani::assume(at <= if vertical { geo.h } else { geo.w }); // documented precondition
    // the specified result: the two rectangles of gr.ms.lemma_split_partition
    let (ageo, bgeo) = if vertical {
        (geo.sub(0, 0, geo.w, at), geo.sub(0, at, geo.w, geo.h - at))
    } else {
        (geo.sub(0, 0, at, geo.h), geo.sub(at, 0, geo.w - at, geo.h))
    };
    kani::assume(bgeo.off <= len); // in_alloc, see header (only restricts an empty second part)
    use_lemma!("gr.ms.lemma_sub", (ageo.empty() || ageo.wf(len)) && (bgeo.empty() || bgeo.wf(len)));
    let (a, b) = if vertical { g.split_vertical(at) } else { g.split_horizontal(at) };
    assert!(geo_of(&a, base, &ageo) && geo_of(&b, base, &bgeo), "[C02] split parts have exactly the specified geometry");
    let first: bool = kani::any();
    let (c, cgeo) = if first { (a, ageo) } else { (b, bgeo) };
    let read = check_access::<_, D>(&c, &cgeo, base, len);
    kani::cover!(read && first && at > 0 && !bgeo.empty());
    kani::cover!(read && !first && at > 0 && bgeo.h > 1);
    kani::cover!(at == 0);
    kani::cover!(bgeo.empty() && !geo.empty());
}

fn split_rejects<V: Elem, D: Dom>() {
    let mut data = <D::Store<V> as Store<V>>::any();
    let (g, geo, _base, _len) = any_grid::<V, D>(data.window(D::any_len()));
    let at = D::small();
    if kani::any() {
        let _ = g.split_horizontal(at);
        assert!(at <= geo.w, "[C02] split_horizontal accepts only x <= width");
    } else {
        let _ = g.split_vertical(at);
        assert!(at <= geo.h, "[C02] split_vertical accepts only y <= height");
    }
}

// ------------------------------------------------------------------------------------------------
// as_i32 / as_vectored
// ------------------------------------------------------------------------------------------------
fn as_i32_ok<D: Dom>() {
    let mut data = <D::Store<f32> as Store<f32>>::any();
    let (g, geo, base, len) = any_grid::<f32, D>(data.window(D::any_len()));
    let gi = g.as_i32();
    assert!(gi.ptr.as_ptr() as *const i32 == base.wrapping_add(geo.off) as *const i32 && gi.width == geo.w && gi.height == geo.h && gi.stride == geo.stride,
        "[C02] as_i32 keeps the geometry");
    let (x, y) = (D::small(), D::small());
    match gi.try_get_ref(x, y) {
        Some(r) => {
            assert!(x < geo.w && y < geo.h && geo.cell(x, y) < len && std::ptr::eq(r as *const i32, base.wrapping_add(geo.cell(x, y)) as *const i32));
            let f = unsafe { base.add(geo.cell(x, y)).read() };
            assert!(*r as u32 == f.to_bits(), "[C02] as_i32 reinterprets the same element");
        }
        None => assert!(!(x < geo.w && y < geo.h)),
    }
    if let Some(row) = gi.try_get_row(y) {
        assert!(row.len() == geo.w);
        let i = D::small();
        if i < row.len() {
            let _v = row[i];
        }
    }
    kani::cover!(geo.h > 1 && geo.w > 1);
}

#[cfg(target_arch = "x86_64")]
fn as_vectored_ok<D: Dom>() {
    use std::arch::x86_64::__m128;
    let mut data = <D::Store<f32> as Store<f32>>::any();
    let (g, geo, base, len) = any_grid::<f32, D>(data.window(D::any_len()));
    // the backing array is 32-byte aligned and MAXBUF % 4 == 0: the element index decides alignment
    let aligned = (D::MAXBUF - len + geo.off) % 4 == 0;
    match g.as_vectored::<__m128>() {
        Some(v) => {
            assert!(aligned && geo.w % 4 == 0 && geo.stride % 4 == 0, "[C02] as_vectored is Some only for an aligned, lane-multiple geometry");
            assert!(v.ptr.as_ptr() as *const __m128 == base.wrapping_add(geo.off) as *const __m128 && v.width == geo.w / 4 && v.height == geo.h
                && v.stride == geo.stride / 4, "[C02] vector view: same origin, width and stride in vectors");
            // gr.ms.lemma_vectored: vector (x, y) is f32 elements (4x .. 4x+3, y) of the grid, all inside the buffer
            let (x, y) = (D::small(), D::small());
            use_lemma!("gr.ms.lemma_vectored", !(x < geo.w / 4 && y < geo.h) || geo.cell(4 * x + 3, y) < len);
            match v.try_get_ref(x, y) {
                Some(r) => {
                    assert!(x < geo.w / 4 && y < geo.h);
                    assert!(std::ptr::eq(r as *const __m128 as *const f32, base.wrapping_add(geo.cell(4 * x, y))),
                        "[C02] vector element (x, y) starts at f32 element (4x, y)");
                    let lanes: [f32; 4] = unsafe { std::mem::transmute(*r) }; // 16-byte read under CBMC's pointer check
                    let last = unsafe { base.add(geo.cell(4 * x + 3, y)).read() };
                    assert!(lanes[3].to_bits() == last.to_bits());
                }
                None => assert!(!(x < geo.w / 4 && y < geo.h)),
            }
            if let Some(row) = v.try_get_row(y) {
                assert!(row.len() == geo.w / 4 && row.as_ptr() as *const f32 == base.wrapping_add(geo.cell(0, y)));
                let i = D::small();
                if i < row.len() {
                    let _lanes: [f32; 4] = unsafe { std::mem::transmute(row[i]) };
                }
            }
            kani::cover!(geo.w >= 4 && geo.h >= 2);
        }
        None => assert!(!(aligned && geo.w % 4 == 0 && geo.stride % 4 == 0), "[C02] as_vectored is None only for a misaligned geometry"),
    }
}

macro_rules! instantiate {
    ($($name:ident = $body:expr;)*) => {$(
        #[kani::proof]
        fn $name() {
            $body
        }
    )*};
}

// quick tier: buffer <= 24 elements, 5-bit values
instantiate! {
    ss_from_buf_q = from_buf_ok::<i16, Q>();
    ss_from_buf_rejects = from_buf_rejects::<i16, Q>();
    ss_subgrid_q = subgrid_ok::<i16, Q>();
    ss_subgrid_rejects = subgrid_rejects::<i16, Q>();
    ss_split_h_q = split_ok::<i16, Q>(false);
    ss_split_v_q = split_ok::<i16, Q>(true);
    ss_split_rejects = split_rejects::<i16, Q>();
    ss_as_i32_q = as_i32_ok::<Q>();
    ss_as_vectored_q = as_vectored_ok::<Q>();
}
// 48-element / 6-bit instantiations: NOT registered -- not measured in the time available
instantiate! {
    ss_from_buf_i16 = from_buf_ok::<i16, T>();
    ss_from_buf_f32 = from_buf_ok::<f32, T>();
    ss_subgrid_i16 = subgrid_ok::<i16, T>();
    ss_subgrid_f32 = subgrid_ok::<f32, T>();
    ss_split_h_i16 = split_ok::<i16, T>(false);
    ss_split_h_f32 = split_ok::<f32, T>(false);
    ss_split_v_i16 = split_ok::<i16, T>(true);
    ss_split_v_f32 = split_ok::<f32, T>(true);
    ss_as_i32_t = as_i32_ok::<T>();
    ss_as_vectored_t = as_vectored_ok::<T>();
}
