// Contracts for crates/jxl-grid/src/alloc_tracker.rs (child module: sees the private fields).
//
// Ghost state of a tracker:   limit       = the budget given to with_limit, + every expand_limit,
//                                           - every successful shrink_limit        (mathematical integer)
//                             outstanding = sum of `bytes` over the live AllocHandles of that tracker
// Data-structure invariant:   bytes_left + outstanding == limit   and   limit <= usize::MAX
// (=> "the tracked total never exceeds the limit":  outstanding <= limit, C13).
//
// Per-function contracts are attached to the real functions as kani::requires/ensures/modifies
// (registry: _alloc_attrs) and proved with proof_for_contract; every harness restates the
// postcondition as tagged asserts so that a native replay observes it.
//
// Preconditions and where they come from:
//  * alloc::<T>(count): count * size_of::<T>() does not overflow.  The code multiplies unchecked
//    (panics in checked builds, wraps -> under-accounts in release builds).  Real call sites:
//    AlignedGrid::with_alloc_tracker / empty_aligned (count = w*h + 31/size, frame area <= 2^40 and
//    w,h <= 2^30: jxl-frame/src/lib.rs:126-139), GroupData::ensure_allocated (T = u8,
//    jxl-frame/src/lib.rs:90), MaConfig (constant 16, jxl-modular/src/ma.rs:99), noise
//    (jxl-render/src/features/noise.rs:211, elems = 3 * padded frame area).
//  * expand_limit(by): limit + by <= usize::MAX (fetch_add wraps silently otherwise; no call site
//    in the workspace, public API only).
use super::*;

pub(crate) fn left(t: &AllocTracker) -> usize {
    t.inner.bytes_left.load(Ordering::Relaxed)
}

fn same_tracker(h: &AllocHandle, t: &AllocTracker) -> bool {
    Arc::ptr_eq(&h.inner, &t.inner)
}

#[kani::proof]
fn canary() {
    let x: u8 = kani::any();
    assert!(x != 3, "canary: must fail");
}

// ------------------------------------------------------------------------------------------------
// alloc::<T>
// ------------------------------------------------------------------------------------------------
fn alloc_post<T>(budget: usize, count: usize) {
    let t = AllocTracker::with_limit(budget);
    assert!(left(&t) == budget, "[C13] with_limit sets the whole budget");
    let size = std::mem::size_of::<T>();
    kani::assume(count.checked_mul(size).is_some());
    let bytes = count * size;
    let r = t.alloc::<T>(count);
    match &r {
        Ok(h) => {
            assert!(budget >= bytes, "[C13] alloc succeeds only within the budget");
            assert!(left(&t) == budget - bytes, "[C13] Ok: bytes_left' == bytes_left - bytes");
            assert!(h.bytes == bytes, "[C13] Ok: the handle records exactly count * size_of::<T>()");
            assert!(same_tracker(h, &t), "[C13] the handle gives back to the tracker it was taken from");
            assert!(left(&t) as u128 + h.bytes as u128 == budget as u128, "[C13] G' == G");
        }
        Err(e) => {
            assert!(budget < bytes, "[C13] Err only when the budget is exhausted");
            assert!(left(&t) == budget, "[C13] Err: bytes_left unchanged (nothing leaks on failure)");
            assert!(e.bytes() == bytes, "[C13] the error reports the requested size");
        }
    }
    kani::cover!(r.is_ok() && bytes > 0);
    kani::cover!(r.is_err());
    kani::cover!(r.is_ok() && bytes == budget);
    drop(r);
    assert!(left(&t) == budget, "[C13] after dropping the result the full budget is back");
}

#[kani::proof_for_contract(AllocTracker::alloc)]
#[kani::unwind(2)] // fetch_update is a compare-exchange loop; single-threaded it runs once
fn alloc_contract_u8() {
    alloc_post::<u8>(kani::any(), kani::any());
}

#[kani::proof_for_contract(AllocTracker::alloc)]
#[kani::unwind(2)] // fetch_update is a compare-exchange loop; single-threaded it runs once
fn alloc_contract_f32() {
    alloc_post::<f32>(kani::any(), kani::any());
}

#[kani::proof_for_contract(AllocTracker::alloc)]
#[kani::unwind(2)] // fetch_update is a compare-exchange loop; single-threaded it runs once
fn alloc_contract_16b() {
    alloc_post::<[u64; 2]>(kani::any(), kani::any());
}

// ------------------------------------------------------------------------------------------------
// AllocHandle::drop
// ------------------------------------------------------------------------------------------------
#[kani::proof_for_contract(<AllocHandle as std::ops::Drop>::drop)]
fn drop_contract() {
    let before: usize = kani::any();
    let bytes: usize = kani::any();
    // invariant: bytes_left + outstanding == limit <= usize::MAX
    kani::assume(before.checked_add(bytes).is_some());
    let t = AllocTracker::with_limit(before);
    let h = AllocHandle { bytes, inner: Arc::clone(&t.inner) };
    drop(h);
    assert!(left(&t) == before + bytes, "[C13] drop: bytes_left' == bytes_left + handle.bytes");
}

// ------------------------------------------------------------------------------------------------
// shrink_limit / expand_limit
// ------------------------------------------------------------------------------------------------
#[kani::proof_for_contract(AllocTracker::shrink_limit)]
#[kani::unwind(2)]
fn shrink_contract() {
    let before: usize = kani::any();
    let by: usize = kani::any();
    let t = AllocTracker::with_limit(before);
    let r = t.shrink_limit(by);
    match &r {
        Ok(()) => {
            assert!(before >= by && left(&t) == before - by, "[C13] shrink Ok: bytes_left' == bytes_left - by");
        }
        Err(e) => {
            assert!(before < by, "[C13] shrink fails only when live allocations do not allow it");
            assert!(left(&t) == before, "[C13] failed shrink changes nothing");
            assert!(e.bytes() == by, "[C13] error reports the requested amount");
        }
    }
    kani::cover!(r.is_ok() && by > 0);
    kani::cover!(r.is_err());
}

#[kani::proof_for_contract(AllocTracker::expand_limit)]
fn expand_contract() {
    let before: usize = kani::any();
    let by: usize = kani::any();
    kani::assume(before.checked_add(by).is_some());
    let t = AllocTracker::with_limit(before);
    t.expand_limit(by);
    assert!(left(&t) == before + by, "[C13] expand: bytes_left' == bytes_left + by, no wrap");
    kani::cover!(by > 0);
}

// ------------------------------------------------------------------------------------------------
// any sequence of <= NOPS operations on a symbolic budget
// ------------------------------------------------------------------------------------------------
/// assert, then let the solver use the fact (sound: the assumption is exactly what was just checked;
/// it only spares the solver from re-deriving the invariant of step k while working on step k+1).
macro_rules! proved {
    ($c:expr, $m:literal) => {{
        let c: bool = $c;
        assert!(c, $m);
        kani::assume(c);
    }};
}

struct Ghost {
    limit: usize,
    n_ok: usize,
    n_err: usize,
}

/// One symbolic operation; returns the handle of a successful alloc.
fn any_op<const N: usize>(t: &AllocTracker, slots: &mut [Option<AllocHandle>; N], g: &mut Ghost) -> Option<AllocHandle> {
    let op: u8 = kani::any();
    let arg: usize = kani::any();
    let before = left(t);
    match op & 3 {
        0 => {
            // byte counts are symbolic over all of usize; the element-size multiplication is the subject of
            // gr.alloc_f32 / gr.alloc_16b and is not repeated here
            let (r, bytes) = (t.alloc::<u8>(arg), arg);
            match r {
                Ok(h) => {
                    assert!(h.bytes == bytes && before >= bytes && left(t) == before - bytes,
                        "[C13] alloc Ok takes exactly bytes from the budget");
                    g.n_ok += 1;
                    return Some(h);
                }
                Err(_) => {
                    assert!(before < bytes && left(t) == before, "[C13] reaching the limit is an error and takes nothing");
                    g.n_err += 1;
                }
            }
        }
        1 => {
            let i: usize = kani::any();
            kani::assume(i < N);
            if let Some(h) = slots[i].take() {
                let b = h.bytes;
                drop(h);
                assert!(left(t) - before == b && left(t) >= before, "[C13] drop gives back exactly handle.bytes");
            }
        }
        2 => match t.shrink_limit(arg) {
            Ok(()) => {
                assert!(before >= arg && left(t) == before - arg, "[C13] shrink Ok");
                g.limit -= arg;
            }
            Err(_) => assert!(before < arg && left(t) == before, "[C13] shrink Err changes nothing"),
        },
        _ => {
            // precondition of expand_limit: the new limit is representable
            kani::assume(arg <= usize::MAX - g.limit);
            t.expand_limit(arg);
            g.limit += arg;
        }
    }
    None
}

fn sequence<const N: usize>() {
    let initial: usize = kani::any();
    let t0 = AllocTracker::with_limit(initial);
    let t = t0.clone(); // clones share the budget
    let mut g = Ghost { limit: initial, n_ok: 0, n_err: 0 };
    let mut slots: [Option<AllocHandle>; N] = std::array::from_fn(|_| None);
    let mut step = 0;
    while step < N {
        let h = any_op(&t, &mut slots, &mut g);
        slots[step] = h; // slot `step` is still empty: only earlier steps could have filled it
        // invariant after every operation (mathematical sum: no wrap)
        let mut outstanding: usize = 0;
        let mut k = 0;
        while k < N {
            if let Some(h) = &slots[k] {
                let (s, o) = outstanding.overflowing_add(h.bytes);
                assert!(!o, "[C13] the tracked total is representable");
                outstanding = s;
            }
            k += 1;
        }
        proved!(outstanding <= g.limit, "[C13] the tracked total never exceeds the limit");
        proved!(left(&t0) == g.limit - outstanding, "[C13] bytes_left + outstanding == limit (ghost budget preserved)");
        step += 1;
    }
    kani::cover!(g.n_ok >= 2 && g.n_err >= 1);
    kani::cover!(g.n_ok == N);
    // drop everything: the whole (adjusted) budget is available again
    let mut k = 0;
    while k < N {
        slots[k] = None;
        k += 1;
    }
    assert!(left(&t0) == g.limit, "[C13] after dropping every handle bytes_left == initial +- adjustments");
    assert!(t0.shrink_limit(g.limit).is_ok() && left(&t) == 0, "[C13] shrink_limit(whole budget) succeeds after everything is dropped");
}

#[kani::proof]
#[kani::unwind(6)]
fn sequence_contract() {
    sequence::<4>();
}

#[kani::proof]
#[kani::unwind(5)]
fn sequence3_contract() {
    sequence::<3>();
}
