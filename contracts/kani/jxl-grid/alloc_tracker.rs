// Contracts for crates/jxl-grid/src/alloc_tracker.rs (child module: sees the private fields).
//
// Ghost state of a tracker:   limit       = the budget given to with_limit, + every expand_limit,
//                                           - every successful shrink_limit        (mathematical integer)
//                             outstanding = sum of `bytes` over the live AllocHandles of that tracker
// Data-structure invariant:   bytes_left + outstanding == limit   and   limit <= usize::MAX
// (=> "the tracked total never exceeds the limit":  outstanding <= limit, C13).
//
// Per-function contracts are attached to the real functions as kani::requires/ensures/modifies
// (registry: _alloc_attrs) and proved with proof_for_contract; every harness restates the
// postcondition as tagged asserts so that a native replay observes it.
//
// Preconditions and where they come from:
//  * alloc::<T>(count): count * size_of::<T>() does not overflow.  The code multiplies unchecked
//    (panics in checked builds, wraps -> under-accounts in release builds).  Real call sites:
//    AlignedGrid::with_alloc_tracker / empty_aligned (count = w*h + 31/size, frame area <= 2^40 and
//    w,h <= 2^30: jxl-frame/src/lib.rs:126-139), GroupData::ensure_allocated (T = u8,
//    jxl-frame/src/lib.rs:90), MaConfig (constant 16, jxl-modular/src/ma.rs:99), noise
//    (jxl-render/src/features/noise.rs:211, elems = 3 * padded frame area).
//  * expand_limit(by): limit + by <= usize::MAX (fetch_add wraps silently otherwise; no call site
//    in the workspace, public API only).
use super::*;

pub(crate) fn left(t: &AllocTracker) -> usize {
    t.inner.bytes_left.load(Ordering::Relaxed)
}

fn same_tracker(h: &AllocHandle, t: &AllocTracker) -> bool {
    Arc::ptr_eq(&h.inner, &t.inner)
}

#[kani::proof]
fn canary() {
    let x: u8 = kani::any();
    assert!(x != 3, "canary: must fail");
}

// ------------------------------------------------------------------------------------------------
// alloc::<T>
// ------------------------------------------------------------------------------------------------
fn alloc_post<T>(budget: usize, count: usize) {
    let t = AllocTracker::with_limit(budget);
    assert!(left(&t) == budget, "[C13] with_limit sets the whole budget");
    let size = std::mem::size_of::<T>();
    kani::assume(count.checked_mul(size).is_some());
    let bytes = count * size;
    let r = t.alloc::<T>(count);
    match &r {
        Ok(h) => {
            assert!(budget >= bytes, "[C13] alloc succeeds only within the budget");
            assert!(left(&t) == budget - bytes, "[C13] Ok: bytes_left' == bytes_left - bytes");
            assert!(h.bytes == bytes, "[C13] Ok: the handle records exactly count * size_of::<T>()");
            assert!(same_tracker(h, &t), "[C13] the handle gives back to the tracker it was taken from");
            assert!(left(&t) as u128 + h.bytes as u128 == budget as u128, "[C13] G' == G");
        }
        Err(e) => {
            assert!(budget < bytes, "[C13] Err only when the budget is exhausted");
            assert!(left(&t) == budget, "[C13] Err: bytes_left unchanged (nothing leaks on failure)");
            assert!(e.bytes() == bytes, "[C13] the error reports the requested size");
        }
    }
    kani::cover!(r.is_ok() && bytes > 0);
    kani::cover!(r.is_err());
    kani::cover!(r.is_ok() && bytes == budget);
    drop(r);
    assert!(left(&t) == budget, "[C13] after dropping the result the full budget is back");
}

#[kani::proof_for_contract(AllocTracker::alloc)]
fn alloc_contract_u8() {
    alloc_post::<u8>(kani::any(), kani::any());
}

#[kani::proof_for_contract(AllocTracker::alloc)]
fn alloc_contract_f32() {
    alloc_post::<f32>(kani::any(), kani::any());
}

#[kani::proof_for_contract(AllocTracker::alloc)]
fn alloc_contract_16b() {
    alloc_post::<[u64; 2]>(kani::any(), kani::any());
}

// ------------------------------------------------------------------------------------------------
// AllocHandle::drop
// ------------------------------------------------------------------------------------------------
#[kani::proof_for_contract(<AllocHandle as std::ops::Drop>::drop)]
fn drop_contract() {
    let before: usize = kani::any();
    let bytes: usize = kani::any();
    // invariant: bytes_left + outstanding == limit <= usize::MAX
    kani::assume(before.checked_add(bytes).is_some());
    let t = AllocTracker::with_limit(before);
    let h = AllocHandle { bytes, inner: Arc::clone(&t.inner) };
    drop(h);
    assert!(left(&t) == before + bytes, "[C13] drop: bytes_left' == bytes_left + handle.bytes");
}

// ------------------------------------------------------------------------------------------------
// shrink_limit / expand_limit
// ------------------------------------------------------------------------------------------------
#[kani::proof_for_contract(AllocTracker::shrink_limit)]
fn shrink_contract() {
    let before: usize = kani::any();
    let by: usize = kani::any();
    let t = AllocTracker::with_limit(before);
    let r = t.shrink_limit(by);
    match &r {
        Ok(()) => {
            assert!(before >= by && left(&t) == before - by, "[C13] shrink Ok: bytes_left' == bytes_left - by");
        }
        Err(e) => {
            assert!(before < by, "[C13] shrink fails only when live allocations do not allow it");
            assert!(left(&t) == before, "[C13] failed shrink changes nothing");
            assert!(e.bytes() == by, "[C13] error reports the requested amount");
        }
    }
    kani::cover!(r.is_ok() && by > 0);
    kani::cover!(r.is_err());
}

#[kani::proof_for_contract(AllocTracker::expand_limit)]
fn expand_contract() {
    let before: usize = kani::any();
    let by: usize = kani::any();
    kani::assume(before.checked_add(by).is_some());
    let t = AllocTracker::with_limit(before);
    t.expand_limit(by);
    assert!(left(&t) == before + by, "[C13] expand: bytes_left' == bytes_left + by, no wrap");
    kani::cover!(by > 0);
}

// ------------------------------------------------------------------------------------------------
// any sequence of <= 4 operations on a symbolic budget
// ------------------------------------------------------------------------------------------------
const NOPS: usize = 4;

fn alloc_any(t: &AllocTracker, sel: u8, count: usize) -> (Result<AllocHandle, crate::OutOfMemory>, Option<usize>) {
    match sel % 3 {
        0 => (t.alloc::<u8>(count), count.checked_mul(1)),
        1 => (t.alloc::<f32>(count), count.checked_mul(4)),
        _ => (t.alloc::<[u64; 2]>(count), count.checked_mul(16)),
    }
}

#[kani::proof]
#[kani::unwind(6)]
fn sequence_contract() {
    let initial: usize = kani::any();
    let t = AllocTracker::with_limit(initial);
    let t2 = t.clone(); // clones share the budget
    let mut limit: u128 = initial as u128; // ghost
    let mut slots: [Option<AllocHandle>; NOPS] = [None, None, None, None];
    let mut n_ok = 0usize;
    let mut n_err = 0usize;

    let mut step = 0;
    while step < NOPS {
        let op: u8 = kani::any();
        let arg: usize = kani::any();
        let who = if kani::any() { &t } else { &t2 };
        match op % 4 {
            0 => {
                let sel: u8 = kani::any();
                // precondition of alloc (see header): the byte count is representable
                let want = match sel % 3 { 0 => arg.checked_mul(1), 1 => arg.checked_mul(4), _ => arg.checked_mul(16) };
                kani::assume(want.is_some());
                let before = left(&t);
                let (r, bytes) = alloc_any(who, sel, arg);
                let bytes = bytes.unwrap();
                match r {
                    Ok(h) => {
                        assert!(h.bytes == bytes && before >= bytes && left(&t) == before - bytes,
                            "[C13] alloc Ok takes exactly bytes from the budget");
                        slots[step] = Some(h);
                        n_ok += 1;
                    }
                    Err(_) => {
                        assert!(before < bytes && left(&t) == before,
                            "[C13] reaching the limit is an error and takes nothing");
                        n_err += 1;
                    }
                }
            }
            1 => {
                let i: usize = kani::any();
                kani::assume(i < NOPS);
                let before = left(&t);
                if let Some(h) = slots[i].take() {
                    let b = h.bytes;
                    drop(h);
                    assert!(left(&t) as u128 == before as u128 + b as u128, "[C13] drop gives back exactly handle.bytes");
                }
            }
            2 => {
                let before = left(&t);
                match who.shrink_limit(arg) {
                    Ok(()) => {
                        assert!(before >= arg && left(&t) == before - arg, "[C13] shrink Ok");
                        limit -= arg as u128;
                    }
                    Err(_) => assert!(before < arg && left(&t) == before, "[C13] shrink Err changes nothing"),
                }
            }
            _ => {
                // precondition of expand_limit: the new limit is representable
                kani::assume(limit + arg as u128 <= usize::MAX as u128);
                who.expand_limit(arg);
                limit += arg as u128;
            }
        }
        // invariant after every operation
        let mut outstanding: u128 = 0;
        let mut k = 0;
        while k < NOPS {
            if let Some(h) = &slots[k] {
                outstanding += h.bytes as u128;
            }
            k += 1;
        }
        assert!(left(&t) as u128 + outstanding == limit, "[C13] bytes_left + outstanding == limit (ghost budget preserved)");
        assert!(outstanding <= limit, "[C13] the tracked total never exceeds the limit");
        step += 1;
    }
    kani::cover!(n_ok >= 2 && n_err >= 1);
    kani::cover!(n_ok == NOPS);
    // drop everything: the whole (adjusted) budget is available again
    let mut k = 0;
    while k < NOPS {
        slots[k] = None;
        k += 1;
    }
    assert!(left(&t) as u128 == limit, "[C13] after dropping every handle bytes_left == initial +- adjustments");
    assert!(t.shrink_limit(limit as usize).is_ok() && left(&t) == 0, "[C13] shrink_limit(whole budget) succeeds after everything is dropped");
}
