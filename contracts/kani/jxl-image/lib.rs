// Contracts for crates/jxl-image/src/lib.rs (C15, C14, C01):
//   * ImageMetadata::apply_orientation == spec_orientation (contracts/spec/orientation.rs) and its inverse;
//     oriented image dimensions for every size a SizeHeader can encode;
//   * BitDepth::parse_integer_sample for every BitDepth that BitDepth::parse returns;
//   * SizeHeader::compute_default_width == the aspect-ratio table of the standard;
//   * SizeHeader / PreviewHeader / AnimationHeader / BitDepth parsers == the field tables of the standard
//     (value AND exact number of bits), decoded by an independent bit reader over the same bytes.
use super::*;

#[path = "@SPEC@/orientation.rs"]
mod ospec;
use ospec::*;

use jxl_oxide_common::BundleDefault;

fn metadata_with(orientation: u32) -> ImageMetadata {
    let mut m = <ImageMetadata as BundleDefault<()>>::default_with_context(());
    m.orientation = orientation;
    m
}
fn any_orientation() -> u32 {
    let o: u32 = kani::any();
    kani::assume(1 <= o && o <= 8); // 1 + u(3)
    o
}

// ---------------------------------------------------------------------------------------------------
// apply_orientation
// ---------------------------------------------------------------------------------------------------
#[kani::proof]
fn apply_orientation_contract() {
    let o = any_orientation();
    let m = metadata_with(o);
    let (w, h): (u32, u32) = (kani::any(), kani::any());
    // sizes representable as i32 (the function computes `width as i32 - left - 1`); 2^31 is im.oriented_dims
    kani::assume(w >= 1 && h >= 1 && w <= i32::MAX as u32 && h <= i32::MAX as u32);
    let (x, y): (i32, i32) = (kani::any(), kani::any());
    kani::assume(spec_inside(w as i64, h as i64, x as i64, y as i64));
    // forward: stored -> displayed
    let (ow, oh, dx, dy) = m.apply_orientation(w, h, x, y, false);
    assert!((ow as i64, oh as i64) == spec_oriented_dims(o, w as i64, h as i64), "[C15,C14] oriented dimensions: swapped for orientations 5..8");
    assert!((dx as i64, dy as i64) == spec_orientation(o, w as i64, h as i64, x as i64, y as i64),
        "[C15] apply_orientation(.., inverse = false) is the orientation map of the standard");
    assert!(spec_inside(ow as i64, oh as i64, dx as i64, dy as i64), "[C15] a sample inside the image is displayed inside the oriented image");
    // inverse, given the displayed dimensions: back to the stored sample and the stored dimensions
    let (bw, bh, bx, by) = m.apply_orientation(ow, oh, dx, dy, true);
    assert!(bw == w && bh == h && bx == x && by == y, "[C15] apply_orientation(.., inverse = true) on the oriented dimensions inverts the map");
    kani::cover!(o == 6 && w != h && x != y);
    kani::cover!(o == 8 && x > 0 && y > 0);
    kani::cover!(o == 7);
}

/// inverse = true, stated on its own: for every displayed position the stored position it names is displayed there
#[kani::proof]
fn apply_orientation_inverse_contract() {
    let o = any_orientation();
    let m = metadata_with(o);
    let (dw, dh): (u32, u32) = (kani::any(), kani::any());
    kani::assume(dw >= 1 && dh >= 1 && dw <= i32::MAX as u32 && dh <= i32::MAX as u32);
    let (dx, dy): (i32, i32) = (kani::any(), kani::any());
    kani::assume(spec_inside(dw as i64, dh as i64, dx as i64, dy as i64));
    let (w, h, x, y) = m.apply_orientation(dw, dh, dx, dy, true);
    assert!(spec_oriented_dims(o, w as i64, h as i64) == (dw as i64, dh as i64), "[C15] inverse returns the stored dimensions");
    assert!(spec_inside(w as i64, h as i64, x as i64, y as i64), "[C15] inverse stays inside the stored image");
    assert!(spec_orientation(o, w as i64, h as i64, x as i64, y as i64) == (dx as i64, dy as i64),
        "[C15] apply_orientation(.., inverse = true) is the inverse of the orientation map");
    kani::cover!(o == 6 && dw != dh);
    kani::cover!(o == 5);
}

/// Every (width, height) a SizeHeader can encode: height 1..=2^30 (or 8..=256 in the div8 form), width explicit
/// 1..=2^30 or derived from the ratio table, i.e. up to 2 * 2^30 = 2^31.
fn any_encodable_size() -> (u32, u32) {
    let h: u32 = kani::any();
    kani::assume(h >= 1 && h <= 1 << 30);
    let ratio: u32 = kani::any();
    kani::assume(ratio <= 7);
    let w = if ratio == 0 {
        let w: u32 = kani::any();
        kani::assume(w >= 1 && w <= 1 << 30);
        w
    } else {
        SizeHeader::compute_default_width(ratio, 0, h)
    };
    (w, h)
}

#[kani::proof]
fn oriented_dims_contract() {
    let o = any_orientation();
    let (w, h) = any_encodable_size();
    kani::assume(w >= 1);
    let mut size = <SizeHeader as BundleDefault<()>>::default_with_context(());
    size.width = w;
    size.height = h;
    let hdr = ImageHeader { size, metadata: metadata_with(o) };
    // called by RenderContextBuilder::build (jxl-render/src/lib.rs:160) and JxlImage::width()/height()
    let ow = hdr.width_with_orientation();
    let oh = hdr.height_with_orientation();
    assert!((ow as i64, oh as i64) == spec_oriented_dims(o, w as i64, h as i64),
        "[C15,C14,C01] width/height_with_orientation are the oriented dimensions for every encodable image size");
    kani::cover!(w == 1 << 31);
    kani::cover!(o == 5 && ow != oh);
}

// ---------------------------------------------------------------------------------------------------
// BitDepth::parse_integer_sample
// ---------------------------------------------------------------------------------------------------
fn check_integer_sample(bits: u32) {
    let v: i32 = kani::any();
    let r = (BitDepth::IntegerSample { bits_per_sample: bits }).parse_integer_sample(v);
    // 2^bits - 1 computed without overflow
    let max = ((1u64 << bits) - 1) as f32;
    let e = v as f32 / max;
    assert!(r.to_bits() == e.to_bits(), "[C15,C01] integer sample v maps to v / (2^bits - 1)");
    if v == 0 {
        assert!(r == 0.0, "[C15] 0 -> 0.0");
    }
    if bits <= 24 && v as i64 == (1i64 << bits) - 1 {
        assert!(r == 1.0, "[C15] the maximum sample value maps to exactly 1.0");
    }
}

#[kani::proof]
fn parse_integer_sample_contract() {
    // BitDepth::parse: U32(8, 10, 12, 1 + u(6)) limited to <= 31; 31 is its own obligation
    let bits: u32 = kani::any();
    kani::assume(1 <= bits && bits <= 30);
    check_integer_sample(bits);
    kani::cover!(bits == 8);
    kani::cover!(bits == 30);
}

#[kani::proof]
fn parse_integer_sample_31_contract() {
    check_integer_sample(31);
}

/// Value of a sample of a `bits`-bit floating point format with `exp_bits` exponent bits (IEEE 754 layout:
/// sign, biased exponent, mantissa; 18181-1 bit depth, float_sample) for finite codes: exponent field != all ones.
/// All formats BitDepth::parse accepts (exp_bits 2..=8, mantissa 2..=23 bits) embed exactly into f32.
fn spec_float_sample(bits: u32, exp_bits: u32, sample: u32) -> f32 {
    let mant_bits = bits - exp_bits - 1;
    let sign = (sample >> (bits - 1)) & 1;
    let e = (sample >> mant_bits) & ((1 << exp_bits) - 1);
    let m = sample & ((1 << mant_bits) - 1);
    let bias = (1i32 << (exp_bits - 1)) - 1;
    let pow2 = |k: i32| f32::from_bits(((k + 127) as u32) << 23); // exact 2^k, -126 <= k <= 127
    // every product below is exact: an integer < 2^24 scaled by powers of two, result representable in f32
    let mag = if e == 0 {
        // zero and subnormals: m / 2^mant_bits * 2^(1 - bias)
        (m as f32 * pow2(-(mant_bits as i32))) * pow2(1 - bias)
    } else {
        // (1 + m / 2^mant_bits) * 2^(e - bias)
        ((m | (1 << mant_bits)) as f32 * pow2(-(mant_bits as i32))) * pow2(e as i32 - bias)
    };
    if sign == 1 { -mag } else { mag }
}

fn any_float_depth() -> (u32, u32) {
    // BitDepth::parse: bits in U32(32, 16, 24, 1 + u(6)), exp_bits = u(4) + 1 in 2..=8, mantissa bits in 2..=23
    let (bits, exp_bits): (u32, u32) = (kani::any(), kani::any());
    kani::assume(2 <= exp_bits && exp_bits <= 8);
    kani::assume(bits <= 64 && bits >= exp_bits + 3 && bits - exp_bits - 1 <= 23);
    (bits, exp_bits)
}

/// normal numbers (exponent field neither 0 nor all ones)
#[kani::proof]
fn parse_float_sample_normal_contract() {
    let (bits, exp_bits) = any_float_depth();
    let sample: u32 = kani::any(); // bits above the format width are ignored by the code and by the specification alike
    let mant_bits = bits - exp_bits - 1;
    let e = (sample >> mant_bits) & ((1 << exp_bits) - 1);
    kani::assume(e != 0 && e != (1 << exp_bits) - 1);
    let r = (BitDepth::FloatSample { bits_per_sample: bits, exp_bits }).parse_integer_sample(sample as i32);
    assert!(r.to_bits() == spec_float_sample(bits, exp_bits, sample).to_bits(), "[C15,C01] float sample: normal numbers have their IEEE value");
    kani::cover!(bits == 16 && exp_bits == 5 && r == 1.0);
    kani::cover!(bits == 32 && exp_bits == 8);
    kani::cover!(bits == 24 && exp_bits == 7 && r < 0.0);
}

/// zero and subnormal codes (exponent field 0)
#[kani::proof]
fn parse_float_sample_zero_contract() {
    let (bits, exp_bits) = any_float_depth();
    let sample: u32 = kani::any(); // bits above the format width are ignored by the code and by the specification alike
    let mant_bits = bits - exp_bits - 1;
    let e = (sample >> mant_bits) & ((1 << exp_bits) - 1);
    kani::assume(e == 0);
    let r = (BitDepth::FloatSample { bits_per_sample: bits, exp_bits }).parse_integer_sample(sample as i32);
    assert!(r.to_bits() == spec_float_sample(bits, exp_bits, sample).to_bits(), "[C15] float sample: zero and subnormal codes have their IEEE value (0 -> 0.0)");
}

// ---------------------------------------------------------------------------------------------------
// SizeHeader::compute_default_width: the aspect ratio table (18181-1, SizeHeader: ratio)
// ---------------------------------------------------------------------------------------------------
fn spec_ratio(ratio: u32) -> (u64, u64) {
    match ratio {
        1 => (1, 1),
        2 => (12, 10),
        3 => (4, 3),
        4 => (3, 2),
        5 => (16, 9),
        6 => (5, 4),
        _ => (2, 1), // 7
    }
}

#[kani::proof]
fn compute_default_width_contract() {
    let ratio: u32 = kani::any();
    kani::assume(ratio <= 7); // u(3)
    let w_div8: u32 = kani::any();
    kani::assume(w_div8 <= 32 + 512); // SizeHeader: 1 + u(5); PreviewHeader: up to 33 + u(9)
    let height: u32 = kani::any();
    kani::assume(height <= 1 << 30);
    let w = SizeHeader::compute_default_width(ratio, w_div8, height);
    if ratio == 0 {
        assert!(w == 8 * w_div8, "[C14] ratio 0: width = 8 * w_div8");
    } else {
        let (n, d) = spec_ratio(ratio);
        assert!(w as u64 == height as u64 * n / d, "[C14] width = floor(height * num / den) of the ratio table (1:1, 12:10, 4:3, 3:2, 16:9, 5:4, 2:1), no truncation");
    }
    kani::cover!(ratio == 5 && height == 1080 && w == 1920);
    kani::cover!(ratio == 7 && height == 1 << 30);
}

// ---------------------------------------------------------------------------------------------------
// header bundles: parse == the field tables of the standard, value and bit count
// ---------------------------------------------------------------------------------------------------
/// Independent LSB-first bit reader over the same bytes (18181-1 section 9: u(n), Bool, U32).
struct Bits<'a> {
    d: &'a [u8],
    pos: usize,
}
#[derive(Clone, Copy)]
enum D {
    Val(u32),
    Bits(usize, u32), // BitsOffset(n, offset)
}
impl Bits<'_> {
    fn u(&mut self, n: usize) -> u32 {
        let mut v = 0u32;
        let mut i = 0;
        while i < n {
            let p = self.pos + i;
            v |= (((self.d[p / 8] >> (p % 8)) & 1) as u32) << i;
            i += 1;
        }
        self.pos += n;
        v
    }
    fn bool(&mut self) -> bool {
        self.u(1) == 1
    }
    fn u32(&mut self, d: [D; 4]) -> u32 {
        let sel = self.u(2) as usize;
        match d[sel] {
            D::Val(v) => v,
            D::Bits(n, off) => off + self.u(n),
        }
    }
}

const SIZE_U32: [D; 4] = [D::Bits(9, 1), D::Bits(13, 1), D::Bits(18, 1), D::Bits(30, 1)];

#[kani::proof]
#[kani::unwind(32)]
fn size_header_parse_contract() {
    let data: [u8; 10] = kani::any(); // longest form: 1 + 32 + 3 + 32 = 68 bits
    let mut bs = Bitstream::new(&data);
    let r = SizeHeader::parse(&mut bs, ());
    let mut s = Bits { d: &data, pos: 0 };
    let div8 = s.bool();
    let height = if div8 { 8 * (1 + s.u(5)) } else { s.u32(SIZE_U32) };
    let ratio = s.u(3);
    let width = if ratio == 0 {
        if div8 { 8 * (1 + s.u(5)) } else { s.u32(SIZE_U32) }
    } else {
        let (n, d) = spec_ratio(ratio);
        (height as u64 * n / d) as u32
    };
    match r {
        Ok(h) => {
            assert!(h.height == height && h.width == width, "[C14] SizeHeader: height/width as encoded (explicit, div8 and ratio forms)");
            assert!(bs.num_read_bits() == s.pos, "[C14] SizeHeader: parsing stops at exactly the bit the table ends at");
        }
        Err(_) => assert!(false, "[C14,C01] SizeHeader: 10 bytes always hold a complete header"),
    }
    kani::cover!(div8 && ratio == 0);
    kani::cover!(!div8 && ratio == 5 && height == 1080);
    kani::cover!(!div8 && ratio == 0 && s.pos == 68);
}

const PREVIEW_DIV8: [D; 4] = [D::Val(16), D::Val(32), D::Bits(5, 1), D::Bits(9, 33)];
const PREVIEW_U32: [D; 4] = [D::Bits(6, 1), D::Bits(8, 65), D::Bits(10, 321), D::Bits(12, 1345)];

#[kani::proof]
#[kani::unwind(14)]
fn preview_header_parse_contract() {
    let data: [u8; 5] = kani::any(); // longest form: 1 + 14 + 3 + 14 = 32 bits
    let mut bs = Bitstream::new(&data);
    let r = PreviewHeader::parse(&mut bs, ());
    // 18181-1 PreviewHeader: div8; ysize_div8 | ysize; ratio; and ONLY IF ratio == 0: xsize_div8 | xsize
    let mut s = Bits { d: &data, pos: 0 };
    let div8 = s.bool();
    let height = if div8 { 8 * s.u32(PREVIEW_DIV8) } else { s.u32(PREVIEW_U32) };
    let ratio = s.u(3);
    let width = if ratio == 0 {
        if div8 { 8 * s.u32(PREVIEW_DIV8) } else { s.u32(PREVIEW_U32) }
    } else {
        let (n, d) = spec_ratio(ratio);
        (height as u64 * n / d) as u32
    };
    match r {
        Ok(h) => {
            assert!(h.height == height, "[C14] PreviewHeader: height as encoded");
            assert!(h.width == width, "[C14] PreviewHeader: width as encoded (explicit only when ratio == 0, else from the ratio table)");
            assert!(bs.num_read_bits() == s.pos, "[C14] PreviewHeader: parsing stops at exactly the bit the table ends at");
        }
        Err(_) => assert!(false, "[C14,C01] PreviewHeader: 5 bytes always hold a complete header"),
    }
    kani::cover!(div8 && ratio == 0);
    kani::cover!(!div8 && ratio != 0);
}

#[kani::proof]
#[kani::unwind(34)]
fn animation_header_parse_contract() {
    let data: [u8; 11] = kani::any(); // longest form: 32 + 12 + 34 + 1 = 79 bits
    let mut bs = Bitstream::new(&data);
    let r = AnimationHeader::parse(&mut bs, ());
    let mut s = Bits { d: &data, pos: 0 };
    let num = s.u32([D::Val(100), D::Val(1000), D::Bits(10, 1), D::Bits(30, 1)]);
    let den = s.u32([D::Val(1), D::Val(1001), D::Bits(8, 1), D::Bits(10, 1)]);
    let loops = s.u32([D::Val(0), D::Bits(3, 0), D::Bits(16, 0), D::Bits(32, 0)]);
    let tc = s.bool();
    match r {
        Ok(h) => {
            assert!(h.tps_numerator == num && h.tps_denominator == den && h.num_loops == loops && h.have_timecodes == tc,
                "[C14] AnimationHeader: ticks per second, loop count and timecode flag as encoded");
            assert!(bs.num_read_bits() == s.pos, "[C14] AnimationHeader: parsing stops at exactly the bit the table ends at");
        }
        Err(_) => assert!(false, "[C14,C01] AnimationHeader: 11 bytes always hold a complete header"),
    }
    kani::cover!(s.pos == 79);
    kani::cover!(num == 1000 && den == 1001);
}

#[kani::proof]
#[kani::unwind(8)]
fn bit_depth_parse_contract() {
    let data: [u8; 3] = kani::any(); // longest form: 1 + 8 + 4 = 13 bits
    let mut bs = Bitstream::new(&data);
    let r = BitDepth::parse(&mut bs, ());
    let mut s = Bits { d: &data, pos: 0 };
    let float = s.bool();
    if float {
        let bits = s.u32([D::Val(32), D::Val(16), D::Val(24), D::Bits(6, 1)]);
        let exp_bits = s.u(4) + 1;
        let valid = 2 <= exp_bits && exp_bits <= 8 && bits >= exp_bits + 3 && bits - exp_bits - 1 <= 23;
        match r {
            Ok(d) => {
                assert!(valid && d == (BitDepth::FloatSample { bits_per_sample: bits, exp_bits }), "[C14] BitDepth: float sample format as encoded, only valid formats accepted");
                assert!(bs.num_read_bits() == s.pos, "[C14] BitDepth: exact bit count");
            }
            Err(_) => assert!(!valid, "[C14,C01] BitDepth: a valid float format is accepted"),
        }
    } else {
        let bits = s.u32([D::Val(8), D::Val(10), D::Val(12), D::Bits(6, 1)]);
        match r {
            Ok(d) => {
                assert!(bits <= 31 && d == (BitDepth::IntegerSample { bits_per_sample: bits }), "[C14] BitDepth: integer bits per sample as encoded, at most 31");
                assert!(bs.num_read_bits() == s.pos, "[C14] BitDepth: exact bit count");
            }
            Err(_) => assert!(bits > 31, "[C14,C01] BitDepth: up to 31 integer bits are accepted"),
        }
    }
    kani::cover!(float && r.is_ok());
    kani::cover!(float && r.is_err());
    kani::cover!(!float && matches!(r, Ok(BitDepth::IntegerSample { bits_per_sample: 31 })));
    kani::cover!(!float && r.is_err());
}

#[kani::proof]
fn canary() {
    let o = any_orientation();
    let m = metadata_with(o);
    let (_, _, x, _) = m.apply_orientation(10, 20, 3, 4, false);
    assert!(x != 6, "canary: must fail");
}
